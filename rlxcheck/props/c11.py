"""C11 - step budget, episode discipline, step accounting, warm-up gates, scheduler protocol."""
from __future__ import annotations

import ast
from fractions import Fraction

from ..cfg import CFG
from ..counting import explore, path_to
from ..loops import ENV_LOOPS, VECTOR_LOOPS, find_env_loop, dotted, strip_wrappers
from ..nf import NF, Scope, Poly, parse_expr
from ..repo import Repo, loc, short, AnalysisError, param_names
from ..resolve import Resolver
from ..sem import same_ingredients

EXPLANATION = (
    "Path counting on the statement CFG. R1 explores the product of the CFG with the integer difference "
    "(env.step calls executed) - (reported counter - start) for each counter-returning routine, including the zero-trip "
    "and break paths, and requires 0 at every return. R2 checks the budget guard (strict comparison against the budget "
    "parameter, one step per guard evaluation) and the episode-limit exit (episode counter equals the number of finished "
    "episodes at the `>= total_episodes` test, which leads out of the loop). R3 prunes the CFG by the truth table of "
    "(terminated, truncated) and requires that env.step is not reachable from env.step without a reset once the episode "
    "has ended. R4 requires every learning call to be control dependent on `counter >= learning_starts`. R5 checks the "
    "select/feedback protocol of the task selectors, the D-UCB arm choice form (and that the history container whose length counts the plays "
    "of the initial rounds keeps every play: a container bounded independently of the number of arms saturates below 2 * n_arms) and, symbolically, that per-task step "
    "totals and the global counter receive the same increments on every path of the SMT / active-MT schedulers."
)
TRUSTED = [
    "gymnasium protocol (step tuple order; an episode has ended iff terminated or truncated)",
    "RecordEpisodeStatistics.length_queue holds the lengths of the episodes finished during the wrapped call",
    "vector environments auto-reset",
]
RULES = {
    "R1-count": "executed env steps - (returned counter - starting counter) == 0 on every path to a return (break, zero-trip, normal exit)",
    "R2-budget": "the loop that executes env.step is guarded by `counter < budget` (strict) or a range over the budget, one step per guard evaluation",
    "R2-episodes": "the `total_episodes` exit tests `finished episodes >= total_episodes` with the episode counter equal to the number of finished episodes, and leaves the loop",
    "R3-done-reset": "for every (terminated, truncated) row with an ended episode, env.step is not reachable from env.step without env.reset",
    "R4-warmup": "every learning call of a routine with a documented `learning_starts` is control dependent on `counter >= learning_starts`",
    "R5-scheduler": "selector overrides call the base protocol method on all paths and return self.tasks[...]; D-UCB plays round-robin first, then argmax(mean+padding), and counts its plays with a container that is not bounded independently of n_arms; "
                    "SMT/AMT add identical step counts to the per-task total and the global counter on every path; sub-calls receive the loop budget and counter",
}

COUNTER_FIELDS = ("global_step", "steps_trained")
COUNTER_ROUTINES = [
    "rl_blox.algorithm.dqn.train_dqn", "rl_blox.algorithm.nature_dqn.train_nature_dqn", "rl_blox.algorithm.ddqn.train_ddqn",
    "rl_blox.algorithm.ddpg.train_ddpg", "rl_blox.algorithm.td3.train_td3", "rl_blox.algorithm.td3_lap.train_td3_lap",
    "rl_blox.algorithm.sac.train_sac", "rl_blox.algorithm.td7.train_td7", "rl_blox.algorithm.mrq.train_mrq",
]
# loops whose budget is counted in env steps and checked once per step
STEP_BUDGET = COUNTER_ROUTINES + [
    "rl_blox.algorithm.per.train_ddqn_per", "rl_blox.algorithm.pets.train_pets", "rl_blox.algorithm.q_learning.train_q_learning",
    "rl_blox.algorithm.sarsa.train_sarsa", "rl_blox.algorithm.double_q_learning.train_double_q_learning",
    "rl_blox.algorithm.monte_carlo.train_monte_carlo", "rl_blox.algorithm.dynaq.train_dynaq",
]
BUDGET_PARAMS = ("total_timesteps",)
MT_LOOPS = {
    "rl_blox.algorithm.smt.smt_stage1": "b1",
    "rl_blox.algorithm.smt.smt_stage2": "b_total",
    "rl_blox.algorithm.active_mt.train_active_mt": "total_timesteps",
    "rl_blox.algorithm.uniform_task_sampling.train_uts": "total_timesteps",
}


def _role_param(fn, qual: str, role: str):
    """Current name of the documented parameter ``role`` of a routine, None when the routine has no such parameter.  Deliberately by name: a
    parameter that is not in the recorded signature and has a constant default is read by the engine as an option at its default
    (specialise pass) - its uses in the body are constants then, so looking the role up by position would find a parameter that the body
    no longer refers to.  A renamed documented parameter therefore means `no obligation / undecided`, never a violation."""
    if (qual, role) in _ADDED_OPTIONS:
        # a parameter of this name that was added after the reference signatures were recorded is an option read at its default: the
        # body refers to the default then (a constant), not to the parameter - the routine has no documented parameter of this role
        return None
    return role if role in param_names(fn) else None


_ADDED_OPTIONS: set = set()


def _record_type_fields(fn, f, repo=None, mi=None):
    """Field names, in constructor order, of the record type that the callee expression ``f`` denotes: `namedtuple("N", [...])` itself, a
    name bound once (in the function or at module level) to such a call, a NamedTuple / dataclass class of the repository.  None: not read."""
    if isinstance(f, ast.Call) and dotted(f.func).split(".")[-1] == "namedtuple" and not f.keywords:
        return NF._record_fields(ast.Assign(targets=[], value=f))
    if isinstance(f, ast.Name):
        stores = [n for n in ast.walk(fn) if isinstance(n, ast.Name) and n.id == f.id and isinstance(n.ctx, (ast.Store, ast.Del))]
        if stores or f.id in param_names(fn):
            binds = [n for n in ast.walk(fn) if isinstance(n, ast.Assign) and len(n.targets) == 1 and isinstance(n.targets[0], ast.Name) and n.targets[0].id == f.id]
            if len(stores) == 1 and len(binds) == 1 and isinstance(binds[0].value, ast.Call):
                return _record_type_fields(fn, binds[0].value, None, None) if isinstance(binds[0].value.func, (ast.Name, ast.Attribute)) and dotted(binds[0].value.func).split(".")[-1] == "namedtuple" else None
            return None
    if isinstance(f, (ast.Name, ast.Attribute)) and repo is not None and mi is not None:
        q = repo.resolve_expr(mi, f)
        if q is not None and q.split(".")[0] == repo.PKG:
            try:
                return NF._record_fields(repo.lookup(q)[1])
            except Exception:
                return None
    return None


def _result_field(fn, names, repo=None, mi=None):
    """(return node, expr, field) of the record field in ``names`` of the function's result.  The result is a record construction - an inline
    `namedtuple(...)(...)`, a record type bound to a name first, a NamedTuple / dataclass class - with positional or keyword arguments (bound
    by the field order of the type), returned directly or through a local that is bound once."""
    for n in _own_returns(fn):
        v = n.value
        if isinstance(v, ast.Name):
            stores = [x for x in ast.walk(fn) if isinstance(x, ast.Name) and x.id == v.id and isinstance(x.ctx, (ast.Store, ast.Del))]
            binds = [x for x in ast.walk(fn) if isinstance(x, ast.Assign) and len(x.targets) == 1 and isinstance(x.targets[0], ast.Name) and x.targets[0].id == v.id]
            v = binds[0].value if len(stores) == 1 and len(binds) == 1 else None
        if isinstance(v, ast.Call) and any(isinstance(a, ast.Starred) for a in v.args):
            # `Result(*nets, buffer, steps)` where `nets` is bound once to the construction of a record of known fields: one position per
            # field of that record (`nets.f`), so that the positions after it are counted correctly
            args_ = []
            for a in v.args:
                sub = None
                if isinstance(a, ast.Starred) and isinstance(a.value, ast.Name):
                    st_ = [x for x in ast.walk(fn) if isinstance(x, ast.Name) and x.id == a.value.id and isinstance(x.ctx, (ast.Store, ast.Del))]
                    bd_ = [x for x in ast.walk(fn) if isinstance(x, ast.Assign) and len(x.targets) == 1 and isinstance(x.targets[0], ast.Name) and x.targets[0].id == a.value.id]
                    if len(st_) == 1 and len(bd_) == 1 and isinstance(bd_[0].value, ast.Call) and a.value.id not in param_names(fn):
                        fl_ = _record_type_fields(fn, bd_[0].value.func, repo, mi)
                        if fl_:
                            sub = [ast.copy_location(ast.Attribute(value=ast.Name(id=a.value.id, ctx=ast.Load()), attr=f_, ctx=ast.Load()), a) for f_ in fl_]
                args_ += sub if sub is not None else [a]
            v = ast.copy_location(ast.Call(func=v.func, args=args_, keywords=v.keywords), v)
        if not isinstance(v, ast.Call) or any(isinstance(a, ast.Starred) for a in v.args) or any(k.arg is None for k in v.keywords):
            continue
        fields = _record_type_fields(fn, v.func, repo, mi)
        if not fields or len(v.args) + len(v.keywords) > len(fields):
            continue
        rec = dict(zip(fields, v.args))
        if any(k.arg in rec or k.arg not in fields for k in v.keywords):
            continue
        rec.update({k.arg: k.value for k in v.keywords})
        for f in fields:
            if f in names and f in rec:
                return n, rec[f], f
    return None, None, None


def _walk_own(fn):
    """Nodes of the function itself (nested functions / lambdas / classes are not entered)."""
    todo = list(fn.body)
    while todo:
        x = todo.pop()
        yield x
        if isinstance(x, (ast.FunctionDef, ast.AsyncFunctionDef, ast.Lambda, ast.ClassDef)):
            continue
        todo.extend(ast.iter_child_nodes(x))


def _const_int(e):
    if isinstance(e, ast.UnaryOp) and isinstance(e.op, ast.USub) and isinstance(e.operand, ast.Constant) and isinstance(e.operand.value, int) and not isinstance(e.operand.value, bool):
        return -e.operand.value
    return e.value if isinstance(e, ast.Constant) and isinstance(e.value, int) and not isinstance(e.value, bool) else None


def _split_step_result(repo, fn):
    """The env.step result is a 5-tuple (gymnasium protocol, TRUSTED).  A routine that keeps the tuple in ONE variable and takes it apart
    later (`r = env.step(a); o, rew, term, trunc, info = r`, `o, rew = r[:2]; term, trunc, info = r[2:]`, `r[2]`), or hands it to the
    constructor of an immutable five-field record (`rec = Rec(*env.step(a))`), is the same program as one that names the five positions
    at the call.  Returns a private copy of the function rewritten that way (element-wise: `X[c]` -> the c-th position, `X[a:b]` / `X`
    -> the tuple of the positions, an unpacking of such a tuple -> one copy per position), or None when the function is not of that
    form (then nothing is concluded from it)."""
    from ..expand import clone
    params = set(param_names(fn))

    def is_step(c):
        return isinstance(c, ast.Call) and isinstance(c.func, ast.Attribute) and c.func.attr == "step" and isinstance(c.func.value, ast.Name) and c.func.value.id in params
    new = clone(fn)
    new._module, new._qual, new._parent = fn._module, getattr(fn, "_qual", None), getattr(fn, "_parent", None)
    own = list(_walk_own(new))
    # (as in the loop reader, the step statement is the one assignment of an env.step result; further calls are judged by R2)
    if sum(1 for x in own if isinstance(x, (ast.Assign, ast.AnnAssign, ast.AugAssign, ast.NamedExpr)) and x.value is not None and any(is_step(y) for y in ast.walk(x.value))) != 1:
        return None
    whole, record = [], []
    for s in own:
        if isinstance(s, ast.Assign) and len(s.targets) == 1 and isinstance(s.targets[0], ast.Name):
            v = s.value
            if is_step(v):
                whole.append(s)
            elif isinstance(v, ast.Call) and len(v.args) == 1 and not v.keywords and isinstance(v.args[0], ast.Starred) and is_step(v.args[0].value) and isinstance(v.func, (ast.Name, ast.Attribute)):
                record.append(s)
    if len(whole) + len(record) != 1:
        return None
    st = (whole or record)[0]
    X = st.targets[0].id
    pos = [f"{X}__p{i}" for i in range(5)]
    names = {x.id for x in ast.walk(new) if isinstance(x, ast.Name)} | params
    if set(pos) & names:
        return None

    def nm(i, ctx):
        return ast.copy_location(ast.Name(id=pos[i], ctx=ctx()), st)

    def tup(idx, ctx=ast.Load):
        return ast.copy_location(ast.Tuple(elts=[nm(i, ctx) for i in idx], ctx=ctx()), st)
    generated = set()
    if record:
        call = st.value
        fields = _record_type_fields(new, call.func, repo, fn._module)
        if not fields or len(fields) != 5:
            return None
        step_call = call.args[0].value
        call.args = [nm(i, ast.Load) for i in range(5)]
        extra = [ast.copy_location(ast.Assign(targets=[tup(range(5), ast.Store)], value=step_call), st)]
    else:
        if X in params or sum(1 for x in ast.walk(new) if isinstance(x, ast.Name) and x.id == X and isinstance(x.ctx, (ast.Store, ast.Del))) != 1:
            return None
        if any(isinstance(x, ast.Name) and x.id == X for y in ast.walk(new) if y is not new and isinstance(y, (ast.FunctionDef, ast.AsyncFunctionDef, ast.Lambda, ast.ClassDef)) for x in ast.walk(y)):
            return None
        if any(isinstance(x, (ast.Global, ast.Nonlocal)) and X in x.names for x in ast.walk(new)):
            return None

        class Sub(ast.NodeTransformer):
            ok = True

            def visit_Subscript(self, e):
                if isinstance(e.value, ast.Name) and e.value.id == X and isinstance(e.ctx, ast.Load):
                    c = _const_int(e.slice)
                    if c is not None and -5 <= c < 5:
                        return nm(c % 5, ast.Load)
                    if isinstance(e.slice, ast.Slice) and e.slice.step is None:
                        lo = 0 if e.slice.lower is None else _const_int(e.slice.lower)
                        hi = 5 if e.slice.upper is None else _const_int(e.slice.upper)
                        if lo is not None and hi is not None:
                            t = tup(range(5)[lo:hi])
                            generated.add(id(t))
                            return t
                    Sub.ok = False
                    return e
                return self.generic_visit(e)

            def visit_Name(self, e):
                if e.id == X and isinstance(e.ctx, ast.Load):
                    t = tup(range(5))
                    generated.add(id(t))
                    return t
                return e
        for s in new.body:
            Sub().visit(s)
        if not Sub.ok:
            return None
        st.targets = [tup(range(5), ast.Store)]
        extra = []

    class Split(ast.NodeTransformer):
        def visit_Assign(self, s):
            if s is st and extra:
                return extra + [s]
            if id(s.value) in generated and len(s.targets) == 1 and isinstance(s.targets[0], (ast.Tuple, ast.List)) and len(s.targets[0].elts) == len(s.value.elts) \
                    and not any(isinstance(t, ast.Starred) for t in s.targets[0].elts):
                return [ast.copy_location(ast.Assign(targets=[t], value=v), s) for t, v in zip(s.targets[0].elts, s.value.elts)]
            return s

        def visit_FunctionDef(self, s):
            return s if s is not new else self.generic_visit(s)
    Split().visit(new)
    ast.fix_missing_locations(new)
    for parent in ast.walk(new):
        for child in ast.iter_child_nodes(parent):
            child._parent = parent
    return new


class _OneFunction:
    """What find_env_loop asks the repository for: the function to read."""

    def __init__(self, fn):
        self.fn = fn

    def func(self, qual):
        return self.fn


def _find_env_loop(repo, qual, cfgs):
    try:
        return find_env_loop(repo, qual, cfgs)
    except AnalysisError:
        fn2 = _split_step_result(repo, repo.func(qual))
        if fn2 is None:
            raise
        (cfgs if cfgs is not None else {}).pop(qual, None)
        return find_env_loop(_OneFunction(fn2), qual, cfgs)


def _own_returns(fn):
    """Return statements of the function itself (not of nested functions)."""
    out, todo = [], list(fn.body)
    while todo:
        x = todo.pop()
        if isinstance(x, (ast.FunctionDef, ast.AsyncFunctionDef, ast.Lambda, ast.ClassDef)):
            continue
        if isinstance(x, ast.Return):
            out.append(x)
        todo.extend(ast.iter_child_nodes(x))
    top = {id(x) for x in fn.body}
    return sorted(out, key=lambda r: (id(r) not in top, r.lineno, r.col_offset))       # the function's final return first, then early returns


def _name_plus_const(e):
    e = strip_wrappers(e) if e is not None else e      # int(step), np.asarray(step): the same number
    if isinstance(e, ast.BinOp):
        e = ast.BinOp(left=strip_wrappers(e.left), op=e.op, right=e.right)
    if isinstance(e, ast.Name):
        return e.id, 0
    if isinstance(e, ast.BinOp) and isinstance(e.op, ast.Add) and isinstance(e.left, ast.Constant) and isinstance(e.left.value, int) and not isinstance(e.left.value, bool) and isinstance(strip_wrappers(e.right), ast.Name):
        return strip_wrappers(e.right).id, e.left.value          # 1 + step
    if isinstance(e, ast.BinOp) and isinstance(e.left, ast.Name) and isinstance(e.right, ast.Constant) and isinstance(e.right.value, int):
        if isinstance(e.op, ast.Add):
            return e.left.id, e.right.value
        if isinstance(e.op, ast.Sub):
            return e.left.id, -e.right.value
    return None, None


def _range_args(it):
    """For `range/trange(a, b)` or `(b)` return (a expr | None, b expr); (None, None) for anything else (other iterables, a stride)."""
    if isinstance(it, ast.Call) and dotted(it.func).split(".")[-1] in ("range", "trange", "tqdm") and it.args and not any(isinstance(a, ast.Starred) for a in it.args):
        if dotted(it.func).endswith("tqdm") and isinstance(it.args[0], ast.Call):
            return _range_args(it.args[0])
        if dotted(it.func).endswith("tqdm"):
            return None, None
        if len(it.args) == 1:
            return None, it.args[0]
        if len(it.args) >= 3 and not (isinstance(it.args[2], ast.Constant) and it.args[2].value == 1):
            return None, None
        return it.args[0], it.args[1]
    return None, None


_NEG = {"Lt": "GtE", "LtE": "Gt", "Gt": "LtE", "GtE": "Lt", "Eq": "NotEq", "NotEq": "Eq"}


def _loop_carried(cfg, header: int) -> set:
    """Names (re)defined inside the loop: their value at a test is `the current one`, whatever it is (kept as atoms by the readers below)."""
    body = cfg.loop_body_nodes(header) | {header}
    return {d.name for nid in body for d in cfg.nodes[nid].defs}


def _loop_state(cfg, header: int) -> set:
    """Loop-carried names whose value at the loop guard may come from a previous iteration (counters, accumulators, flags, loop indices):
    defined both before and inside the loop, augmented in place, or running over an iterable.  Temporaries that are recomputed in every
    iteration are not state - they are read through their definitions."""
    body = cfg.loop_body_nodes(header) | {header}
    out = set()
    for nid in body:
        for d in cfg.nodes[nid].defs:
            if d.kind in ("aug", "for"):
                out.add(d.name)
    for nm in _loop_carried(cfg, header):
        ds = cfg.defs_of(header, nm)
        if any(d.node in body for d in ds) and any(d.node not in body for d in ds):
            out.add(nm)
    return out


def _gap(nf, sc, cmp, truth, at):
    """Integer reading of an order comparison: the polynomial D with  (cmp is `truth`)  <=>  D > 0;  None for other comparisons."""
    if not (isinstance(cmp, ast.Compare) and len(cmp.ops) == 1):
        return None
    opn = type(cmp.ops[0]).__name__
    if not truth:
        opn = _NEG.get(opn)
    if opn not in ("Lt", "LtE", "Gt", "GtE"):
        return None
    lo, hi = cmp.left, cmp.comparators[0]
    if opn in ("Gt", "GtE"):
        lo, hi = hi, lo
    D = nf.poly(hi, sc, at) - nf.poly(lo, sc, at)
    return D + Poly.const(1) if opn in ("LtE", "GtE") else D


def _offset(D, plus: str, minus: str):
    """k when D == plus - minus + k for an integer k, else None."""
    k = (D - Poly.atom(plus) + Poly.atom(minus)).const_value()
    return int(k) if k is not None and k.denominator == 1 else None


def _parse(txt):
    try:
        return ast.parse(txt, mode="eval").body
    except SyntaxError:
        return None


def _tokens(txt) -> set:
    import re
    return set(re.findall(r"[A-Za-z_][A-Za-z_0-9]*", txt if isinstance(txt, str) else txt.canon()))


def _unread(p, opaque_ok: bool = False) -> bool:
    """The engine could not read (part of) the value: merged definitions, opaque comprehensions / lambdas, helper temporaries."""
    import re
    t = p if isinstance(p, str) else p.canon()
    return "φ(" in t or (not opaque_ok and ("⟦" in t or "λ[" in t or re.search(r"__i\d+\b", t) is not None))


def _free_tokens(txt) -> set:
    """Identifiers of a canonical text, without the variables bound by comprehensions quoted in it (⟦[f(i) for i in ...]⟧)."""
    import re
    txt = txt if isinstance(txt, str) else txt.canon()
    return _tokens(txt) - set(re.findall(r"\bfor\s+([A-Za-z_][A-Za-z_0-9]*)\s+in\b", txt)) - {"for", "in", "if", "np", "jnp", "numpy"}


def _value_names(e) -> set:
    """Names an expression reads as values (callee names of calls are not values)."""
    skip = set()
    for x in ast.walk(e):
        if isinstance(x, ast.Call):
            f = x.func
            while isinstance(f, ast.Attribute):
                f = f.value
            if isinstance(f, ast.Name):
                skip.add(id(f))
    return {x.id for x in ast.walk(e) if isinstance(x, ast.Name) and id(x) not in skip}


_ARITH_CALLS = {"int", "float", "bool", "max", "min", "abs", "round", "len", "sum", "divmod", "pow"}


def _flow_names(e, repo=None, mi=None) -> set:
    """Names whose value flows into the value of ``e`` by arithmetic: arguments of library / builtin functions count, arguments of repository
    functions and of local callables do not (what such a call returns is not a reading of its arguments)."""
    out = set()

    def walk(x):
        if isinstance(x, ast.Call):
            d = dotted(x.func)
            r = repo.resolve_expr(mi, x.func) if repo is not None and mi is not None and isinstance(x.func, (ast.Name, ast.Attribute)) else None
            lib = d in _ARITH_CALLS or (r is not None and r.split(".")[0] in ("numpy", "jax", "math", "builtins"))
            if not lib:
                return
        if isinstance(x, (ast.Lambda, ast.ListComp, ast.SetComp, ast.DictComp, ast.GeneratorExp)):
            return
        if isinstance(x, ast.Name):
            out.add(x.id)
        for ch in ast.iter_child_nodes(x):
            walk(ch)
    walk(e)
    return out


def _derived(cfg, roots: set, repo=None, mi=None) -> set:
    """Names whose value (transitively) is computed from one of ``roots`` somewhere in the function (flow-insensitive)."""
    out = set(roots)
    changed = True
    while changed:
        changed = False
        for n in cfg.nodes:
            for d in n.defs:
                if d.name in out or d.value is None or d.kind == "param":
                    continue
                v = d.value.value if isinstance(d.value, ast.AugAssign) else d.value
                if isinstance(v, ast.AST) and _flow_names(v, repo, mi) & out:
                    out.add(d.name)
                    changed = True
    return out


def _fresh(cfg, header: int, e, at: int, state: set, depth: int = 0) -> bool:
    """Every loop-state variable the expression reads at node ``at`` (directly or through temporaries) still has the value it had when the
    loop guard was evaluated (it is not read after its update in the same iteration)."""
    rd = cfg.reaching()
    for x in ast.walk(e):
        if not (isinstance(x, ast.Name) and isinstance(x.ctx, ast.Load)):
            continue
        if x.id in state:
            if at != header and rd[at].get(x.id) not in (rd[header].get(x.id), frozenset([(header, x.id)])):      # (the target of a for header is set by the header)
                return False
            continue
        ds = cfg.defs_of(at, x.id)
        for d in ds:
            v = d.value.value if isinstance(d.value, ast.AugAssign) else d.value
            if d.kind in ("assign", "unpack", "walrus", "aug") and isinstance(v, ast.AST) and depth < 4 and not _fresh(cfg, header, v, d.node, state, depth + 1):
                return False
    return True


# ---------------------------------------------------------------------------------------------------
def r1_count(ck, repo, L, start_param="global_step"):
    """Explore CFG x {d_v} where d_v = (env steps executed) - (v - start) for every tracked integer variable v
    (the returned counter, for-range targets, copies `v = w + k`).  All d_v stay bounded on a correct loop."""
    fn, cfg, S = L.fn, L.cfg, L.step_node
    site = L.qual
    rnode, rexpr, fld = _result_field(fn, COUNTER_FIELDS, repo, L.mi)
    ck.need(rnode is not None, f"{site}: no result field {COUNTER_FIELDS} (anchor vanished)")
    c, kret = _name_plus_const(rexpr)
    ck.need(c is not None, f"{site}: returned counter `{short(rexpr)}` is not `name +/- const` (unrecognised idiom)")
    ck.need(_role_param(fn, site, start_param) is not None, f"{site}: no `{start_param}` parameter")
    start_param = _role_param(fn, site, start_param)
    ret_id = cfg.node_of(rnode).id
    # tracked variables: closure of c under `v = w + k` copies and for-range targets
    tracked = {c}
    start_redefined = any(d.name == start_param and d.kind != "param" for n in cfg.nodes for d in n.defs)
    # locals that are bound once, outside every loop, to `start + k` are names for that number (`first_step = global_step`)
    # (while the parameter still holds the value it was called with)
    alias = {}
    alldefs = {}
    for n in cfg.nodes:
        for d in n.defs:
            alldefs.setdefault(d.name, []).append((n, d))
    for nm_, ds_ in alldefs.items():
        if len(ds_) == 1 and ds_[0][1].kind == "assign" and not cfg.enclosing_loops(ds_[0][0].id) and nm_ != c and nm_ != start_param:
            w_, k_ = _name_plus_const(ds_[0][1].value)
            if w_ == start_param and all(d_.kind == "param" for d_ in cfg.defs_of(ds_[0][0].id, start_param)):
                alias[nm_] = k_

    def _name_plus_const_(e):
        nm_, k_ = _name_plus_const(e)
        return (start_param, k_ + alias[nm_]) if nm_ in alias else (nm_, k_)
    if start_redefined:
        tracked.add(start_param)  # e.g. `for global_step in trange(global_step, ...)`: the parameter doubles as loop index
    changed = True
    while changed:
        changed = False
        for n in cfg.nodes:
            for d in n.defs:
                if d.name in tracked and d.kind == "assign":
                    nm, k = _name_plus_const_(d.value)
                    if nm is not None and (nm != start_param or start_redefined) and nm not in tracked:
                        tracked.add(nm)
                        changed = True
                elif d.name in tracked and d.kind == "for":
                    # `for v in range(w + k, ...)`: the loop index starts from another local (a copy of the starting count)
                    a0, _b0 = _range_args(d.value)
                    nm, k = _name_plus_const_(a0) if a0 is not None else (None, None)
                    if nm is not None and nm != start_param and nm not in tracked:
                        tracked.add(nm)
                        changed = True
    order = sorted(tracked)
    idx = {v: i for i, v in enumerate(order)}
    events = {}
    for n in cfg.nodes:
        for d in n.defs:
            if d.name not in tracked or d.kind == "param":
                continue
            s = n.ast
            if d.kind == "aug" and isinstance(s.op, (ast.Add, ast.Sub)) and isinstance(s.value, ast.Constant) and isinstance(s.value.value, int):
                events.setdefault(n.id, []).append(("inc", d.name, s.value.value if isinstance(s.op, ast.Add) else -s.value.value))
            elif d.kind == "assign":
                nm, k = _name_plus_const_(d.value)
                if nm == start_param and (start_param not in tracked or not cfg.enclosing_loops(n.id)):
                    ck.need(not cfg.enclosing_loops(n.id), f"{site}: `{d.name} = {short(d.value)}` inside a loop (unrecognised idiom)")
                    events.setdefault(n.id, []).append(("set", d.name, k))
                elif nm in tracked:
                    events.setdefault(n.id, []).append(("copy", d.name, nm, k))
                else:
                    raise AnalysisError(f"{site}: counter `{d.name}` assigned `{short(d.value)}` (unrecognised idiom)")
            elif d.kind == "for":
                a, b = _range_args(d.value)
                nm, k = _name_plus_const_(a) if a is not None else (None, None)
                ck.need(a is not None and (nm == start_param or nm in tracked), f"{site}: counter loop `{short(s.iter)}` does not start at `{start_param}` (unrecognised idiom)")
                events.setdefault(n.id, []).append(("for", d.name, k, None if nm == start_param else nm))
            else:
                raise AnalysisError(f"{site}: unrecognised definition of counter `{d.name}`: {short(n.ast)}")
    init = tuple(0 if v == start_param else None for v in order)
    # the tests that decide whether a counter update / env.step / a jump is executed: only their outcomes are remembered along a path
    relevant = {b for n in cfg.nodes if n.id in events or n.id == S or (n.kind == "stmt" and isinstance(n.ast, (ast.Break, ast.Continue, ast.Return))) for b, _ in cfg.control_deps(n.id)}

    def transfer(nid, succ, lab, st):
        ds, entered, stepped, broke, lits = st
        ds = list(ds)
        if nid == S:
            ds = [None if x is None else x + 1 for x in ds]
            stepped = True
        node = cfg.nodes[nid]
        if isinstance(node.ast, ast.Break) and node.kind == "stmt":
            broke = True
        if nid in relevant and node.kind == "test" and hasattr(node.ast, "test") and lab in (True, False):
            # branches over the same condition stay correlated along a path (`if done: ... if done:`): no witness through both arms
            v = cfg.eval3(node.ast.test, dict(lits), nid)
            if v is not None and v != lab:
                return None
            newl = cfg._lits(node.ast.test, lab, nid)
            if any((k_, not v_) in lits for k_, v_ in newl):
                return None
            lits = lits | frozenset(newl)
        lits = cfg.propagate(succ, lits)
        for ev in events.get(nid, []):
            i = idx[ev[1]]
            if ev[0] == "inc":
                ds[i] = None if ds[i] is None else ds[i] - ev[2]
            elif ev[0] == "set":
                ds[i] = -ev[2]  # before any step: e = 0
            elif ev[0] == "copy":
                w = ds[idx[ev[2]]]
                ds[i] = None if w is None else w - ev[3]
            elif ev[0] == "for" and lab is True:
                if nid not in entered:
                    if ev[3] is not None:
                        # the range starts at a tracked local w: v = w + k on entry, so d_v = d_w - k
                        if ds[idx[ev[3]]] is None:
                            raise AnalysisError(f"{site}: the counter loop starts at `{ev[3]}`, whose value is not known there (unrecognised form)")
                        e_now = ds[idx[ev[3]]]
                    else:
                        e_now = ds[i] if ds[i] is not None else 0  # v == start param: d_v = e ; otherwise e = 0 (S inside the loop)
                    ds[i] = e_now - ev[2]
                    entered = entered | {nid}
                else:
                    ds[i] = ds[i] - 1
        return (tuple(ds), entered, stepped, broke, lits)

    def bound(st):
        return all(x is None or -4 <= x <= 4 for x in st[0])

    parent, problems = explore(cfg, (init, frozenset(), False, False, frozenset()), transfer, bound=bound, max_states=200000)
    finals = {}
    ci = idx[c]
    for (nid, st), par in parent.items():
        if nid == ret_id:
            d = st[0][ci] if st[0][ci] is not None else 0
            kind0 = "zero-trip" if not st[2] else ("break" if st[3] else "loop-exit")
            finals.setdefault((d - kret, kind0), (nid, st))
    ck.count("R1-states", len(parent))
    for (delta, _k), key in sorted(finals.items()):
        path = [k[0] for k in path_to(parent, key)]
        kind = _k
        ok = delta == 0
        why = "" if ok else (f"on the {kind} path the routine reports `{short(rexpr)}` = start + executed {'+' if -delta > 0 else '-'} {abs(delta)} "
                             f"(executed - (reported - start) = {delta})")
        wit = None if ok else _compress(cfg, path)
        ck.ob("R1-count", site, f"{kind}:delta={delta}", ok, f"return field {fld} = `{short(rexpr)}` on {kind} path", why, loc(L.mi, rnode), wit)
    for nid, st, text, key in problems[:2]:
        if st[0][ci] is None or -4 <= st[0][ci] <= 4:
            # another tracked variable left the range: the exploration was cut there and says nothing about the reported counter
            raise AnalysisError(f"{site}: an auxiliary counter ({[v for v in order if st[0][idx[v]] is not None and not -4 <= st[0][idx[v]] <= 4][:1]}) is not in step with env.step (unrecognised form)")
        ck.ob("R1-count", site, "drift", False, f"counter `{c}`", text + " - the counter is not advanced once per env.step", loc(L.mi, cfg.nodes[nid].ast), _compress(cfg, [k[0] for k in path_to(parent, key)]))


def _path_kind(cfg, L, path, for_hdr):
    has_step = L.step_node in path
    brk = any(isinstance(cfg.nodes[p].ast, ast.Break) for p in path)
    if not has_step:
        return "zero-trip"
    return "break" if brk else "loop-exit"


def _compress(cfg, path, keep=14):
    d = cfg.describe_path(path)
    # drop repeated loop iterations: keep the tail
    return d if len(d) <= keep else d[:3] + ["..."] + d[-(keep - 4):]


# ---------------------------------------------------------------------------------------------------
def _step_guard_literals(cfg, L):
    """[(test node, comparison AST, truth)]: the comparisons that hold whenever env.step executes - the tests env.step is control dependent on
    (loop guards included, conjunctions split, named conditions expanded) and the branches that dominate it with a single arm leading to it
    (`if counter >= budget: break`)."""
    S = L.step_node
    out, seen = [], set()

    def add(b, lab):
        bn = cfg.nodes[b]
        if bn.kind == "test" and hasattr(bn.ast, "test"):
            for txt, truth in cfg._lits(bn.ast.test, lab, b):
                e = _parse(txt)
                if isinstance(e, ast.Compare):
                    out.append((b, e, truth))
    for b, lab in cfg.control_deps(S):
        seen.add(b)
        add(b, lab)
    rd = cfg.reaching()
    for bn in cfg.nodes:
        if bn.kind != "test" or not isinstance(bn.ast, ast.If) or bn.id in seen or bn.id == S or not cfg.dominates(bn.id, S):
            continue
        reach = {lab: cfg.paths_avoiding(bn.id, S, set(), feasible=False, first_label=lab) is not None for lab in (True, False)}
        if reach[True] == reach[False]:
            continue
        names = {x.id for x in ast.walk(bn.ast.test) if isinstance(x, ast.Name)}
        if all(rd[S].get(nm) == rd[bn.id].get(nm) for nm in names):
            add(bn.id, True if reach[True] else False)
    return out


def _unit_counter(cfg, L, c: str, start_param: str) -> bool:
    """``c`` starts at the starting count and every update inside the loop adds one: c - start counts the guard evaluations."""
    body = cfg.loop_body_nodes(L.outer_header)
    has_start = start_param in param_names(L.fn)
    for n in cfg.nodes:
        for d in n.defs:
            if d.name != c:
                continue
            if n.id in body:
                s = n.ast
                if d.kind == "aug" and isinstance(s.op, ast.Add) and isinstance(s.value, ast.Constant) and s.value.value == 1:
                    continue
                if d.kind == "assign" and _name_plus_const(d.value) == (c, 1):
                    continue
                return False
            if d.kind == "param":
                if has_start and c != start_param:
                    return False
                continue
            if d.kind != "assign":
                return False
            if has_start:
                if _name_plus_const(d.value) != (start_param, 0):
                    return False
            elif not (isinstance(d.value, ast.Constant) and d.value.value == 0 and not isinstance(d.value.value, bool)):
                return False
    return True


def _budget_reading(repo, L):
    """How the loop that executes env.step is bounded by the step budget B (read semantically: aliases, int(...), either orientation,
    `c + 1 <= B`, `B - c > 0`, a guard clause in the body).
    While loops: ("while", guard nodes, counter, k, text) where the strongest comparison guarding env.step is  counter < B + k.
    For loops:   ("for", {header}, target | None, k | None, text) where the loop runs  B - start + k  times (k None: not readable)."""
    if getattr(L, "_budget_reading", None) is not None:
        return L._budget_reading
    cfg, site = L.cfg, L.qual
    hdr = cfg.nodes[L.outer_header]
    s = hdr.ast
    budgets = [_role_param(L.fn, site, p) for p in BUDGET_PARAMS if _role_param(L.fn, site, p) is not None]
    if not budgets:
        raise AnalysisError(f"{site}: no budget parameter {BUDGET_PARAMS}")
    B = budgets[0]
    START = _role_param(L.fn, site, "global_step")
    nfq = NF(repo, inline_calls=False)
    carried = _loop_carried(cfg, L.outer_header)
    state = _loop_state(cfg, L.outer_header)
    sc = Scope(cfg, L.mi, {}, site)
    sc.opaque_names = set(state)
    bnames = _derived(cfg, {B}, repo, L.mi)
    if isinstance(s, ast.While):
        cands, unread = [], []
        for b, e, truth in _step_guard_literals(cfg, L):
            D = _gap(nfq, sc, e, truth, b)
            mentions = bool({x.id for x in ast.walk(e) if isinstance(x, ast.Name)} & bnames)
            hit = None
            if D is not None and not _unread(D) and _fresh(cfg, L.outer_header, e, b, state):
                for c in sorted(a for a in D.atoms() if a in state):
                    k = _offset(D, B, c)
                    if k is not None:
                        hit = (b, c, k, short(e, 60) if truth else f"not ({short(e, 60)})")
            if hit is not None:
                cands.append(hit)
            elif mentions:
                unread.append(short(e, 60))
        if not cands:
            raise AnalysisError(f"{site}: no comparison of a step counter with `{B}` guards env.step (loop guard `{short(s.test, 60)}`{', ' + str(unread[:2]) if unread else ''}: unrecognised form)")
        kmin = min(k for _, _, k, _ in cands)
        best = [x for x in cands if x[2] == kmin]
        out = ("while", {x[0] for x in best}, best[0][1], kmin, best[0][3], B)
    elif isinstance(s, ast.For):
        a, b = _range_args(s.iter)
        if b is None:
            raise AnalysisError(f"{site}: the main loop iterates over `{short(s.iter, 60)}`, not over a range (unrecognised form)")
        body = cfg.loop_body_nodes(L.outer_header)
        # the range arguments are evaluated once, before the loop: names the loop redefines stand for their value on entry
        pre = {}
        for nm in {x.id for e in (a, b) if e is not None for x in ast.walk(e) if isinstance(x, ast.Name)} & carried:
            ds = [d for d in cfg.defs_of(hdr.id, nm) if d.node not in body and d.node != hdr.id]
            if len(ds) != 1:
                raise AnalysisError(f"{site}: `{nm}` in `{short(s.iter, 60)}` has {len(ds)} definitions before the loop (unrecognised form)")
            pre[nm] = nfq._def_value(ds[0], Scope(cfg, L.mi, {}, site), 0)
        pb = nfq.poly(b, sc, hdr.id).subst(pre)
        pa = nfq.poly(a, sc, hdr.id).subst(pre) if a is not None else Poly.const(0)
        PB = Poly.atom(B)
        start = Poly.atom(START) if START is not None else Poly.const(0)
        k = None
        if not _unread(pb) and not _unread(pa):
            for trips in (PB - pa, PB - start):             # `range(a, B)`, or as many iterations as the remaining budget
                kk = (pb - pa - trips).const_value()
                if kk is not None and kk.denominator == 1 and (k is None or abs(kk) < abs(k)):
                    k = int(kk)
        out = ("for", {hdr.id}, s.target.id if isinstance(s.target, ast.Name) else None, k, short(s.iter, 70), B)
    else:
        raise AnalysisError(f"{site}: unrecognised loop kind")
    L._budget_reading = out
    return out


def r2_budget(ck, repo, L):
    cfg, site, S = L.cfg, L.qual, L.step_node
    hdr = cfg.nodes[L.outer_header]
    s = hdr.ast
    where = loc(L.mi, s)
    kind, guards, cvar, k, text, B = _budget_reading(repo, L)
    if kind == "while":
        ok = k == 0
        if not ok and not _unit_counter(cfg, L, cvar, _role_param(L.fn, site, "global_step") or "global_step"):
            raise AnalysisError(f"{site}: env.step runs while `{text}`, and `{cvar}` is not a plain step counter (unrecognised form)")
        why = "" if ok else (f"env.step runs while `{text}`, i.e. while {cvar} < {B} + {k}: " + (f"{k} step(s) beyond the budget are executed (the budget guard must be strict)" if k > 0 else f"the run stops {-k} step(s) short of its budget"))
        ck.ob("R2-budget", site, "while-guard", ok, f"while {short(s.test)}" + (f" / {text}" if guards != {hdr.id} else ""), why, where)
    else:
        if k is None:
            raise AnalysisError(f"{site}: cannot relate the range `{text}` to the budget `{B}` (unrecognised form)")
        ck.ob("R2-budget", site, "for-range", k == 0, f"for {short(s.target)} in {text}", "" if k == 0 else f"the loop runs {B} - start {'+' if k > 0 else '-'} {abs(k)} times: the range bound is not the budget `{B}`", where)
    bnames = _derived(cfg, {B}, repo, L.mi)

    def trusted(path):
        # a witness through a test that involves the budget in a way this rule did not read is not evidence
        for x in path[1:-1]:
            nx = cfg.nodes[x]
            e = nx.ast.test if nx.kind == "test" and hasattr(nx.ast, "test") else nx.ast.iter if nx.kind == "for" else None
            if e is not None and x not in guards and {y.id for y in ast.walk(e) if isinstance(y, ast.Name)} & bnames:
                raise AnalysisError(f"{site}: whether the budget is re-checked before the next env.step depends on `{short(e, 50)}` (unrecognised form)")
        return path
    # one env.step per evaluation of the budget guard: no way from env.step back to env.step that does not pass the guard
    p = cfg.paths_avoiding(S, S, set(guards))
    if p is not None:
        trusted(p)
    ck.ob("R2-budget", site, "one-step-per-guard", p is None, "every way from env.step back to env.step passes the budget guard", "" if p is None else "env.step is repeated (inner loop) without re-checking the step budget", where,
          cfg.describe_path(p) if p else None)
    # no second env.step call between two evaluations of the guard
    second = None
    n_calls = 1
    for nid in sorted(cfg.loop_body_nodes(L.outer_header)):
        n = cfg.nodes[nid]
        if n.ast is None or nid == S:
            continue
        e = n.ast.test if n.kind == "test" and hasattr(n.ast, "test") else n.ast.iter if n.kind == "for" else n.ast if n.kind == "stmt" else None
        if e is None or not any(isinstance(c, ast.Call) and isinstance(c.func, ast.Attribute) and c.func.attr == "step" and dotted(c.func.value) == L.env for c in ast.walk(e)):
            continue
        n_calls += 1
        q = cfg.paths_avoiding(S, nid, set(guards)) or cfg.paths_avoiding(nid, S, set(guards))
        if q is None:
            raise AnalysisError(f"{site}: a second env.step call `{short(n.ast, 50)}` that is never executed together with the main one (unrecognised form)")
        second = second or trusted(q)
    ck.ob("R2-budget", site, "single-step-call", second is None, f"{n_calls} env.step call(s) per budget check", "" if second is None else "more than one env.step per budget check", where,
          cfg.describe_path(second) if second else None)


_LOGICAL = {"logical_or": "or", "logical_and": "and", "logical_not": "not", "bitwise_or": "or", "bitwise_and": "and"}


def _defs_after_step(cfg, S, at, name):
    """The definitions of ``name`` reaching ``at`` that a path from env.step can execute.  A definition that cannot follow env.step (the
    initial value given before the loop: `done = False`) is never the latest one on a path that comes from env.step, provided such a
    path passes another definition - which the callers require (the definition lies on every way from env.step to ``at``)."""
    ds = cfg.defs_of(at, name)
    if len(ds) > 1:
        ds = [d for d in ds if d.node == S or cfg.paths_avoiding(S, d.node, set(), feasible=False) is not None]
    return ds


def _row_value(L, e, at, a, b, depth=0):
    """Value of the boolean expression ``e`` at node ``at`` when the latest env.step returned (terminated, truncated) = (a, b); None when it
    is not a function of the two flags this reader understands.  Reads through value-transparent wrappers (bool(...), np.asarray(...)),
    `|` / `&` / np.logical_or / np.logical_and / np.logical_not and through flags computed since that step (`done = bool(term or trunc)`)."""
    cfg, S = L.cfg, L.step_node
    e = strip_wrappers(e)
    if isinstance(e, ast.Constant) and isinstance(e.value, bool):
        return e.value
    if isinstance(e, ast.UnaryOp) and isinstance(e.op, (ast.Not, ast.Invert)):
        v = _row_value(L, e.operand, at, a, b, depth)
        return None if v is None else not v
    parts = op = None
    if isinstance(e, ast.BoolOp):
        parts, op = e.values, "or" if isinstance(e.op, ast.Or) else "and"
    elif isinstance(e, ast.BinOp) and isinstance(e.op, (ast.BitOr, ast.BitAnd)):
        parts, op = [e.left, e.right], "or" if isinstance(e.op, ast.BitOr) else "and"
    elif isinstance(e, ast.Call) and dotted(e.func).split(".")[-1] in _LOGICAL and not e.keywords and 1 <= len(e.args) <= 2:
        op = _LOGICAL[dotted(e.func).split(".")[-1]]
        if op == "not":
            v = _row_value(L, e.args[0], at, a, b, depth)
            return None if v is None else not v
        parts = e.args
    if parts is not None:
        vals = [_row_value(L, x, at, a, b, depth) for x in parts]
        if op == "or":
            return True if any(v is True for v in vals) else False if all(v is False for v in vals) else None
        return False if any(v is False for v in vals) else True if all(v is True for v in vals) else None
    if isinstance(e, ast.Attribute) and isinstance(e.value, ast.Name) and getattr(L, "_repo", None) is not None:
        # field of an immutable record (NamedTuple / frozen dataclass) that was built from this step's results
        from ..loops import Origins
        ds = _defs_after_step(cfg, S, at, e.value.id)
        if len(ds) != 1 or ds[0].kind not in ("assign", "walrus", "unpack") or ds[0].node in (at, S) or cfg.paths_avoiding(S, at, {ds[0].node}, feasible=False) is not None:
            return None
        org = Origins(L)
        org.repo = L._repo
        o = org.of_expr(e, at)
        return a if o == {("step", 2)} else b if o == {("step", 3)} else None
    if isinstance(e, ast.Name) and depth < 4:
        ds = _defs_after_step(cfg, S, at, e.id)
        if len(ds) != 1:
            return None
        d = ds[0]
        if d.node == S:
            return a if d.kind == "unpack" and d.path == (2,) else b if d.kind == "unpack" and d.path == (3,) else None
        val = d.value if d.kind in ("assign", "walrus") else None
        if d.kind == "unpack" and isinstance(d.value, (ast.Tuple, ast.List)) and len(d.path) == 1 and isinstance(d.path[0], int) and d.path[0] < len(d.value.elts) \
                and not any(isinstance(x, ast.Starred) for x in d.value.elts):
            val = d.value.elts[d.path[0]]          # element-wise copy `a, b = (x, y)` (also what an expanded helper's return becomes)
        if val is None or d.node == at:
            return None
        # the flag must have been computed from this step's results: env.step -> its definition -> here, on every path
        if cfg.paths_avoiding(S, at, {d.node}, feasible=False) is not None:
            return None
        return _row_value(L, val, d.node, a, b, depth + 1)
    return None


def _row_facts(L, nid, a, b) -> dict:
    """Truth values, in the row (terminated, truncated) = (a, b), of the names a test reads that are flags computed from the two results."""
    n = L.cfg.nodes[nid]
    out = {}
    if n.kind == "test" and hasattr(n.ast, "test"):
        for x in ast.walk(n.ast.test):
            if isinstance(x, ast.Name) and x.id not in out and x.id not in (L.pos.get(2), L.pos.get(3)):
                v = _row_value(L, x, nid, a, b)
                if v is not None:
                    out[x.id] = v
    return out


def _done_test(cfg, L, repo=None):
    """The If node that is True exactly when the episode ended (three rows True, (F,F) False)."""
    tv, uv = L.pos.get(2), L.pos.get(3)
    out = []
    ROWS = ((True, False), (False, True), (True, True), (False, False))
    facts = {r_: (_row_at_node(L, repo, *r_) if repo is not None else (lambda nid_, r_=r_: _row_facts(L, nid_, *r_))) for r_ in ROWS}
    for nid in cfg.loop_body_nodes(L.outer_header):
        n = cfg.nodes[nid]
        if n.kind != "test" or not isinstance(n.ast, ast.If):
            continue
        rows = []
        for a, b in ROWS:
            v = cfg.eval3(n.ast.test, {tv: a, uv: b, **facts[(a, b)](nid)}, nid)
            rows.append(v if v is not None else _row_value(L, n.ast.test, nid, a, b))
        names = {x.id for x in ast.walk(n.ast.test) if isinstance(x, ast.Name)}
        flags = {tv, uv} | {x for x in names if _row_value(L, ast.Name(id=x, ctx=ast.Load()), nid, True, False) is not None}
        if facts[(True, False)](nid):
            flags |= names                 # the test reads a record field / flag that holds one of the two results
        if rows == [True, True, True, False]:
            out.append((nid, True))
        elif rows == [False, False, False, True]:
            out.append((nid, False))   # `if not done: ... continue`: the episode-end code is the False arm
        elif rows[2] is True and rows[3] is False and (flags & names or rows[0] is not None):
            out.append((nid, True))  # e.g. `if terminated:` - incomplete test, judged by R3; still the episode-end branch for counting
        elif rows[2] is False and rows[3] is True and (flags & names or rows[0] is not None):
            out.append((nid, False))
    return sorted(out)


def _executable_rows(L, repo, nodes_path, what: str):
    """A witness found by the path exploration (which keeps branches over the same condition correlated, nothing more) is evidence only if
    every stretch between two env.step calls can be executed with ONE value of (terminated, truncated), and no test on it that depends on
    the two results stayed open.  Raises AnalysisError otherwise."""
    cfg, S = L.cfg, L.step_node
    tv, uv = L.pos.get(2), L.pos.get(3)
    segs, cur = [], None
    for n1, n2 in zip(nodes_path, nodes_path[1:]):
        if n1 == S:
            cur = []
            segs.append(cur)
        if cur is not None:
            cur.append((n1, n2))
    for seg in segs:
        good = None
        for a, b in ((False, False), (True, False), (False, True), (True, True)):
            at_node = _row_at_node(L, repo, a, b)
            okrow = True
            for n1, n2 in seg:
                node = cfg.nodes[n1]
                if node.kind != "test" or not hasattr(node.ast, "test"):
                    continue
                labs = {lab for s_, lab in node.succ if s_ == n2}
                if len(labs) != 1 or next(iter(labs)) not in (True, False):
                    continue
                v = cfg.eval3(node.ast.test, {tv: a, uv: b, **at_node(n1)}, n1)
                if v is not None and v != next(iter(labs)):
                    okrow = False
                    break
            if okrow:
                good = (a, b)
                break
        if good is None:
            raise AnalysisError(f"{L.qual}: {what}: the only witness found takes branches that exclude each other for every (terminated, truncated) value (unrecognised form)")
        _trust_row_witness(L, repo, [n1 for n1, _ in seg], good[0], good[1], what)


def r2_episodes(ck, repo, L):
    cfg, site, fn = L.cfg, L.qual, L.fn
    E = _role_param(fn, site, "total_episodes")
    if E is None:
        return
    tv, uv = L.pos.get(2), L.pos.get(3)
    enames = _derived(cfg, {E}, repo, L.mi)
    tests = []
    for n in cfg.nodes:
        if n.kind == "test" and isinstance(n.ast, ast.If):
            # the comparisons the test is made of, named conditions expanded (`limit_reached = total_episodes is not None and ...; if limit_reached:`)
            exprs = [n.ast.test] + [e_ for lab in (True, False) for txt_, _ in cfg._lits(n.ast.test, lab, n.id) for e_ in [_parse(txt_)] if e_ is not None]
            seen_ = set()
            for e_ in exprs:
                for x in ast.walk(e_):
                    if isinstance(x, ast.Compare) and ast.dump(x) not in seen_ and any(isinstance(y, ast.Name) and y.id in enames for y in ast.walk(x)) and not any(isinstance(o, (ast.Is, ast.IsNot)) for o in x.ops):
                        seen_.add(ast.dump(x))
                        tests.append((n, x))
    nfq = NF(repo, inline_calls=False)
    state = _loop_state(cfg, L.outer_header)
    sc = Scope(cfg, L.mi, {}, site)
    sc.opaque_names = set(state)
    if not tests:
        # episode-budget idiom (CMA-ES): `for _ in range(total_episodes)` with one episode per outer iteration
        hdr = cfg.nodes[L.outer_header].ast
        a, b = _range_args(hdr.iter) if isinstance(hdr, ast.For) else (None, None)
        ck.need(b is not None and (a is None or (isinstance(a, ast.Constant) and a.value == 0)) and (nfq.poly(b, sc, L.outer_header) - Poly.atom(E)).is_zero(),
                f"{site}: `total_episodes` parameter but neither a comparison nor a range over it (anchor vanished)")
        ck.ob("R2-episodes", site, "for-range", True, f"for ... in {short(hdr.iter)}", "", loc(L.mi, hdr))
        for x, y in ((True, False), (False, True), (True, True)):
            p = cfg.paths_avoiding(L.step_node, L.step_node, {L.outer_header}, assume={tv: x, uv: y}, at_node=_row_at_node(L, repo, x, y))
            if p is not None:
                _trust_row_witness(L, repo, p, x, y, "whether an ended episode is continued in the same outer iteration")
            ck.ob("R2-episodes", site, f"one-episode-per-iteration:{x},{y}", p is None, f"terminated={x},truncated={y}: next env.step only in the next outer iteration",
                  "" if p is None else "an ended episode is continued inside the same outer iteration: more episodes than requested are run", loc(L.mi, L.step_stmt),
                  cfg.describe_path(p) if p else None)
        return
    done_nodes = _done_test(cfg, L, repo)
    ck.need(len(done_nodes) >= 1, f"{site}: cannot identify the episode-end test")
    exits = {}
    for n, cmp in tests:
        where = loc(L.mi, n.ast)
        # which arm of the test leaves the loop?  the comparison is read with the polarity it has on that arm (De Morgan / negated forms)
        leaves = {lab: cfg.paths_avoiding(n.id, L.step_node, set(), first_label=lab) is None for lab in (True, False)}
        if leaves[True] == leaves[False]:
            raise AnalysisError(f"{site}: cannot tell which arm of `{short(n.ast.test, 60)}` ends the run (unrecognised form)")
        exit_lab = True if leaves[True] else False
        exits[n.id] = exit_lab
        pol = None
        for txt_, truth_ in cfg._lits(n.ast.test, exit_lab, n.id):
            e_ = _parse(txt_)
            if e_ is not None and ast.dump(e_) == ast.dump(cmp):
                pol = truth_
        if pol is None:
            raise AnalysisError(f"{site}: the episode-limit comparison `{short(cmp)}` is not decided by the exit arm of `{short(n.ast.test, 60)}` (unrecognised form)")
        # semantic reading of the comparison on the exit arm (either orientation, `c + 1 > E`, `E - c <= 0`, aliases):
        #   the run ends iff  epi >= total_episodes + shift   (order comparison)   /   epi == total_episodes   (equality)
        if len(cmp.ops) != 1:
            raise AnalysisError(f"{site}: unrecognised episode-limit comparison `{short(cmp)}`")
        opn = type(cmp.ops[0]).__name__ if pol else _NEG.get(type(cmp.ops[0]).__name__)
        epi = shift = None
        reversed_ = False
        if opn in ("Lt", "LtE", "Gt", "GtE"):
            D = _gap(nfq, sc, cmp, pol, n.id)                 # exit  <=>  D > 0
            for c_ in sorted(a_ for a_ in D.atoms() if a_ in state) if not _unread(D) else []:
                k_ = _offset(D, c_, E)                          # D = c - E + k  :  exit <=> c >= E - k + 1
                if k_ is not None:
                    epi, shift = c_, 1 - k_
                k_ = _offset(D, E, c_)                          # D = E - c + k  :  exit <=> c < E + k   (the run ends while the limit is NOT reached)
                if k_ is not None:
                    epi, reversed_ = c_, True
        elif opn in ("Eq", "NotEq"):
            D = nfq.poly(cmp.left, sc, n.id) - nfq.poly(cmp.comparators[0], sc, n.id)
            for c_ in sorted(a_ for a_ in D.atoms() if a_ in state) if not _unread(D) else []:
                if _offset(D, c_, E) == 0 or _offset(D, E, c_) == 0:
                    epi, shift, reversed_ = c_, 0, opn == "NotEq"
        if epi is None:
            raise AnalysisError(f"{site}: unrecognised episode-limit comparison `{short(cmp)}`")
        ok = not reversed_
        ck.ob("R2-episodes", site, "comparison", ok, f"`{short(cmp)}` ({'holds' if pol else 'fails'} on the exit arm)",
              "" if ok else f"the run ends when `{short(cmp)}` {'holds' if pol else 'fails'}, i.e. while `{epi}` has NOT reached total_episodes: it stops at once or never", where)
        if not ok:
            continue
        # episode counter == finished episodes at the test
        events = {}
        for m in cfg.nodes:
            for d in m.defs:
                if d.name != epi or d.kind == "param":
                    continue
                s = m.ast
                if d.kind == "aug" and isinstance(s.op, ast.Add) and isinstance(s.value, ast.Constant) and isinstance(s.value.value, int):
                    events[m.id] = ("inc", s.value.value)
                elif d.kind == "assign" and isinstance(strip_wrappers(d.value), ast.Constant) and isinstance(strip_wrappers(d.value).value, int):
                    events[m.id] = ("set", strip_wrappers(d.value).value)
                elif d.kind == "assign" and _name_plus_const(d.value)[0] == epi:
                    events[m.id] = ("inc", _name_plus_const(d.value)[1])
                else:
                    raise AnalysisError(f"{site}: unrecognised definition of episode counter `{epi}`: {short(s)}")
        # one finished episode per step whose episode ended: counted at the first episode-end branch taken after the step; branches
        # over the same (or derived) conditions stay correlated along a path (`episode_over` tested twice)
        from ..cfg import _idents
        tracked = {tv, uv}
        for _ in range(4):
            for m in cfg.nodes:
                if m.kind == "stmt" and isinstance(m.ast, ast.Assign) and len(m.ast.targets) == 1 and isinstance(m.ast.targets[0], ast.Name):
                    vn = _value_names(m.ast.value)
                    if vn and vn <= tracked:                     # any function of the two results: bool(a or b), np.logical_or(a, b), a | b
                        tracked.add(m.ast.targets[0].id)
        done_set = set(done_nodes)

        def transfer(nid, succ, lab, st):
            d, lits, counted = st
            node = cfg.nodes[nid]
            if nid == L.step_node:
                counted, lits = False, frozenset()
            if node.kind == "test" and hasattr(node.ast, "test") and lab in (True, False):
                v = cfg.eval3(node.ast.test, dict(lits), nid)
                if v is not None and v != lab:
                    return None
                newl = [(k, vv) for k, vv in cfg._lits(node.ast.test, lab, nid) if _idents(k) <= tracked]
                if any((k, not vv) in lits for k, vv in newl):
                    return None
                lits = lits | frozenset(newl)
                if (nid, lab) in done_set and not counted:
                    d, counted = d + 1, True
            ev = events.get(nid)
            if ev:
                d = d - ev[1] if ev[0] == "inc" else -ev[1]
            lits = frozenset((k, vv) for k, vv in cfg.propagate(succ, lits) if _idents(k) <= tracked)
            return (d, lits, counted)

        # `set` happens before the loop with zero finished episodes, so d = -k there
        parent, problems = explore(cfg, (0, frozenset(), False), transfer, bound=lambda st_: -4 <= st_[0] <= 4)
        at_test = {}
        for key in parent:
            if key[0] == n.id:
                at_test.setdefault(key[1][0], key)
        vals = sorted(at_test)
        if not vals:
            raise AnalysisError(f"{site}: the episode-limit test `{short(cmp)}` is not reached by the path exploration (unrecognised form)")
        # at the test  epi = finished - d,  so the run ends iff  finished >= total_episodes + shift + d:  exactly the limit iff d == -shift
        ok2 = vals == [-shift] and not problems
        wit = None
        if not ok2:
            bad = problems[0][3] if problems else at_test[[v for v in vals if v != -shift][0]]
            nodes_ = [k[0] for k in path_to(parent, bad)]
            _executable_rows(L, repo, nodes_, f"whether `{epi}` counts the finished episodes")
            wit = _compress(cfg, nodes_)
        ck.ob("R2-episodes", site, "counter-equals-finished-episodes", ok2, f"`{epi}` at `{short(cmp)}`",
              "" if ok2 else f"finished episodes - {epi} at the test is {vals} (expected [{-shift}] for `{short(cmp)}`): the routine stops after the wrong number of episodes", where, wit)
        # the exit arm leaves the loop without another step
        p = cfg.paths_avoiding(n.id, L.step_node, set(), first_label=exit_lab)
        ck.ob("R2-episodes", site, "limit-exits-loop", p is None, f"{exit_lab} arm of `{short(n.ast.test)}`", "" if p is None else "env.step is still reachable after the episode limit was reached", where,
              cfg.describe_path(p) if p else None)
    # the limit is tested when an episode ends: after a step that ended the episode there is no way to the next step around the limit test(s)
    limit_nodes = set(exits)
    for n, cmp in tests[:1]:
        where = loc(L.mi, n.ast)
        p = None
        for a, b in ((True, False), (False, True)):
            p = cfg.paths_avoiding(L.step_node, L.step_node, limit_nodes, assume={tv: a, uv: b}, at_node=_row_at_node(L, repo, a, b))
            if p is not None:
                _trust_row_witness(L, repo, p, a, b, "whether the episode limit is tested after an episode ended")
                break
        ck.ob("R2-episodes", site, "tested-at-episode-end", p is None, f"`{short(cmp)}` between an episode end and the next env.step", "" if p is None else "episode limit is not tested when an episode ends", where,
              cfg.describe_path(p) if p else None)


# ---------------------------------------------------------------------------------------------------
def _done_assume(L, repo, a, b):
    """Assumptions for one (terminated, truncated) row: the two step results and every record field / copy that holds them."""
    from ..loops import Origins
    cfg = L.cfg
    tv, uv = L.pos.get(2), L.pos.get(3)
    out = {tv: a, uv: b}
    org = Origins(L)
    org.repo = repo
    for n in cfg.nodes:
        if n.kind != "test" or not hasattr(n.ast, "test"):
            continue
        for x in ast.walk(n.ast.test):
            if isinstance(x, ast.Attribute) and isinstance(x.value, ast.Name):
                o = org.of_expr(x, n.id)
                if o == {("step", 2)}:
                    out[ast.unparse(x)] = a
                elif o == {("step", 3)}:
                    out[ast.unparse(x)] = b
    return out


def _done_fields(L, repo):
    """test node -> {text of a record field read there: step position (2 / 3) it holds}."""
    from ..loops import Origins
    cfg = L.cfg
    org = Origins(L)
    org.repo = repo
    out = {}
    for n in cfg.nodes:
        if n.kind != "test" or not hasattr(n.ast, "test"):
            continue
        for x in ast.walk(n.ast.test):
            if isinstance(x, ast.Attribute) and isinstance(x.value, ast.Name):
                o = org.of_expr(x, n.id)
                if o in ({("step", 2)}, {("step", 3)}):
                    out.setdefault(n.id, {})[ast.unparse(x)] = next(iter(o))[1]
    return out


def _row_at_node(L, repo, a, b):
    """Facts that hold at a test in the row (terminated, truncated) = (a, b): record fields that hold the two results, flags computed from them."""
    fields = _done_fields(L, repo)

    def at_node(nid):
        out = {t_: (a if pos_ == 2 else b) for t_, pos_ in fields.get(nid, {}).items()}
        out.update(_row_facts(L, nid, a, b))
        return out
    return at_node


def _trust_row_witness(L, repo, path, a, b, what: str):
    """A witness path for a (terminated, truncated) row is evidence only if every test on it that depends on the two results was decided:
    a test that reads them through something this analysis cannot follow (an object's field, a helper's result, a converted value) and
    stayed open lets the search take both arms."""
    from ..loops import Origins
    cfg = L.cfg
    org = Origins(L)
    org.repo = repo
    acc = _done_assume(L, repo, a, b)
    a2 = frozenset(acc.items())          # the literals known along the path, maintained as the path search does
    for x_, nxt in zip(path, list(path[1:]) + [None]):
        nx = cfg.nodes[x_]
        if nx.kind == "test" and hasattr(nx.ast, "test"):
            here = dict(acc)
            here.update(dict(a2))
            here.update(_row_facts(L, x_, a, b))
            if cfg.eval3(nx.ast.test, here, x_) is None:
                if any(isinstance(y, ast.Attribute) and isinstance(y.value, ast.Name) and y.value.id not in param_names(L.fn) for y in ast.walk(nx.ast.test)):
                    raise AnalysisError(f"{L.qual}: {what} depends on `{short(nx.ast.test, 50)}` (state kept in an object: unrecognised form)")
                deps = org.deps(nx.ast.test, x_)
                if any(d_[0] == "step" and d_[1] in (2, 3) for d_ in deps) or any(d_[0] == "unknown" for d_ in deps):
                    # the open part may be another operand (`terminated and not info[...]`): the flags themselves decide nothing here
                    raise AnalysisError(f"{L.qual}: {what} depends on `{short(nx.ast.test, 50)}`, which reads the terminated / truncated results in a form this rule does not evaluate (unrecognised form)")
            labs = {lab for s_, lab in nx.succ if s_ == nxt}
            if len(labs) == 1 and next(iter(labs)) in (True, False):
                a2 = a2 | frozenset(cfg._lits(nx.ast.test, next(iter(labs)), x_))
        if nxt is not None:
            a2 = cfg.propagate(nxt, a2)


def r3_done_reset(ck, repo, L):
    cfg, site, S = L.cfg, L.qual, L.step_node
    tv, uv = L.pos.get(2), L.pos.get(3)
    ck.need(tv and uv, f"{site}: terminated/truncated results are discarded (unrecognised idiom)")
    for a, b in ((True, False), (False, True), (True, True)):
        p = cfg.paths_avoiding(S, S, set(L.resets_in), assume={tv: a, uv: b}, at_node=_row_at_node(L, repo, a, b))
        if p is not None:
            _trust_row_witness(L, repo, p, a, b, "whether an ended episode is stepped again")
        row = f"terminated={a},truncated={b}"
        ck.ob("R3-done-reset", site, row, p is None, f"{row}: step -> step without reset",
              "" if p is None else f"with {row} the loop steps the ended episode again without env.reset()", loc(L.mi, L.step_stmt),
              cfg.describe_path(p) if p else None)


# ---------------------------------------------------------------------------------------------------
def learners(repo, res: Resolver):
    """Functions that (transitively) perform a gradient-based parameter update."""
    g = res.call_graph()
    seeds = set()
    GRAD = ("flax.nnx.value_and_grad", "flax.nnx.grad", "jax.grad", "jax.value_and_grad")

    def grad_transform(r, depth=0):
        """``r`` names a gradient transformation, or a module-level name of the package that is bound to the result of one (the
        transformed function built once at import time instead of at every call: calling it computes the same gradient)."""
        if r in GRAD:
            return True
        if r is None or depth > 3 or r.split(".")[0] != repo.PKG or not repo.has(r):
            return False
        try:
            mi2, node = repo.lookup(r)
        except Exception:
            return False
        v = node.value if isinstance(node, (ast.Assign, ast.AnnAssign)) else None
        if isinstance(v, (ast.Name, ast.Attribute)):
            return grad_transform(repo.resolve_expr(mi2, v), depth + 1)           # a second name for it
        if isinstance(v, ast.Call) and isinstance(v.func, (ast.Name, ast.Attribute)):
            return grad_transform(repo.resolve_expr(mi2, v.func), depth + 1)
        return False
    for qual, fn, mi in repo.all_functions():
        has_grad = has_upd = False
        for n in ast.walk(fn):
            if isinstance(n, ast.Call):
                r = repo.resolve_expr(mi, n.func) if isinstance(n.func, (ast.Name, ast.Attribute)) else None
                if grad_transform(r):
                    has_grad = True
                if isinstance(n.func, ast.Attribute) and n.func.attr == "update" and len(n.args) + len([k for k in n.keywords if k.arg is not None]) == 2:       # optimizer.update(model, grads), by position or keyword
                    has_upd = True
        if has_grad and has_upd:
            seeds.add(qual)
    out = set(seeds)
    import networkx as nx
    for s in seeds:
        if s in g:
            out |= {a for a in nx.ancestors(g, s)}
    return seeds, out


def _warm_reader(repo, L, cvar: str, W: str):
    """Reader of comparisons between the step counter and the warm-up threshold W (semantic: aliases, int(...), either orientation,
    `c - W >= 0`, `c + 1 > W`).  Returns (value, wnames): value(cmp, at) is the truth value of the comparison during warm-up
    (counter < W), "open" when it was read and both values occur during warm-up (`c + 5 >= W`), "free" when the comparison does not
    involve the threshold, None when it involves the threshold in a form this rule does not read."""
    cfg = L.cfg
    nfq = NF(repo, inline_calls=False)
    sc = Scope(cfg, L.mi, {}, L.qual)
    state = _loop_state(cfg, L.outer_header)
    sc.opaque_names = set(state)
    wnames = _derived(cfg, {W}, repo, L.mi)

    def value(x, at):
        if not {y.id for y in ast.walk(x) if isinstance(y, ast.Name)} & wnames:
            return "free"
        if not (isinstance(x, ast.Compare) and len(x.ops) == 1) or not _fresh(cfg, L.outer_header, x, at, state):
            return None
        opn = type(x.ops[0]).__name__
        if opn in ("Lt", "LtE", "Gt", "GtE"):
            D = _gap(nfq, sc, x, True, at)            # x  <=>  D > 0
            if _unread(D):
                return None
            k = _offset(D, cvar, W)                     # D = c - W + k <= k - 1 during warm-up
            if k is not None:
                return False if k <= 1 else "open"
            k = _offset(D, W, cvar)                     # D = W - c + k >= k + 1 during warm-up
            if k is not None:
                return True if k >= 0 else "open"
            return None
        if opn in ("Eq", "NotEq"):
            E = nfq.poly(x.left, sc, at) - nfq.poly(x.comparators[0], sc, at)
            if _unread(E):
                return None
            for k in (_offset(E, cvar, W), None if _offset(Poly({}) - E, cvar, W) is None else -_offset(Poly({}) - E, cvar, W)):
                if k is not None:                       # x (Eq)  <=>  c == W - k
                    eq = "open" if k >= 1 else False
                    return eq if opn == "Eq" else ("open" if eq == "open" else True)
            return None
        return None
    return value, wnames


def r4_warmup(ck, repo, L, res, learn_set):
    cfg, site, fn = L.cfg, L.qual, L.fn
    W = _role_param(fn, site, "learning_starts")
    if W is None:
        ck.note(f"{site}: no documented warm-up parameter - no R4 obligation")
        return
    # the step counter: the variable the budget guard compares with the budget / the target of the range over the budget
    cvar = _budget_reading(repo, L)[2]
    ck.need(cvar is not None, f"{site}: cannot identify the step counter of the main loop")
    value, wnames = _warm_reader(repo, L, cvar, W)
    body = cfg.loop_body_nodes(L.outer_header)
    # truth values of the comparisons with the threshold while counter < learning_starts
    warm, unread, read_open = {}, set(), set()
    for m_ in cfg.nodes:
        if m_.id not in body or m_.ast is None:
            continue
        e_ = m_.ast.test if m_.kind == "test" and hasattr(m_.ast, "test") else m_.ast.iter if m_.kind == "for" else m_.ast if m_.kind == "stmt" else None
        if e_ is None:
            continue
        for x in ast.walk(e_):
            if isinstance(x, ast.Compare):
                v_ = value(x, m_.id)
                if v_ in (True, False):
                    warm[ast.unparse(x)] = v_
                elif v_ == "open":
                    read_open.add(ast.unparse(x))
                elif v_ is None:
                    unread.add(ast.unparse(x))
    calls = []
    for nid in sorted(body):
        n = cfg.nodes[nid]
        if n.ast is None or n.kind not in ("stmt",):
            continue
        for c in ast.walk(n.ast):
            if not isinstance(c, ast.Call):
                continue
            t = res.resolve(c.func, L.mi, cfg, nid)
            q = t.qual if t else None
            if q is None and isinstance(c.func, ast.Attribute) and c.func.attr == "update" and isinstance(c.func.value, ast.Name) and c.func.value.id == "entropy_control":
                q = "rl_blox.algorithm.sac.EntropyControl.update"
            if q and (q in learn_set):
                calls.append((nid, c, q))
    ck.need(calls, f"{site}: no learning call found in the loop (unrecognised idiom)")

    def excluded(lits):
        """One of the literals cannot hold during warm-up."""
        return any(txt in warm and warm[txt] != truth for txt, truth in lits)

    for nid, c, q in calls:
        ok = False
        for b, lab in cfg.control_deps(nid):
            bn = cfg.nodes[b]
            if bn.kind == "test" and isinstance(bn.ast, ast.If) and excluded(cfg._lits(bn.ast.test, lab, b)):
                ok = True
        p_ = None
        if not ok:
            # path reading: during warm-up (counter < learning_starts) the call must not be reachable from the loop header
            p_ = cfg.paths_avoiding(L.outer_header, nid, {L.outer_header}, assume=warm, first_label=True)
            if p_ is None:
                ok = True
        wit = None
        if not ok:
            tg = _trip_gate(cfg, nid, L.outer_header, excluded, wnames)
            if tg is True:
                ok = True
            elif tg is None:
                raise AnalysisError(f"{site}: the number of updates per step `{short(c, 40)}` runs under is computed in a way this rule does not read (cannot decide the warm-up gate)")
            else:
                # a witness path during warm-up is evidence when no test on it involves the threshold in a form that was not read (a test
                # that stays open because of its other operands - `c >= W or len(buffer) > n` - is a way around the gate)
                for a_ in p_[:-1]:
                    na = cfg.nodes[a_]
                    e_ = na.ast.test if na.kind == "test" and hasattr(na.ast, "test") else na.ast.iter if na.kind == "for" else None
                    if e_ is None or (na.kind == "test" and cfg.eval3(e_, dict(warm), a_) is not None):
                        continue
                    read = {id(y) for x in ast.walk(e_) if isinstance(x, ast.Compare) and (ast.unparse(x) in warm or ast.unparse(x) in read_open) for y in ast.walk(x)}
                    loose = [y.id for y in ast.walk(e_) if isinstance(y, ast.Name) and y.id in wnames and id(y) not in read]
                    if loose:
                        raise AnalysisError(f"{site}: whether `{short(c, 40)}` runs during warm-up depends on `{short(e_, 50)}` (cannot decide the warm-up gate)")
                wit = cfg.describe_path(p_)
        ck.ob("R4-warmup", site, f"gate:{q.rsplit('.', 1)[1]}", ok, f"`{short(c, 60)}`",
              "" if ok else f"learning call is reachable while `{cvar} < {W}` although `{W}` is documented as the warm-up: updates start too early",
              loc(L.mi, c), wit)


def _trip_gate(cfg, nid, outer, excluded, wnames):
    """Warm-up through the number of updates: the call sits in `for _ in range(N)` and N is 0 unless counter >= learning_starts.
    True: gated; False: the trip counts of the inner loops do not involve the warm-up threshold; None: they do, in a form that is not read."""
    verdict = False
    for h in cfg.enclosing_loops(nid):
        if h == outer:
            break
        hn = cfg.nodes[h]
        if hn.kind != "for":
            if hn.kind == "test" and {x.id for x in ast.walk(hn.ast.test) if isinstance(x, ast.Name)} & wnames:
                verdict = None
            continue
        it = hn.ast.iter
        a_, b_ = _range_args(it)
        if not (a_ is None and isinstance(b_, ast.Name)):
            if {x.id for x in ast.walk(it) if isinstance(x, ast.Name)} & wnames:
                verdict = None
            continue
        defs = cfg.defs_of(h, b_.id)
        if not defs or any(d.kind == "param" for d in defs):
            continue
        all_ok = True
        for d in defs:
            v = d.value if d.kind == "assign" else None
            if isinstance(v, ast.Constant) and v.value == 0:
                continue
            if isinstance(v, ast.IfExp):
                zero_else = isinstance(v.orelse, ast.Constant) and v.orelse.value == 0
                zero_body = isinstance(v.body, ast.Constant) and v.body.value == 0
                lits_t = cfg._lits(v.test, True, d.node) if zero_else else cfg._lits(v.test, False, d.node) if zero_body else []
                if excluded(lits_t):
                    continue
            # a non-zero definition under a warm-up branch
            lits = [(t_, tr_) for b, lab in cfg.control_deps(d.node) if cfg.nodes[b].kind == "test" and isinstance(cfg.nodes[b].ast, ast.If) for t_, tr_ in cfg._lits(cfg.nodes[b].ast.test, lab, b)]
            if excluded(lits):
                continue
            all_ok = False
            if v is not None and not isinstance(v, (ast.Name, ast.Constant, ast.Attribute)):
                verdict = None
            if isinstance(v, ast.AST) and {x.id for x in ast.walk(v) if isinstance(x, ast.Name)} & wnames:
                verdict = None
        if all_ok:
            return True
    return verdict


# ---------------------------------------------------------------------------------------------------
FLAG = "self.waiting_for_reward"


def _flag_value(e, flag_val):
    """Truth value of a test over the protocol flag when the flag is ``flag_val`` (None: the test is not a function of the flag alone)."""
    if isinstance(e, ast.Constant) and isinstance(e.value, bool):
        return e.value
    if dotted(e) == FLAG:
        return flag_val
    if isinstance(e, ast.Call) and dotted(e.func) == "bool" and len(e.args) == 1 and not e.keywords:
        return _flag_value(e.args[0], flag_val)
    if isinstance(e, ast.UnaryOp) and isinstance(e.op, ast.Not):
        v = _flag_value(e.operand, flag_val)
        return None if v is None else not v
    if isinstance(e, ast.BoolOp):
        vals = [_flag_value(x, flag_val) for x in e.values]
        if isinstance(e.op, ast.Or):
            return True if any(v is True for v in vals) else False if all(v is False for v in vals) else None
        return False if any(v is False for v in vals) else True if all(v is True for v in vals) else None
    if isinstance(e, ast.Compare) and len(e.ops) == 1 and isinstance(e.ops[0], (ast.Is, ast.IsNot, ast.Eq, ast.NotEq)):
        l, r = _flag_value(e.left, flag_val), _flag_value(e.comparators[0], flag_val)
        if l is not None and r is not None and (isinstance(e.left, ast.Constant) or isinstance(e.comparators[0], ast.Constant)):
            return (l == r) if isinstance(e.ops[0], (ast.Is, ast.Eq)) else (l != r)
    return None


def _mentions_flag(e) -> bool:
    return any(isinstance(x, ast.Attribute) and x.attr == FLAG.split(".")[1] for x in ast.walk(e))


def _protocol_flag(ck, repo, base: str, meth: str, before: bool, after: bool):
    """The base method refuses to run unless the flag is ``before`` (assert / `if ...: raise`, any spelling of the test) and leaves it ``after``
    on every path.  Decided by path search: with the flag at the wrong value no path reaches a write of the flag or the exit; every path
    to the exit passes a write of ``after`` and no later write of anything else."""
    m = repo.method(base, meth)
    ck.need(m is not None, f"{base}.{meth} not found")
    fn = m[1]
    mi = fn._module
    cfg = CFG(fn)
    site = f"{base}.{meth}"

    def self_call_touching_flag(n):
        for c in ast.walk(n.ast) if n.ast is not None and n.kind == "stmt" else []:
            if isinstance(c, ast.Call) and isinstance(c.func, ast.Attribute) and isinstance(c.func.value, ast.Name) and c.func.value.id == "self":
                r = repo.method(base, c.func.attr)
                if r is None or _mentions_flag(r[1]):
                    return True
        return False
    writes, blockers, unread = {}, set(), []
    for n in cfg.nodes:
        if n.ast is None:
            continue
        if n.kind == "stmt" and isinstance(n.ast, (ast.Assign, ast.AnnAssign, ast.AugAssign)):
            tgts = n.ast.targets if isinstance(n.ast, ast.Assign) else [n.ast.target]
            if any(dotted(t) == FLAG for t in tgts):
                writes[n.id] = n.ast.value if not isinstance(n.ast, ast.AugAssign) else None
            elif any(_mentions_flag(t) for t in tgts):
                unread.append(short(n.ast, 50))
        elif n.kind == "stmt" and isinstance(n.ast, ast.Assert):
            v = _flag_value(n.ast.test, not before)
            if v is False:
                blockers.add(n.id)                       # the assertion fails when the flag has the wrong value
            elif v is None and _mentions_flag(n.ast.test):
                unread.append(short(n.ast.test, 50))
        elif n.kind == "stmt" and self_call_touching_flag(n):
            unread.append(short(n.ast, 50))
        elif n.kind == "test" and hasattr(n.ast, "test") and _mentions_flag(n.ast.test) and _flag_value(n.ast.test, True) is None:
            unread.append(short(n.ast.test, 50))
    if unread:
        raise AnalysisError(f"{site}: the protocol flag is handled through {unread[:2]} (unrecognised form)")
    txt = FLAG

    def facts(v):
        # truth of every test over the flag when the flag is v (`if self.waiting_for_reward: raise ...`)
        out = {}
        for n in cfg.nodes:
            if n.kind == "test" and hasattr(n.ast, "test"):
                for x in ast.walk(n.ast.test):
                    if isinstance(x, ast.expr) and _mentions_flag(x):
                        fv = _flag_value(x, v)
                        if fv is not None:
                            out[ast.unparse(x)] = fv
        out[txt] = v
        return out
    # (1) refused with the wrong flag value: no way from the entry to a write of the flag or to the exit that is not stopped
    p = None
    for dst in sorted(writes) + [cfg.exit]:
        p = p or cfg.paths_avoiding(cfg.entry, dst, blockers | set(writes), assume=facts(not before))
    ok1 = p is None
    # (2) leaves the flag at `after`: values written (`not flag` after the check is `not before`)
    val = {}
    for nid, v in writes.items():
        fv = _flag_value(v, before) if v is not None else None
        if fv is None:
            raise AnalysisError(f"{site}: the protocol flag is set to `{short(v, 40) if v is not None else '?'}` (unrecognised form)")
        val[nid] = fv
    good = {nid for nid, v in val.items() if v is after}
    q = cfg.paths_avoiding(cfg.entry, cfg.exit, good, assume=facts(before))
    if q is None:
        for nid in sorted(set(val) - good):
            q = q or (cfg.paths_avoiding(nid, cfg.exit, good) and [nid])
    ok2 = q is None
    want = f"refuses unless {FLAG} is {before}; leaves it {after}"
    ck.ob("R5-scheduler", site, "protocol-flag", ok1 and ok2, want,
          "" if ok1 and ok2 else ("the select/feedback alternation is not enforced: the method runs although the flag says the other call is due" if not ok1 else f"the select/feedback alternation flag is not left at {after} on every path"),
          loc(mi, fn), cfg.describe_path(p if not ok1 else q) if not (ok1 and ok2) else None)


def _tasks_element(nfs, p: Poly):
    """True: the value is an element of self.tasks; False: it is index arithmetic (mod / len / counters), not an element; None: cannot tell."""
    a = p.single_atom()
    m = nfs.meta.get(a or "", {})
    if a is not None and m.get("fn") == "subscript" and m.get("args") and m["args"][0].canon() == "self.tasks":
        return True
    if _unread(p):
        return None
    import re
    txt = p.canon()
    attrs = set(re.findall(r"self\.([A-Za-z_][A-Za-z_0-9]*)", txt))
    tokens = set(re.findall(r"[A-Za-z_][A-Za-z_0-9]*", txt))
    arithmetic = a is None or a.startswith(("mod(", "floordiv(", "len("))
    if arithmetic and "self.tasks[" not in txt and tokens <= {"mod", "floordiv", "len", "self"} | attrs:
        return False          # a number computed from counters / lengths of the object's own state: an index, not the task stored under it
    return None


def r5_selectors(ck, repo):
    base = "rl_blox.blox.multitask.TaskSelector"
    subs = repo.subclasses(base)
    ck.floor("selector-subclasses", len(subs), 2)
    seen = set()
    for cq in subs:
        mro = repo.mro(cq)
        for meth in ("select", "feedback"):
            m = repo.method(cq, meth)                # through inheritance: a method that moved to a mixin / intermediate base is still the selector's
            if m is None or m[0] == base or (m[0], meth) in seen:
                continue
            seen.add((m[0], meth))
            owner, fn = m
            mi = repo.cls(owner)._module
            fn._module = mi
            cfg = CFG(fn)
            site = f"{owner}.{meth}"
            sup = set()
            for n in cfg.nodes:
                if n.ast is None or n.kind != "stmt":
                    continue
                for x in ast.walk(n.ast):
                    if not (isinstance(x, ast.Call) and isinstance(x.func, ast.Attribute) and x.func.attr == meth):
                        continue
                    recv = x.func.value
                    if isinstance(recv, ast.Call) and dotted(recv.func) == "super":
                        sup.add(n.id)
                    elif isinstance(recv, (ast.Name, ast.Attribute)) and x.args and isinstance(x.args[0], ast.Name) and x.args[0].id == "self":
                        r = repo.resolve_expr(mi, recv)          # explicit `Base.select(self)`
                        if r in mro and r != owner:
                            sup.add(n.id)
            p = cfg.paths_avoiding(cfg.entry, cfg.exit, sup)
            if p is not None:
                # a path that handles the protocol in another way (the flag itself, a method of the object that does) is not evidence
                for x_ in p:
                    nx = cfg.nodes[x_]
                    if nx.ast is None or nx.kind not in ("stmt", "test"):
                        continue
                    e_ = nx.ast.test if nx.kind == "test" and hasattr(nx.ast, "test") else nx.ast
                    if _mentions_flag(e_):
                        raise AnalysisError(f"{site}: handles the protocol flag itself (`{short(e_, 50)}`: unrecognised form)")
                    for c in ast.walk(e_):
                        if isinstance(c, ast.Call) and isinstance(c.func, ast.Attribute) and isinstance(c.func.value, ast.Name) and c.func.value.id == "self":
                            r = repo.method(cq, c.func.attr)
                            if r is None or _mentions_flag(r[1]) or any(isinstance(y, ast.Call) and isinstance(y.func, ast.Attribute) and y.func.attr == meth for y in ast.walk(r[1])):
                                raise AnalysisError(f"{site}: the base protocol may be reached through `{short(c, 50)}` (unrecognised form)")
            ck.ob("R5-scheduler", site, "calls-base-protocol", p is None, f"super().{meth}() on every path",
                  "" if p is None else f"a path through {meth}() skips the base-class protocol flag (select/feedback alternation is no longer enforced)", loc(mi, fn),
                  cfg.describe_path(p) if p else None)
            if meth == "select":
                nfs = NF(repo, inline_calls=False)
                sc = Scope(cfg, mi, {}, site)
                for n in cfg.nodes:
                    if isinstance(n.ast, ast.Return) and n.kind == "stmt":
                        v = n.ast.value
                        got = nfs.poly(v, sc, n.id) if v is not None else None
                        ok = _tasks_element(nfs, got) if got is not None else False
                        if ok is None:
                            raise AnalysisError(f"{site}: returns `{got.canon()[:80]}` (unrecognised form)")
                        ck.ob("R5-scheduler", site, "returns-valid-task", ok, f"return {short(v) if v is not None else None}",
                              "" if ok else "select() does not return an element of self.tasks", loc(mi, n.ast))
    # base protocol itself
    for meth, flag_before, flag_after in (("select", False, True), ("feedback", True, False)):
        _protocol_flag(ck, repo, base, meth, flag_before, flag_after)


def r5_ducb(ck, repo, nf: NF):
    """choose_arm: per path the recorded arm is the round-robin arm iff len(rewards) < 2*n_arms and the arg-max of (discounted mean +
    padding) otherwise (selector truth table over path evaluation: arm order, guard clauses and helper structure do not matter)."""
    from ..sympath import enumerate_paths, PathEval
    from ..sem import selector_table
    q = "rl_blox.blox.mapb.DUCB.choose_arm"
    fn = repo.func(q)
    mi = fn._module
    cfg = nf.cfg_of(fn)
    nfp = NF(repo, inline_depth=1, inline_calls=False)
    rets = [n for n in cfg.nodes if n.kind == "stmt" and isinstance(n.ast, ast.Return)]
    stops = {r.id for r in rets} or {cfg.exit}
    items, kinds, unrecorded = [], {}, 0
    want_init = "mod(len(self.rewards), self.n_arms)"
    helper_names = {"_discounted_empirical_mean", "_padding_function"}
    want_ucb_tokens = helper_names | {"argmax", "self", "n_arms", "range", "iter", "array", "asarray", "list", "float"}
    # other ways of writing to the history than `self.chosen_arms.append(arm)` (rebinding, insert, a method of the object): not read here
    other_recording = [short(n.ast, 50) for n in cfg.nodes if n.kind == "stmt" and n.ast is not None and (
        (isinstance(n.ast, (ast.Assign, ast.AugAssign, ast.AnnAssign)) and any(dotted(t) == "self.chosen_arms" or (isinstance(t, ast.Subscript) and dotted(t.value) == "self.chosen_arms") for t in (n.ast.targets if isinstance(n.ast, ast.Assign) else [n.ast.target])))
        or any(isinstance(c, ast.Call) and isinstance(c.func, ast.Attribute) and ((dotted(c.func.value) == "self.chosen_arms" and c.func.attr != "append")
               or (dotted(c.func.value) == "self" and (lambda r: r is None or "chosen_arms" in ast.unparse(r[1]))(repo.method("rl_blox.blox.mapb.DUCB", c.func.attr)) and c.func.attr not in helper_names)) for c in ast.walk(n.ast)))]
    for pth in enumerate_paths(cfg, cfg.entry, stops, max_paths=2000):
        # paths that skip a loop over the arms entirely (zero arms) are not behaviours of a bandit with n_arms >= 1
        if any(cfg.nodes[nid].kind == "for" and lab is False and not any(n2 == nid and l2 is True for n2, l2 in pth) for nid, lab in pth):
            continue
        pe = PathEval(nfp, cfg, mi, q, {}).run(pth[:-1])
        rec_polys = [v for _, k, v in pe.appended if k == "self.chosen_arms"]
        rec = [v.canon() for v in rec_polys]
        last = cfg.nodes[pth[-1][0]]
        rv = pe.ev(last.ast.value).canon() if last.kind == "stmt" and isinstance(last.ast, ast.Return) and last.ast.value is not None else None
        if not rec and other_recording:
            raise AnalysisError(f"{q}: the history of chosen arms is updated through `{other_recording[0]}` (unrecognised form)")
        if len(rec) == 1 and rv is not None and rv != rec[0] and (_unread(rv, True) or _unread(rec[0], True)):
            raise AnalysisError(f"{q}: returned arm `{rv[:60]}` / recorded arm `{rec[0][:60]}` could not be read (unrecognised form)")
        if len(rec) != 1 or (rv is not None and rv != rec[0]):
            unrecorded += 1
            continue
        a = rec[0]
        ap = rec_polys[0]
        if _unread(a, opaque_ok=True):
            raise AnalysisError(f"{q}: chosen arm `{a[:90]}` could not be read (unrecognised form)")
        am = nfp.meta.get(ap.single_atom() or "", {})
        afn = am.get("fn", "").split(".")[-1]
        if a == want_init:
            kind = "init"
        elif afn == "argmax" and helper_names <= _free_tokens(a):
            kind = "ucb"
            kinds.setdefault("ucb", set()).add(a)
        elif afn in ("argmax", "argmin") and _free_tokens(a) <= want_ucb_tokens | {"argmin"}:
            kind = "other:" + a[:60]          # built from the documented ingredients only, combined differently (argmin, a missing term)
        elif _free_tokens(a) <= _tokens(want_init):
            kind = "other:" + a[:60]          # another function of len(rewards) and n_arms
        else:
            raise AnalysisError(f"{q}: chosen arm `{a[:90]}` is neither the round-robin arm nor argmax(mean + padding) in a form this check reads")
        conds = [(cfg.nodes[nid].ast.test, nid, lab) for nid, lab in pth[:-1] if cfg.nodes[nid].kind == "test" and lab in (True, False) and isinstance(cfg.nodes[nid].ast, ast.If) and "verbose" not in ast.unparse(cfg.nodes[nid].ast.test)]
        items.append((conds, kind))
    ck.ob("R5-scheduler", q, "records-choice", unrecorded == 0, "the returned arm is appended to chosen_arms on every path", "" if unrecorded == 0 else "a path returns an arm without recording it (or records another one)", loc(mi, fn))
    bad = sorted({k for _, k in items if k.startswith("other:")})
    bad_rr = [b for b in bad if not b.startswith(("other:argmax(", "other:argmin("))]
    ck.ob("R5-scheduler", q, "round-robin-arm", not bad_rr, f"initial arm = {want_init}", "" if not bad_rr else f"initial rounds do not play every arm in turn (expected {want_init}); got {bad_rr[:1]}", loc(mi, fn))
    bad_arg = [b for b in bad if b.startswith(("other:argmax(", "other:argmin("))]
    if "ucb" not in kinds and not bad_arg:
        raise AnalysisError(f"{q}: no path records an arg-max over the arms (unrecognised form)")
    okucb = "ucb" in kinds and not bad_arg
    if okucb:
        # the sum must be mean + padding (not a difference): the argmax argument has two positive terms
        u = sorted(kinds["ucb"])[0]
        inner = nfp.meta.get(u, {}).get("args", [None])[0]
        def _coef(name):
            cs = [c for m_, c in inner.terms.items() if any(name in a_ for a_, _ in m_)]
            return cs
        if inner is None or _unread(inner, opaque_ok=True):
            raise AnalysisError(f"{q}: the argument of the arg-max `{u[:90]}` could not be read (unrecognised form)")
        okucb = _coef("_discounted_empirical_mean") == [1] and _coef("_padding_function") == [1] \
            and all(any(n_ in a_ for a_, _ in m_ for n_ in ("_discounted_empirical_mean", "_padding_function")) or all(a_ == "()" for a_, _ in m_) for m_ in inner.terms)
        if not okucb and not _free_tokens(inner.canon()) <= want_ucb_tokens:
            raise AnalysisError(f"{q}: the argument of the arg-max `{inner.canon()[:90]}` is not built from the discounted mean and the padding alone (unrecognised form)")
    ck.ob("R5-scheduler", q, "ucb-argmax", okucb, f"arm = {sorted(kinds.get('ucb', ['?']))[0][:100]}", "" if okucb else "after the initial rounds the arm is not argmax(discounted mean + padding)", loc(mi, fn))
    items2 = [(c, k if not k.startswith("other:") else "ucb") for c, k in items]
    pred = parse_expr("len(self.rewards) < 2 * self.n_arms")
    first_test = next((nid for conds_, _ in items2 for _, nid, _ in conds_), None)
    ck.need(first_test is not None, f"{q}: no branch between initial rounds and index policy (unrecognised idiom)")
    verdict, info = selector_table(nfp, mi, cfg, items2, pred, "init", "ucb", pred_at=first_test)
    if verdict is None:
        # a threshold test on the same quantity with another (polynomially different) threshold is a definite deviation.  Every order
        # comparison with len(rewards) is brought to the integer boundary T of  `len(rewards) < T`  (so `<= T - 1`, `T > len`, `not len >= T`
        # are the same test)
        thr = []
        want_T = nfp.poly(parse_expr("2 * self.n_arms"), Scope(cfg, mi, {}, q), first_test)
        items3, rewritten = [], False
        for conds_, k_ in items2:
            conds3 = []
            for t_, nid_, taken_ in conds_:
                sc_ = Scope(cfg, mi, {}, q)
                D_ = _gap(nfp, sc_, t_, True, nid_)
                repl = (t_, nid_, taken_)
                if D_ is not None and not _unread(D_):
                    n_ = nfp.poly(parse_expr("len(self.rewards)"), sc_, nid_)
                    for T_, same_sense in ((D_ + n_, True), (n_ - D_ + Poly.const(1), False)):            # D = T - len   /   D = len - T + 1
                        if n_.single_atom() not in T_.atoms() and T_.atoms() <= {"self.n_arms"}:
                            if T_ not in thr:
                                thr.append(T_)
                            if (T_ - want_T).is_zero():
                                repl, rewritten = (pred, nid_, taken_ if same_sense else not taken_), True    # the documented test, spelled differently
                conds3.append(repl)
            items3.append((conds3, k_))
        if rewritten:
            verdict, info = selector_table(nfp, mi, cfg, items3, pred, "init", "ucb", pred_at=first_test)
        if verdict is None:
            if thr and not any((T_ - want_T).is_zero() for T_ in thr):
                verdict, info = False, f"threshold {sorted(T_.canon() for T_ in thr)} instead of 2*self.n_arms"
            else:
                raise AnalysisError(f"{q}: initial-rounds test not comparable with len(rewards) < 2*n_arms: {info}")
    ck.ob("R5-scheduler", q, "initial-rounds-guard", verdict, "round-robin iff len(self.rewards) < 2*self.n_arms (truth table over the branch conditions)", "" if verdict else f"every arm must be played twice before the index policy takes over: round-robin exactly while len(rewards) < 2*n_arms; differs in the world {info}", loc(mi, fn))
    # reward(): append then refresh frequencies
    C = "rl_blox.blox.mapb.DUCB"
    rq = C + ".reward"
    rf = repo.func(rq)
    rcfg = nf.cfg_of(rf)
    FREQ = "discounted_frequencies"

    def writes_freq(fn_, depth=0):
        """The method (or a method of the object it calls) stores into the discounted frequencies (directly or through a local alias)."""
        alias = {t.id for x in ast.walk(fn_) if isinstance(x, ast.Assign) and dotted(x.value) == "self." + FREQ for t in x.targets if isinstance(t, ast.Name)}

        def is_freq(b):
            return dotted(b) == "self." + FREQ or (isinstance(b, ast.Name) and b.id in alias)
        for x in ast.walk(fn_):
            if isinstance(x, (ast.Assign, ast.AugAssign, ast.AnnAssign)):
                for t in (x.targets if isinstance(x, ast.Assign) else [x.target]):
                    b = t
                    while isinstance(b, ast.Subscript):
                        b = b.value
                    if is_freq(b) and not (isinstance(t, ast.Name)):
                        return True
            if isinstance(x, ast.Call) and isinstance(x.func, ast.Attribute) and is_freq(x.func.value) and x.func.attr in ("fill", "put", "__setitem__", "itemset"):
                return True
            if isinstance(x, ast.Call) and isinstance(x.func, ast.Attribute) and dotted(x.func.value) == "self" and depth < 3:
                r = repo.method(C, x.func.attr)
                if r is not None and r[1] is not fn_ and writes_freq(r[1], depth + 1):
                    return True
        return False

    def mentions_freq(fn_, depth=0):
        if any(isinstance(x, ast.Attribute) and x.attr == FREQ for x in ast.walk(fn_)):
            return True
        return any(isinstance(x, ast.Call) and isinstance(x.func, ast.Attribute) and dotted(x.func.value) == "self" and depth < 3 and (lambda r: r is not None and r[1] is not fn_ and mentions_freq(r[1], depth + 1))(repo.method(C, x.func.attr))
                   for x in ast.walk(fn_))
    apps = [n for n in rcfg.nodes if n.kind == "stmt" and isinstance(n.ast, ast.Expr) and isinstance(n.ast.value, ast.Call) and dotted(n.ast.value.func) == "self.rewards.append"]
    other_rewards = [short(n.ast, 50) for n in rcfg.nodes if n.kind == "stmt" and n.ast is not None and n not in apps and any(dotted(x) == "self.rewards" for x in ast.walk(n.ast))]
    if len(apps) != 1 and other_rewards:
        raise AnalysisError(f"{rq}: the reward history is updated through `{other_rewards[0]}` (unrecognised form)")
    refresh, unknown_calls = [], []
    for n in rcfg.nodes:
        if n.kind != "stmt" or n.ast is None:
            continue
        hit = False
        for c in ast.walk(n.ast):
            if isinstance(c, ast.Call) and isinstance(c.func, ast.Attribute) and dotted(c.func.value) == "self":
                r = repo.method(C, c.func.attr)
                if r is None:
                    unknown_calls.append(short(c, 40))
                elif writes_freq(r[1]):
                    hit = True
                elif mentions_freq(r[1]):
                    unknown_calls.append(short(c, 40))        # handles the frequencies in a way this reader does not follow
        # the refresh may have been inlined: any write of the discounted frequencies counts
        if hit or writes_freq(ast.Module(body=[n.ast], type_ignores=[])):
            refresh.append(n)
    if not refresh and unknown_calls:
        raise AnalysisError(f"{rq}: calls {unknown_calls[:2]}, which this rule cannot follow (unrecognised form)")
    ok = len(apps) == 1 and bool(refresh) and all(rcfg.paths_avoiding(r.id, apps[0].id, set()) is None for r in refresh) and rcfg.paths_avoiding(rcfg.entry, rcfg.exit, {apps[0].id}) is None \
        and all(rcfg.paths_avoiding(apps[0].id, rcfg.exit, {r.id for r in refresh}) is None for _ in (0,))
    ck.ob("R5-scheduler", rq, "reward-then-refresh", ok, f"{len(apps)} append(s), {len(refresh)} refresh statement(s)", "" if ok else "reward() must record the reward and then refresh the discounted frequencies", loc(rf._module, rf))


def r5_ducb_mean(ck, repo, nf: NF):
    """Sibling agreement: the discounted mean is sum_{s in W, arm(s)=i} w(s) r(s) / N(i) with N(i) = sum_{s in W, arm(s)=i} w(s):
    numerator (in _discounted_empirical_mean) and normaliser (maintained by _episode_finished) must use the same window W and weights w."""
    C = "rl_blox.blox.mapb.DUCB"
    mq, eq, pq = C + "._discounted_empirical_mean", C + "._episode_finished", C + "._padding_function"
    mf, ef, pf = repo.func(mq), repo.func(eq), repo.func(pq)
    mi = mf._module
    # the quantities a D-UCB object is made of: its attributes (as set anywhere in the class) - a value built from these alone, but not
    # as documented, is a different value; anything else in it is something this rule did not read
    own = {"self"} | {t.attr for fn_ in repo.cls(C).body if isinstance(fn_, ast.FunctionDef) for x in ast.walk(fn_) if isinstance(x, (ast.Assign, ast.AugAssign, ast.AnnAssign))
                      for t in (x.targets if isinstance(x, ast.Assign) else [x.target]) for t in [t.value if isinstance(t, ast.Subscript) else t] if isinstance(t, ast.Attribute) and dotted(t.value) == "self"}

    def evidence(got, want, what, extra=()):
        """got != want is a violation only if got is built from the documented ingredients (and the object's own state)."""
        if _unread(got) or not same_ingredients(got, want, tuple(own) + tuple(extra)):
            raise AnalysisError(f"{what}: `{got.canon()[:100]}` (unrecognised form)")
    SV = Poly.atom("§s", {"§s"}, {"§s"})
    ecfg = nf.cfg_of(ef)
    _loops = [n for n in ecfg.nodes if n.kind == "for" and isinstance(n.ast.target, ast.Name)]
    if len(_loops) == 1:
        # the loop variable of the normaliser's history loop is the shared symbol for `history position`
        _body = [n for n in ecfg.nodes if n.kind == "stmt" and _loops[0].id in ecfg.enclosing_loops(n.id)]
        if _body:
            SV = nf.name(_loops[0].ast.target.id, Scope(ecfg, mi, {}, eq), _body[0].id)
    # ---- numerator -------------------------------------------------------------------------------------
    cfg = nf.cfg_of(mf)
    comps = [(n, c) for n in cfg.nodes if n.kind == "stmt" and n.ast is not None for c in ast.walk(n.ast) if isinstance(c, (ast.ListComp, ast.GeneratorExp))]
    ck.need(len(comps) == 1 and len(comps[0][1].generators) == 1 and isinstance(comps[0][1].generators[0].target, ast.Name), f"{mq}: numerator is not a single comprehension over the history (unrecognised idiom)")
    node, comp = comps[0]
    gen = comp.generators[0]
    var = gen.target.id
    sc = Scope(cfg, mi, {var: SV}, mq)
    arm = positional_params_(mf)[0] if positional_params_(mf) else "arm_idx"
    num_range = nf.poly(gen.iter, sc, node.id).canon()
    cond_polys = [nf.poly(c, sc, node.id) for c in gen.ifs]
    conds = [c.canon() for c in cond_polys]
    want_cond_p = nf.poly(parse_expr(f"self.chosen_arms[{var}] == {arm}"), sc, node.id)
    want_cond = want_cond_p.canon()
    ok = conds == [want_cond]
    if not ok:
        for c_ in cond_polys:             # no filter at all is evidence as it stands
            evidence(c_, want_cond_p, f"{mq}: filter of the reward sum", ("NotEq", "Eq", arm, "§s", var))
    ck.ob("R5-scheduler", mq, "mean-filters-arm", ok, f"if {conds}", "" if ok else f"the numerator must sum exactly the rewards of the evaluated arm ({want_cond})", loc(mi, comp))
    elt = nf.poly(comp.elt, sc, node.id)
    rets = [n for n in cfg.nodes if n.kind == "stmt" and isinstance(n.ast, ast.Return)]
    ck.need(len(rets) == 1, f"{mq}: expected one return")
    got = nf.poly(rets[0].ast.value, Scope(cfg, mi, {}, mq), rets[0].id).canon()
    comp_atom = nf.poly(comp, Scope(cfg, mi, {}, mq), node.id).canon()
    want_p = nf.poly(parse_expr(f"np.sum(__c) / self.discounted_frequencies[{arm}]"), Scope(None, mi, {"__c": nf.poly(comp, Scope(cfg, mi, {}, mq), node.id)}, mq), None)
    want = want_p.canon()
    if got != want:
        got_p = nf.poly(rets[0].ast.value, Scope(cfg, mi, {}, mq), rets[0].id)
        strip_ = lambda t: __import__("re").sub(r"⟦.*?⟧", "COMP", t)            # the comprehension is the same object on both sides
        if "φ(" in got or not (_tokens(strip_(got)) <= _tokens(strip_(want)) | own | {arm}):
            raise AnalysisError(f"{mq}: returns `{got[:100]}` (unrecognised form)")
    ck.ob("R5-scheduler", mq, "mean-normalised-by-frequency", got == want, got[:150], "" if got == want else f"the discounted mean must be the weighted reward sum divided by the arm's discounted frequency N(i): {want[:150]}", loc(mi, rets[0].ast))
    # ---- normaliser ---------------------------------------------------------------------------------------
    ecfg = nf.cfg_of(ef)
    F = "self.discounted_frequencies"
    writes = [n for n in ecfg.nodes if n.kind == "stmt" and isinstance(n.ast, (ast.Assign, ast.AugAssign)) and dotted(((n.ast.targets[0] if isinstance(n.ast, ast.Assign) else n.ast.target).value) if isinstance((n.ast.targets[0] if isinstance(n.ast, ast.Assign) else n.ast.target), ast.Subscript) else (n.ast.targets[0] if isinstance(n.ast, ast.Assign) else n.ast.target)) == F]
    loops_ = [n for n in ecfg.nodes if n.kind == "for"]
    den_range = den_w = None
    form = None
    if len(writes) == 2 and isinstance(writes[0].ast, ast.Assign) and ast.unparse(writes[0].ast.targets[0]) == F + "[:]" and isinstance(writes[0].ast.value, ast.Constant) and writes[0].ast.value.value == 0 \
            and isinstance(writes[1].ast, ast.AugAssign) and isinstance(writes[1].ast.op, ast.Add) and len(loops_) == 1 and loops_[0].id in ecfg.enclosing_loops(writes[1].id) and not ecfg.enclosing_loops(writes[0].id) \
            and isinstance(loops_[0].ast.target, ast.Name):
        # windowed recomputation:  N[:] = 0; for s in W: N[arm(s)] += w(s)
        form = "windowed-recomputation"
        lv = loops_[0].ast.target.id
        esc = Scope(ecfg, mi, {}, eq)
        den_range = nf.poly(loops_[0].ast.iter, esc, loops_[0].id).canon()
        den_w = nf.poly(writes[1].ast.value, esc, writes[1].id)
        ix = nf.poly(writes[1].ast.target.slice, esc, writes[1].id).canon()
        want_ix = nf.poly(parse_expr(f"self.chosen_arms[{lv}]"), esc, writes[1].id)
        okix = ix == want_ix.canon()
        if not okix:
            evidence(nf.poly(writes[1].ast.target.slice, esc, writes[1].id), want_ix, f"{eq}: index of the frequency update", (lv, "iter", "range", "max", "len", "§s"))
        ck.ob("R5-scheduler", eq, "frequency-of-chosen-arm", okix, f"N[{ix}] += w", "" if okix else "each history entry must add its weight to the arm chosen at that entry", loc(mi, writes[1].ast))
    elif len(writes) == 2 and all(isinstance(w.ast, ast.AugAssign) for w in writes) and not loops_ \
            and isinstance(writes[0].ast.op, ast.Mult) and isinstance(writes[0].ast.target, ast.Attribute) and isinstance(writes[1].ast.op, ast.Add) and ecfg.dominates(writes[0].id, writes[1].id):
        # recurrence  N <- g N + e_{last arm}: closed form  N(i) = sum_{s in [0,t)} g^(t-1-s) [arm(s) = i]   (unbounded window)
        esc = Scope(ecfg, mi, {}, eq)
        g = nf.poly(writes[0].ast.value, esc, writes[0].id)
        inc = nf.poly(writes[1].ast.value, esc, writes[1].id).canon()
        ix = nf.poly(writes[1].ast.target.slice, esc, writes[1].id).canon()
        if inc == "1" and ix == nf.poly(parse_expr("self.chosen_arms[-1]"), esc, None).canon():
            form = "recurrence"
            tl = nf.poly(parse_expr("len(self.chosen_arms)"), Scope(None, mi, {}, eq), None)
            den_range = nf.poly(parse_expr("range(0, len(self.chosen_arms))"), Scope(None, mi, {}, eq), None).canon()
            den_w = nf.poly(parse_expr("__g ** (__t - 1 - __s)"), Scope(None, mi, {"__g": g, "__t": tl, "__s": SV}, eq), None)
    if form is None:
        raise AnalysisError(f"{eq}: the maintenance of the discounted frequencies matches neither the windowed recomputation nor the recurrence idiom: sibling agreement with the discounted mean cannot be decided")
    rng_norm = lambda r: r.replace("range(0, ", "range(")
    okr = rng_norm(num_range) == rng_norm(den_range)
    if not okr and (_unread(num_range) or _unread(den_range) or not (_tokens(num_range) | _tokens(den_range)) <= own | {"range", "max", "min", "len", "maximum", "minimum"}):
        raise AnalysisError(f"{C}: history ranges `{num_range[:60]}` / `{den_range[:60]}` (unrecognised form)")
    ck.ob("R5-scheduler", C, "mean-window-agreement", okr, f"numerator over {num_range}; frequencies ({form}) over {den_range}",
          "" if okr else "the discounted reward sum and the discounted frequency it is divided by range over different parts of the history: the ratio is not a weighted mean (it leaves the reward range once the histories differ)", loc(mi, ef))
    rw = nf.poly(parse_expr(f"self.rewards[{var}]"), sc, node.id)
    okw = (elt - den_w * rw).is_zero()
    if not okw:
        evidence(elt, den_w * rw, f"{mq}: term of the reward sum", (var, "§s", "pow", "len", "iter", "range", "max"))
    ck.ob("R5-scheduler", C, "mean-weight-agreement", okw, f"numerator term {elt.canon()[:110]}; frequency weight {den_w.canon()[:80]}",
          "" if okw else "the numerator must weight reward s by the same discount that entry s contributes to the arm's discounted frequency", loc(mi, comp))
    # total frequency and padding
    tot = [n for n in ecfg.nodes if n.kind == "stmt" and isinstance(n.ast, (ast.Assign, ast.AnnAssign)) and dotted(n.ast.targets[0] if isinstance(n.ast, ast.Assign) else n.ast.target) == "self.total_frequency"]
    if len(tot) != 1:
        raise AnalysisError(f"{eq}: {len(tot)} plain assignments of self.total_frequency (unrecognised form)")
    tot_p = nf.poly(tot[0].ast.value, Scope(ecfg, mi, {}, eq), tot[0].id)
    want_tot = nf.poly(parse_expr(f"np.sum({F})"), Scope(None, mi, {}, eq), None)
    ok_val = tot_p.canon() == want_tot.canon()
    if not ok_val:
        evidence(tot_p, want_tot, f"{eq}: total frequency", ("len",))
    # n_t is computed after the frequencies were refreshed, on every path on which they were
    stale = next((pth for w in writes for pth in [ecfg.paths_avoiding(tot[0].id, w.id, set()) or ecfg.paths_avoiding(w.id, ecfg.exit, {tot[0].id})] if pth is not None), None)
    if stale is not None and any(ecfg.nodes[x_].kind == "test" for x_ in stale[:-1]):
        raise AnalysisError(f"{eq}: whether n_t is recomputed after the frequencies depends on `{short(next(ecfg.nodes[x_].ast.test for x_ in stale if ecfg.nodes[x_].kind == 'test'), 50)}` (unrecognised form)")
    ok = ok_val and stale is None
    ck.ob("R5-scheduler", eq, "total-frequency", ok, short(tot[0].ast, 80), "" if ok else "n_t must be the sum of the refreshed discounted frequencies", loc(mi, ef), ecfg.describe_path(stale) if stale else None)
    pcfg = nf.cfg_of(pf)
    prets = [n for n in pcfg.nodes if n.kind == "stmt" and isinstance(n.ast, ast.Return)]
    parm = positional_params_(pf)[0] if positional_params_(pf) else "arm_idx"
    ck.need(len(prets) == 1, f"{pq}: expected one return")
    got_p = nf.poly(prets[0].ast.value, Scope(pcfg, mi, {}, pq), prets[0].id)
    want_p = nf.poly(parse_expr(f"2 * self.upper_bound * np.sqrt(self.zeta * np.log(self.total_frequency) / self.discounted_frequencies[{parm}])"), Scope(None, mi, {}, pq), None)
    got, want = got_p.canon(), want_p.canon()
    if got != want:
        evidence(got_p, want_p, f"{pq}: exploration bonus", (parm,))
    ck.ob("R5-scheduler", pq, "padding-formula", got == want, got, "" if got == want else f"exploration bonus must be 2B*sqrt(zeta*log(n_t)/N_t(i)) = {want}", loc(mi, pf))


_LIB_ARITH = ("numpy", "jax", "math", "builtins", "operator")
_GROW = ("append", "extend", "appendleft", "extendleft", "insert", "copy", "count", "index", "__len__", "__iter__", "__getitem__")
_SHRINK = ("pop", "popleft", "clear", "remove", "rotate", "reverse", "sort", "__delitem__", "__setitem__")


def r5_ducb_play_counter(ck, repo):
    """The initial rounds are delimited by a *count of plays* that choose_arm reads as the length of a history container
    (`len(self.rewards) < 2 * n_arms`, round-robin arm `len(self.rewards) % n_arms`).  A length counts the plays only while the container
    keeps every entry: a container that is bounded by a quantity that does not depend on the number of arms (`deque(maxlen=H)`, a history
    re-bound to its last H entries) saturates at H, and for 2 * n_arms > H the scheduler never leaves the initial rounds (world witness:
    any number of tasks is legal).  Every binding of such a container - in the class and wherever a D-UCB object is held - is classified:
    unbounded (list, deque without / with `maxlen=None`), bounded independently of n_arms (violation), anything else undecided."""
    C = "rl_blox.blox.mapb.DUCB"
    cls = repo.cls(C)
    cmi = cls._module
    ch = repo.func(C + ".choose_arm")
    in_print = {id(y) for x in ast.walk(ch) if isinstance(x, ast.Call) and dotted(x.func) == "print" for y in ast.walk(x)}
    lengths = sorted({x.args[0].attr for x in ast.walk(ch) if isinstance(x, ast.Call) and id(x) not in in_print and dotted(x.func) == "len" and len(x.args) == 1 and not x.keywords
                      and isinstance(x.args[0], ast.Attribute) and dotted(x.args[0].value) == "self"})
    # a history length is a count of plays when it decides something: it reaches a branch condition, or the arithmetic of the arm that is
    # recorded / returned.  A length that only delimits the part of the history a sum runs over (range bounds, positions) decides nothing
    # about the initial rounds: whatever bounds that container is judged by the sibling-agreement rule of the discounted mean.
    def _is_len_of(x, A):
        return isinstance(x, ast.Call) and dotted(x.func) == "len" and len(x.args) == 1 and not x.keywords and isinstance(x.args[0], ast.Attribute) and x.args[0].attr == A and dotted(x.args[0].value) == "self"

    def _reads(e, A, derived):
        """The value of ``e`` depends arithmetically on len(self.A): positions (subscripts), range bounds, comprehensions and the arguments
        of repository functions are not arithmetic on the count."""
        if e is None or id(e) in in_print:
            return False
        if _is_len_of(e, A) or (isinstance(e, ast.Name) and e.id in derived):
            return True
        if isinstance(e, (ast.Lambda, ast.ListComp, ast.SetComp, ast.DictComp, ast.GeneratorExp)):
            return False
        if isinstance(e, ast.Subscript):
            return _reads(e.value, A, derived)
        if isinstance(e, ast.Call):
            d_ = dotted(e.func)
            r_ = repo.resolve_expr(cmi, e.func) if isinstance(e.func, (ast.Name, ast.Attribute)) else None
            if d_.split(".")[-1] in ("range", "arange") or not (d_ in _ARITH_CALLS or (r_ is not None and r_.split(".")[0] in _LIB_ARITH)):
                return False
        return any(_reads(c_, A, derived) for c_ in ast.iter_child_nodes(e))
    counters = []
    own_ = [x for x in _walk_own(ch)]
    for A in lengths:
        derived, changed = set(), True
        while changed:
            changed = False
            for x in own_:
                if isinstance(x, (ast.Assign, ast.AnnAssign, ast.AugAssign)) and x.value is not None:
                    tg_ = x.targets if isinstance(x, ast.Assign) else [x.target]
                    pairs_ = []
                    for t_ in tg_:
                        if isinstance(t_, (ast.Tuple, ast.List)) and isinstance(x.value, (ast.Tuple, ast.List)) and len(t_.elts) == len(x.value.elts) and not any(isinstance(y, ast.Starred) for y in list(t_.elts) + list(x.value.elts)):
                            pairs_ += list(zip(t_.elts, x.value.elts))
                        else:
                            pairs_ += [(y, x.value) for y in (t_.elts if isinstance(t_, (ast.Tuple, ast.List)) else [t_])]
                    for t_, v_ in pairs_:
                        if isinstance(t_, ast.Name) and t_.id not in derived and _reads(v_, A, derived):
                            derived.add(t_.id)
                            changed = True
                elif isinstance(x, ast.NamedExpr) and isinstance(x.target, ast.Name) and x.target.id not in derived and _reads(x.value, A, derived):
                    derived.add(x.target.id)
                    changed = True
        decides = any(_reads(x.test, A, derived) for x in own_ if isinstance(x, (ast.If, ast.While, ast.IfExp, ast.Assert))) \
            or any(_reads(x.value, A, derived) for x in own_ if isinstance(x, ast.Return)) \
            or any(_reads(a_, A, derived) for x in own_ if isinstance(x, ast.Call) and isinstance(x.func, ast.Attribute) and x.func.attr in ("append", "insert", "extend") and id(x) not in in_print for a_ in x.args) \
            or any(isinstance(x, ast.Compare) and id(x) not in in_print and _reads(x, A, derived) for x in own_)
        if decides:
            counters.append(A)
    if not counters:
        ck.note(f"{C}.choose_arm reads no history length: no play-counter obligation")
        return
    unread = []

    def stmts_of(fn):
        out, todo = [], list(fn.body)
        while todo:
            x = todo.pop()
            if isinstance(x, (ast.FunctionDef, ast.AsyncFunctionDef, ast.ClassDef)):
                continue
            if isinstance(x, ast.stmt):
                out.append(x)
            for f_ in ("body", "orelse", "finalbody", "handlers", "cases"):
                todo.extend(y for y in getattr(x, f_, []) or [] if isinstance(y, ast.AST))
        return out

    cfgs_ = {}

    def cfg_of(fn):
        if id(fn) not in cfgs_:
            cfgs_[id(fn)] = CFG(fn)
        return cfgs_[id(fn)]

    def attr_binds(scope, fn, attr):
        """Bindings `self.attr = v` as [(stmt, method)]: those of the method itself, else those of the other methods of the class."""
        def of(f_):
            return [(x, f_) for x in stmts_of(f_) if isinstance(x, (ast.Assign, ast.AnnAssign)) and x.value is not None
                    and any(dotted(t) == "self." + attr for t in (x.targets if isinstance(x, ast.Assign) else [x.target]))]
        own = of(fn)
        if own or not isinstance(scope, ast.ClassDef):
            return own
        return [b_ for f_ in scope.body if isinstance(f_, ast.FunctionDef) and f_ is not fn for b_ in of(f_)]

    def alternatives(e, scope, fn, mi, at, depth=0):
        """The values the expression may have, as [(expr, method, node)]: conditional expressions, locals and attributes of the object with
        several bindings are split; everything else is one value."""
        cfg = cfg_of(fn)
        if depth > 6:
            return [(e, fn, at)]
        if isinstance(e, ast.IfExp):
            return alternatives(e.body, scope, fn, mi, at, depth + 1) + alternatives(e.orelse, scope, fn, mi, at, depth + 1)
        if isinstance(e, ast.Name):
            ds = cfg.defs_of(at, e.id) if at is not None else []
            if ds and all(d.kind in ("assign", "walrus") and isinstance(d.value, ast.AST) and d.node != at for d in ds):
                return [a_ for d in ds for a_ in alternatives(d.value, scope, fn, mi, d.node, depth + 1)]
            if not ds and e.id not in param_names(fn):
                g = mi.defs.get(e.id)
                if isinstance(g, (ast.Assign, ast.AnnAssign)) and g.value is not None:
                    return alternatives(g.value, scope, fn, mi, None, depth + 1)
            return [(e, fn, at)]
        if isinstance(e, ast.Attribute) and dotted(e.value) == "self":
            binds = attr_binds(scope, fn, e.attr)
            if binds and all(id(x) in cfg_of(f_).stmt_node for x, f_ in binds):
                return [a_ for x, f_ in binds for a_ in alternatives(x.value, scope, f_, mi, cfg_of(f_).stmt_node[id(x)], depth + 1)]
        return [(e, fn, at)]

    def leaves(e, scope, fn, mi, at, depth=0):
        """(names the value is computed from - parameters, attributes, module constants -, readable?) looking through locals / attributes."""
        names, ok = set(), True
        if depth > 8:
            return names, False
        callee, attr_base = set(), set()
        for x in ast.walk(e):
            if isinstance(x, ast.Call):
                r = repo.resolve_expr(mi, x.func) if isinstance(x.func, (ast.Name, ast.Attribute)) else None
                if not (dotted(x.func) in _ARITH_CALLS or (r is not None and r.split(".")[0] in _LIB_ARITH)):
                    ok = False
                f_ = x.func
                while isinstance(f_, ast.Attribute):
                    callee.add(id(f_))
                    f_ = f_.value
                callee.add(id(f_))
            if isinstance(x, ast.Attribute):
                attr_base.add(id(x.value))
            if isinstance(x, (ast.Lambda, ast.ListComp, ast.SetComp, ast.DictComp, ast.GeneratorExp, ast.Subscript, ast.Starred, ast.Await)):
                ok = False
        for x in ast.walk(e):
            if id(x) in callee or id(x) in attr_base:
                continue
            if isinstance(x, (ast.Attribute, ast.Name)):
                if isinstance(x, ast.Attribute) and dotted(x.value) != "self":
                    names.add(dotted(x) or ast.unparse(x))
                    ok = False
                    continue
                for v_, f_, at_ in alternatives(x, scope, fn, mi, at):
                    if v_ is x:
                        names.add(dotted(x))
                        if isinstance(x, ast.Attribute) or x.id not in param_names(f_):
                            ok = False           # an attribute bound elsewhere / a name that is not a parameter: not read
                    else:
                        n2, ok2 = leaves(v_, scope, f_, mi, at_, depth + 1)
                        names |= n2
                        ok = ok and ok2
        return names, ok

    def bound_kind(M, scope, fn, mi, at):
        """`unbounded` / `independent` (some configuration gives a finite bound that does not involve the number of arms) / None."""
        kinds = []
        for v_, f_, at_ in alternatives(M, scope, fn, mi, at):
            if isinstance(v_, ast.Constant) and v_.value is None:
                kinds.append("unbounded")
                continue
            if isinstance(v_, ast.Constant) and isinstance(v_.value, int) and not isinstance(v_.value, bool):
                kinds.append("independent")
                continue
            if isinstance(v_, ast.Call) and dotted(v_.func) == "max" and not v_.keywords and len(v_.args) >= 2 and at_ is not None:
                # a bound that is at least the 2 * n_arms plays of the initial rounds: the test `count < 2 * n_arms` turns false at the same
                # play and stays false (a full container never shrinks)
                nfq = NF(repo, inline_calls=False)
                sc_ = Scope(cfg_of(f_), mi, {}, C)
                covers = False
                for a_ in v_.args:
                    try:
                        pa = nfq.poly(a_, sc_, at_)
                    except Exception:
                        continue
                    for atom in ("n_arms", "self.n_arms"):
                        kk = (pa - Poly.atom(atom) * Poly.const(2)).const_value()
                        covers = covers or (kk is not None and kk >= 0)
                if covers:
                    kinds.append("unbounded")
                    continue
            names, ok = leaves(v_, scope, f_, mi, at_)
            kinds.append("independent" if ok and not any("arms" in n_ or "tasks" in n_ for n_ in names) else None)
        if kinds and all(k == "unbounded" for k in kinds):
            return "unbounded"
        if None in kinds:
            return None
        return "independent"

    def classify(v, target_txt, scope, fn, mi, at):
        """(kind, shown) for the value a history container is bound to; a value that may be one of several (conditional expression, a
        local bound on several paths) is bounded independently of the arms if one of them is, and unbounded if all of them are."""
        alts_ = alternatives(v, scope, fn, mi, at)
        if len(alts_) == 1 and alts_[0][0] is v:
            return classify1(v, target_txt, scope, fn, mi, at)
        got = [classify1(v_, target_txt, scope, f_, mi, at_) for v_, f_, at_ in alts_]
        kinds = [k_ for k_, _ in got]
        shown = " | ".join(sorted({t_ for _, t_ in got}))[:80]
        return ("independent" if "independent" in kinds and None not in kinds else None if None in kinds else "unbounded"), shown

    def classify1(v, target_txt, scope, fn, mi, at):
        if isinstance(v, (ast.List, ast.ListComp)) or (isinstance(v, ast.Call) and dotted(v.func) == "list"):
            return "unbounded", short(v, 40)
        if isinstance(v, ast.Call) and isinstance(v.func, (ast.Name, ast.Attribute)) and repo.resolve_expr(mi, v.func) == "collections.deque" \
                and not any(isinstance(a_, ast.Starred) for a_ in v.args) and not any(k_.arg is None for k_ in v.keywords) and len(v.args) <= 2:
            M = next((k_.value for k_ in v.keywords if k_.arg == "maxlen"), v.args[1] if len(v.args) == 2 else None)
            if M is None:
                return "unbounded", short(v, 40)
            return bound_kind(M, scope, fn, mi, at), f"maxlen = {short(M, 40)}"
        if isinstance(v, ast.Subscript) and ast.unparse(v.value) == target_txt and isinstance(v.slice, ast.Slice) and v.slice.upper is None and v.slice.step is None \
                and isinstance(v.slice.lower, ast.UnaryOp) and isinstance(v.slice.lower.op, ast.USub):
            # history re-bound to its last M entries
            k = bound_kind(v.slice.lower.operand, scope, fn, mi, at)
            return ("independent" if k == "independent" else None), f"last {short(v.slice.lower.operand, 40)} entries"
        return None, short(v, 40)

    n_sites = 0
    for mi in repo.modules.values():
        scopes = [x for x in mi.tree.body if isinstance(x, (ast.ClassDef, ast.FunctionDef))]
        for scope in scopes:
            fns = [x for x in ast.walk(scope) if isinstance(x, ast.FunctionDef)]
            holders = set()
            if scope is cls:
                holders.add("self")
            for fn in fns:
                for x in stmts_of(fn):
                    if isinstance(x, (ast.Assign, ast.AnnAssign)) and isinstance(x.value, ast.Call) and isinstance(x.value.func, (ast.Name, ast.Attribute)):
                        r = repo.resolve_expr(mi, x.value.func)
                        if r == C:
                            holders |= {dotted(t) for t in (x.targets if isinstance(x, ast.Assign) else [x.target]) if dotted(t)}
            if not holders:
                continue
            for fn in fns:
                for x in stmts_of(fn):
                    for A in counters:
                        tgts = {h + "." + A for h in holders}
                        where = f"{mi.name}.{scope.name}" + (f".{fn.name}" if fn is not scope else "")
                        if isinstance(x, (ast.Assign, ast.AnnAssign)) and x.value is not None:
                            pairs = []
                            at = cfg_of(fn).stmt_node.get(id(x))
                            for t in (x.targets if isinstance(x, ast.Assign) else [x.target]):
                                if dotted(t) in tgts:
                                    pairs.append((t, x.value))
                                elif isinstance(t, ast.Subscript) and dotted(t.value) in tgts and isinstance(t.slice, ast.Slice):
                                    unread.append(f"{where}: `{short(x, 60)}`")
                                elif isinstance(t, (ast.Tuple, ast.List)) and any(dotted(e_) in tgts for e_ in t.elts):
                                    # element-wise `a, b = x, y`
                                    vs = x.value.elts if isinstance(x.value, (ast.Tuple, ast.List)) and len(x.value.elts) == len(t.elts) and not any(isinstance(e_, ast.Starred) for e_ in list(t.elts) + list(x.value.elts)) else None
                                    pairs += [(e_, v_) for e_, v_ in zip(t.elts, vs or []) if dotted(e_) in tgts]
                                    if vs is None:
                                        unread.append(f"{where}: `{short(x, 60)}`")
                            for t, v in pairs:
                                kind, shown = classify(v, dotted(t), scope, fn, mi, at) if at is not None else (None, short(v, 40))
                                n_sites += 1
                                if kind is None:
                                    unread.append(f"{where}: `{short(x, 60)}`")
                                    continue
                                ok = kind == "unbounded"
                                ck.ob("R5-scheduler", C, f"play-counter-unbounded:{A}:{where.split('.', 2)[-1]}", ok, f"`{short(x, 60)}` ({shown})",
                                      "" if ok else f"choose_arm counts the plays as len(self.{A}) (initial rounds while the count is below 2 * n_arms), but the container is bounded by a quantity that "
                                      f"does not depend on the number of arms ({shown}): its length saturates there, and with 2 * n_arms above the bound the initial-rounds test never becomes false "
                                      "(the scheduler plays round-robin for ever and the index policy is never used)", loc(mi, x))
                        elif isinstance(x, ast.Delete) and any(isinstance(t, ast.Subscript) and dotted(t.value) in tgts or dotted(t) in tgts for t in x.targets):
                            # `del x[:-M]` keeps the last M entries - the same truncation as `x = x[-M:]`
                            keep = [t for t in x.targets if isinstance(t, ast.Subscript) and dotted(t.value) in tgts and isinstance(t.slice, ast.Slice) and t.slice.lower is None
                                    and t.slice.step is None and isinstance(t.slice.upper, ast.UnaryOp) and isinstance(t.slice.upper.op, ast.USub)]
                            at = cfg_of(fn).stmt_node.get(id(x))
                            if len(keep) == len(x.targets) == 1 and at is not None and bound_kind(keep[0].slice.upper.operand, scope, fn, mi, at) == "independent":
                                n_sites += 1
                                shown = f"last {short(keep[0].slice.upper.operand, 40)} entries"
                                ck.ob("R5-scheduler", C, f"play-counter-unbounded:{A}:{where.split('.', 2)[-1]}", False, f"`{short(x, 60)}` ({shown})",
                                      f"choose_arm counts the plays as len(self.{A}) (initial rounds while the count is below 2 * n_arms), but the container is cut back to a length that "
                                      f"does not depend on the number of arms ({shown}): its length saturates there, and with 2 * n_arms above the bound the initial-rounds test never becomes false", loc(mi, x))
                            else:
                                unread.append(f"{where}: `{short(x, 60)}`")
                        elif isinstance(x, ast.AugAssign) and dotted(x.target) in tgts and not isinstance(x.op, ast.Add):
                            unread.append(f"{where}: `{short(x, 60)}`")
                        for c in ast.walk(x) if not isinstance(x, (ast.If, ast.For, ast.While, ast.With, ast.Try)) else []:
                            if isinstance(c, ast.Call) and isinstance(c.func, ast.Attribute) and dotted(c.func.value) in tgts and c.func.attr in _SHRINK:
                                unread.append(f"{where}: `{short(c, 60)}`")
    ck.count("R5-play-counter-bindings", n_sites)
    if n_sites == 0:
        raise AnalysisError(f"{C}: no binding of the play-counter container(s) {counters} found (unrecognised form)")
    if unread:
        raise AnalysisError(f"{C}: the container whose length counts the plays is handled through {unread[:2]} (unrecognised form)")


def positional_params_(fn):
    return [a.arg for a in fn.args.args if a.arg != "self"]


def r5_budget_symbolic(ck, repo, nf: NF, qual: str, budget: str):
    """Per-task totals and global counter receive the same increments on every path (symbolic difference)."""
    fn = repo.func(qual)
    mi = fn._module
    cfg = nf.cfg_of(fn)
    sc = Scope(cfg, mi, {}, qual)
    G = "global_step"
    site = qual
    # the main while loop
    hdrs = [n for n in cfg.nodes if n.kind == "test" and isinstance(n.ast, ast.While) and not cfg.control_deps(n.id)]
    ck.need(len(hdrs) == 1, f"{site}: expected one top-level while loop")
    H = hdrs[0]
    t = H.ast.test
    # the scheduler's step counter is the variable its main loop compares with the budget (its local name does not matter; either orientation,
    # `G + 1 <= budget`, an alias of the budget)
    G, k = _scheduler_guard(repo, cfg, mi, site, H, budget)
    ok = k == 0
    ck.ob("R2-budget", site, "while-guard", ok, f"while {short(t)}", "" if ok else f"scheduler loop runs while {G} < {budget} + {k}: the guard is not `{G} < {budget}` (strict)", loc(mi, H.ast))
    # sub-call receives the same budget and the current counter
    for n in cfg.nodes:
        if n.ast is None or n.kind != "stmt":
            continue
        for c in ast.walk(n.ast):
            if isinstance(c, ast.Call) and isinstance(c.func, ast.Name) and c.func.id == "train_st":
                kw = {k_.arg: k_.value for k_ in c.keywords}
                ssc = Scope(cfg, mi, {}, qual)
                ssc.opaque_names = {G, budget}
                for key, want_name, what, why in (("total_timesteps", budget, "subcall-budget", f"the single-task routine is not given the scheduler's remaining budget `{budget}`"),
                                                  ("global_step", G, "subcall-counter", "the single-task routine does not start from the scheduler's global step counter")):
                    if kw.get(key) is None:
                        if c.args or None in kw:
                            # positional arguments / **options: what the callee receives under this name is not visible here
                            raise AnalysisError(f"{site}: `{short(c, 50)}` does not pass `{key}` by keyword (unrecognised form)")
                        okv, shown = False, None                 # plain keyword call without it: the callee runs on its default
                    else:
                        got = nf.poly(kw[key], ssc, n.id)
                        okv, shown = got.canon() == want_name, short(kw[key])
                        if not okv and (_unread(got) or not got.atoms() <= {G, budget}):
                            raise AnalysisError(f"{site}: train_st({key}={short(kw[key], 50)}) (unrecognised form)")
                    ck.ob("R5-scheduler", site, what, okv, f"train_st({key}={shown})", "" if okv else why, loc(mi, c))
                # warm-up frame: the single-task routine compares the threshold it is given with the step counter it is given; the scheduler
                # hands over its *global* counter, so the threshold must be the scheduler's own (absolute) `learning_starts`
                LS = "learning_starts"
                if LS in param_names(fn):
                    if kw.get(LS) is None:
                        raise AnalysisError(f"{site}: `{short(c, 50)}` does not pass `{LS}` by keyword (unrecognised form)")
                    ssc2 = Scope(cfg, mi, {}, qual)
                    ssc2.opaque_names = {G, budget, LS}
                    got = nf.poly(kw[LS], ssc2, n.id)
                    okv = got.canon() == LS
                    gs = kw.get("global_step")
                    if not okv:
                        # evidence for another threshold: the value is computed from the scheduler's own threshold *and* from state that changes
                        # between scheduling decisions (per-task totals, the step counter), while the routine still receives the global counter
                        body = cfg.loop_body_nodes(H.id)
                        state = set(_loop_state(cfg, H.id))
                        for nid in body:
                            st = cfg.nodes[nid].ast
                            tg = [st.target] if isinstance(st, ast.AugAssign) else (st.targets if isinstance(st, ast.Assign) else [])
                            for t_ in tg:
                                if isinstance(t_, ast.Subscript) and isinstance(t_.value, ast.Name):
                                    state.add(t_.value.id)
                        leaves = _leaf_names(cfg, kw[LS], n.id, state)
                        if leaves is None or LS not in leaves or not (leaves & state) or gs is None or nf.poly(gs, ssc, n.id).canon() != G:
                            raise AnalysisError(f"{site}: train_st({LS}={short(kw[LS], 50)}) (unrecognised form)")
                    ck.ob("R5-scheduler", site, "subcall-warm-up", okv, f"train_st({LS}={short(kw[LS])}, global_step={short(gs) if gs is not None else None})",
                          "" if okv else f"the single-task routine starts from the scheduler's global step counter but is given another warm-up threshold than the scheduler's `{LS}` "
                          "(a threshold made relative to a per-task count is reached earlier than the documented one: updates before the warm-up has passed)", loc(mi, c))


def _leaf_names(cfg, e, at, stop=frozenset(), depth=0):
    """Names an expression is computed from, looking through temporaries (names with one reaching plain assignment); None when a name
    has several reaching definitions of different kinds that are not loop state (not read)."""
    if depth > 6:
        return None
    out = set()
    for x in ast.walk(e):
        if not (isinstance(x, ast.Name) and isinstance(x.ctx, ast.Load)):
            continue
        ds = cfg.defs_of(at, x.id)
        if x.id not in stop and len(ds) == 1 and ds[0].kind == "assign" and isinstance(ds[0].value, ast.AST) and not isinstance(ds[0].value, ast.stmt):
            sub = _leaf_names(cfg, ds[0].value, ds[0].node, stop, depth + 1)
            if sub is None:
                return None
            out |= sub
        else:
            out.add(x.id)
    return out


def _scheduler_guard(repo, cfg, mi, site, H, budget):
    """(counter, k): the scheduler loop runs while  counter < budget + k  (k == 0: the strict guard)."""
    t = H.ast.test
    nfq = NF(repo, inline_calls=False)
    state = _loop_state(cfg, H.id)
    sc = Scope(cfg, mi, {}, site)
    sc.opaque_names = set(state) | {budget}
    hits = []
    lits = [(_parse(txt), truth, H.id) for txt, truth in cfg._lits(t, True, H.id)]
    # guard clauses in the body (`while True: if counter >= budget: break`): the comparisons that hold whenever the single-task call runs
    calls = [n for n in cfg.nodes if n.kind == "stmt" and n.ast is not None and H.id in cfg.enclosing_loops(n.id)
             and any(isinstance(c, ast.Call) and isinstance(c.func, ast.Name) and c.func.id == "train_st" for c in ast.walk(n.ast))]
    if len(calls) == 1:
        class _Shim:
            step_node = calls[0].id
        lits += [(e, truth, b) for b, e, truth in _step_guard_literals(cfg, _Shim) if b != H.id and _fresh(cfg, H.id, e, b, state)]
    for e, truth, at in lits:
        D = _gap(nfq, sc, e, truth, at) if e is not None else None
        if D is None or _unread(D):
            continue
        for c in sorted(a for a in D.atoms() if a in state):
            k = _offset(D, budget, c)
            if k is not None:
                hits.append((k, c))
    if not hits:
        raise AnalysisError(f"{site}: the main loop guard `{short(t)}` does not compare a counter with `{budget}` (unrecognised form)")
    k, G = min(hits)
    return G, k


def r5_budget_exact(ck, repo, nf: NF, qual: str, budget: str):
    """Between one single-task call and the next scheduling decision the counters move by exactly the executed steps.

    Abstract interpretation of the segment  S (train_st call) -> {next S, scheduler loop header, return}: the state is the
    environment of the *relevant* locals (those flowing into the global counter / per-task totals) as polynomials over
    G0 (counter value handed to train_st), Q (sum of the recorded episode lengths) and the budget, plus the accumulated
    per-task increment dT and which side of the early-termination test was taken.  Irrelevant branches do not split states.
    Obligations at the segment ends:  normal side: dG == Q and dT == Q;  early side (train_st ran into the budget, so it
    executed budget - G0 steps): G0 + dT == budget and, when the scheduler continues or returns the counter, G == budget."""
    from .. import sympath
    fn = repo.func(qual)
    mi = fn._module
    cfg = nf.cfg_of(fn)
    G = "global_step"
    T = "training_steps"
    site = qual
    hdrs = [n for n in cfg.nodes if n.kind == "test" and isinstance(n.ast, ast.While) and not cfg.control_deps(n.id)]
    ck.need(len(hdrs) == 1, f"{site}: expected one top-level while loop")
    H = hdrs[0]
    G, _k = _scheduler_guard(repo, cfg, mi, site, H, budget)      # the counter the loop compares with the budget
    # per-task totals: the subscripted container that is advanced by the recorded episode lengths (its local name does not matter)
    tcands = {dotted(m.ast.target.value) for m in cfg.nodes if m.kind == "stmt" and isinstance(m.ast, ast.AugAssign) and isinstance(m.ast.target, ast.Subscript) and dotted(m.ast.target.value)}
    if T not in tcands and len(tcands) == 1:
        T = next(iter(tcands))
    elif T not in tcands:
        raise AnalysisError(f"{site}: cannot identify the per-task step totals among {sorted(tcands)} (unrecognised form)")
    S = [n for n in cfg.nodes if n.kind == "stmt" and n.ast is not None and any(isinstance(c, ast.Call) and isinstance(c.func, ast.Name) and c.func.id == "train_st" for c in ast.walk(n.ast))]
    ck.need(len(S) == 1, f"{site}: expected exactly one train_st call")
    S = S[0]

    def is_T(t):
        return isinstance(t, ast.Subscript) and dotted(t.value) == T

    # relevant locals: everything that flows into G or T
    rel = {G}
    changed = True
    stmts = [n for n in cfg.nodes if n.kind == "stmt" and isinstance(n.ast, (ast.Assign, ast.AugAssign))]
    while changed:
        changed = False
        for n in stmts:
            tg = n.ast.targets[0] if isinstance(n.ast, ast.Assign) else n.ast.target
            if (isinstance(tg, ast.Name) and tg.id in rel) or is_T(tg):
                for x in ast.walk(n.ast.value):
                    if isinstance(x, ast.Name) and x.id not in rel and any(isinstance(m.ast, (ast.Assign, ast.AugAssign)) and isinstance((m.ast.targets[0] if isinstance(m.ast, ast.Assign) else m.ast.target), ast.Name)
                                                                            and (m.ast.targets[0] if isinstance(m.ast, ast.Assign) else m.ast.target).id == x.id and H.id in cfg.enclosing_loops(m.id) for m in stmts):
                        rel.add(x.id)
                        changed = True
    # the early-termination test
    early_tests = {}
    for n in cfg.nodes:
        if n.kind == "test" and isinstance(n.ast, ast.If) and isinstance(n.ast.test, ast.Compare) and len(n.ast.test.ops) == 1 and isinstance(n.ast.test.ops[0], (ast.NotEq, ast.Eq, ast.Lt)):
            txt = ast.unparse(n.ast.test)
            if "return_queue" in txt and "scheduling_interval" in txt and "len(" in txt:
                early_tests[n.id] = not isinstance(n.ast.test.ops[0], ast.Eq)   # branch label that means `ran into the budget`
    ck.need(len(early_tests) == 1, f"{site}: cannot identify the early-termination test (len(return_queue) vs scheduling_interval); found {len(early_tests)}")
    POLYS = _PolyTable()
    g0 = Poly.atom("G0", {"G0"}, {"G0"})
    zero = Poly({})
    B = Poly.atom(budget, {budget}, {budget})

    def pack(env, dT, early):
        return (tuple(sorted((k, POLYS.put(v)) for k, v in env.items())), POLYS.put(dT), early)

    def unpack(st):
        return {k: POLYS.get(v) for k, v in st[0]}, POLYS.get(st[1]), st[2]
    stops = {S.id, H.id, cfg.exit} | {n.id for n in cfg.nodes if n.kind == "stmt" and isinstance(n.ast, ast.Return)}
    visited_nodes = set()

    def transfer(nid, succ, lab, st):
        n = cfg.nodes[nid]
        if st == "init":
            if nid != S.id:
                return None
            env0_ = {G: g0}
            # locals that hold a copy of the counter at the call (parameter copies of expanded helpers)
            scS = Scope(cfg, mi, {}, qual)
            gS = nf.name(G, scS, S.id).canon()
            for x_ in rel:
                if x_ != G:
                    try:
                        if nf.name(x_, scS, S.id).canon() == gS:
                            env0_[x_] = g0
                    except Exception:
                        pass
            return pack(env0_, zero, None)
        if nid in stops:
            return None
        visited_nodes.add(nid)
        env, dT, early = unpack(st)
        if nid in early_tests and lab in (True, False):
            early = (lab == early_tests[nid])
        s = n.ast
        if n.kind == "stmt" and isinstance(s, (ast.Assign, ast.AugAssign)):
            tg = s.targets[0] if isinstance(s, ast.Assign) else s.target
            tgs = s.targets if isinstance(s, ast.Assign) else [s.target]
            if any(is_T(t) for t in tgs) or any(isinstance(t, ast.Name) and t.id in rel for t in tgs):
                pe = sympath.PathEval(nf, cfg, mi, qual, env)
                v = pe.ev(s.value)
                if is_T(tg):
                    if not (isinstance(s, ast.AugAssign) and isinstance(s.op, (ast.Add, ast.Sub))):
                        raise AnalysisError(f"{site}: per-task totals are overwritten (`{short(s, 60)}`): accounting idiom not recognised")
                    dT = dT + v if isinstance(s.op, ast.Add) else dT - v
                else:
                    if isinstance(s, ast.AugAssign):
                        cur = env.get(tg.id, Poly.atom(tg.id, {tg.id}, {tg.id}))
                        v = nf._binop_polys(cur, v, s.op)
                    env = dict(env)
                    env[tg.id] = v
            elif any(isinstance(t, (ast.Tuple, ast.List)) and any(isinstance(e, ast.Name) and e.id in rel for e in t.elts) for t in tgs):
                t0 = tgs[0]
                if isinstance(s, ast.Assign) and len(tgs) == 1 and isinstance(s.value, (ast.Tuple, ast.List)) and len(s.value.elts) == len(t0.elts):
                    # element-wise `a, b = (x, y)` (e.g. produced by helper expansion)
                    pe = sympath.PathEval(nf, cfg, mi, qual, env)
                    vals = [pe.ev(v_) for v_ in s.value.elts]
                    env = dict(env)
                    for e_, v_ in zip(t0.elts, vals):
                        if isinstance(e_, ast.Name) and e_.id in rel:
                            env[e_.id] = v_
                else:
                    raise AnalysisError(f"{site}: `{short(s, 60)}` rebinds a step counter by unpacking: accounting idiom not recognised")
        return pack(env, dT, early)

    parent, problems = explore(cfg, "init", transfer, start=S.id, max_states=20000)
    pe0 = sympath.PathEval(nf, cfg, mi, qual, {})
    Q = pe0.ev(parse_expr("sum(env_with_stats.length_queue)"))
    ends = {}
    for key in parent:
        nid, st = key
        if st == "init" or nid not in stops:
            continue
        ends.setdefault((nid, st), key)
    ck.need(ends, f"{site}: no segment end reached from the train_st call")
    ck.count("R5-segment-states", len(parent))
    seen = set()
    for (nid, st), key in sorted(ends.items(), key=lambda kv: (kv[0][0], str(kv[0][1]))):
        env, dT, early = unpack(st)
        node = cfg.nodes[nid]
        kind = "next-call" if nid == S.id else "loop-header" if nid == H.id else "return"
        gend = env.get(G, g0)
        path = [k[0] for k in path_to(parent, key)]
        if early is None:
            sig = (kind, "unclassified")
            if sig not in seen:
                seen.add(sig)
                ck.ob("R5-scheduler", site, f"budget-exact:{kind}:classified", False, "a path from the single-task call to the next scheduling decision bypasses the early-termination test",
                      "the per-task totals cannot account for a call that ran into the budget on this path", loc(mi, node.ast) if node.ast is not None else loc(mi, fn), _compress(cfg, path))
            continue
        if not early:
            # the executed steps of a completed call are the recorded episode lengths: sum(<statistics wrapper>.length_queue); the
            # wrapper's local name is whatever the code (or an expanded helper) calls it
            import re as _re
            qa = sorted({a_ for p_ in (gend - g0, dT) for a_ in p_.atoms() if _re.match(r"^sum\(.*length_queue\)$", a_)})
            if len(qa) == 1:
                Q = Poly.atom(qa[0], {qa[0]}, {qa[0]})
            elif len(qa) > 1:
                raise AnalysisError(f"{site}: several episode-length sums {qa} in the step accounting (unrecognised idiom)")
            okg = (gend - g0 - Q).is_zero()
            okt = (dT - Q).is_zero()
            if not (okg and okt) and not _accounting_terms(gend - g0, dT, allowed={"G0", budget} | Q.atoms()):
                raise AnalysisError(f"{site}: after the single-task call the counters move by dG = {(gend - g0).canon()[:60]}, dT = {dT.canon()[:60]} (unrecognised form)")
            sig = (kind, "normal", (gend - g0).canon(), dT.canon())
            if sig in seen:
                continue
            seen.add(sig)
            ck.ob("R5-scheduler", site, f"budget-exact:{kind}:normal", okg and okt, f"dG = {(gend - g0).canon() or '0'}, dT = {dT.canon() or '0'} (Q = {Q.canon()})",
                  "" if okg and okt else f"after a call that finished its episodes the global counter and the per-task total must both advance by the recorded episode lengths Q = {Q.canon()}",
                  loc(mi, node.ast) if node.ast is not None else loc(mi, fn), None if okg and okt else _compress(cfg, path))
        else:
            okt = (g0 + dT - B).is_zero()
            if not (okt and (gend - B).is_zero()) and not _accounting_terms(gend, dT, allowed={"G0", budget} | Q.atoms() | {a_ for a_ in (gend - g0).atoms() | dT.atoms() if a_.startswith("sum(") and a_.endswith("length_queue)")}):
                raise AnalysisError(f"{site}: after a call that ran into the budget the counters are G = {gend.canon()[:60]}, dT = {dT.canon()[:60]} (unrecognised form)")
            ret_uses_g = node.kind == "stmt" and isinstance(node.ast, ast.Return) and node.ast.value is not None and any(isinstance(x, ast.Name) and x.id == G for x in ast.walk(node.ast.value))
            needs_g = kind in ("next-call", "loop-header") or ret_uses_g
            okg = (gend - B).is_zero() or not needs_g
            sig = (kind, "early", gend.canon(), dT.canon())
            if sig in seen:
                continue
            seen.add(sig)
            ck.ob("R5-scheduler", site, f"budget-exact:{kind}:early", okg and okt, f"G = {gend.canon()}, G0 + dT = {(g0 + dT).canon()} (budget {budget})",
                  "" if okg and okt else (f"a call that ran into the budget executed {budget} - G0 steps: the per-task totals must grow by exactly that (G0 + dT == {budget})" if not okt else f"after the budget is exhausted the global counter must equal {budget} (it is {gend.canon()}): the scheduler would overrun or report a wrong count"),
                  loc(mi, node.ast) if node.ast is not None else loc(mi, fn), None if okg and okt else _compress(cfg, path))
    # every write of the counters inside the scheduler loop lies on an analysed segment
    body = cfg.loop_body_nodes(H.id)
    for n in stmts:
        if n.id not in body:
            continue
        tg = n.ast.targets[0] if isinstance(n.ast, ast.Assign) else n.ast.target
        if (isinstance(tg, ast.Name) and tg.id == G) or is_T(tg):
            ok = n.id in visited_nodes
            ck.ob("R5-scheduler", site, f"budget-exact:write-on-segment:{short(n.ast, 40)}", ok, f"`{short(n.ast, 60)}` follows the single-task call", "" if ok else "a counter is modified before the single-task call of its iteration: not covered by the executed-steps accounting", loc(mi, n.ast))


def _accounting_terms(*polys, allowed) -> bool:
    """The counters are polynomials over the documented quantities only (starting count, recorded episode lengths, budget): a wrong
    value is then a wrong value, not something this analysis failed to read."""
    return all(not _unread(p_) and p_.atoms() <= set(allowed) for p_ in polys)


def _stable(txt):
    """Finding keys must not contain CFG node numbers (φ atoms carry them)."""
    import re
    return re.sub(r"@[0-9,]+", "", txt)


class _PolyTable:
    def __init__(self):
        self.by_txt = {}

    def put(self, p: Poly) -> str:
        t = p.canon()
        self.by_txt[t] = p
        return t

    def get(self, t: str) -> Poly:
        return self.by_txt[t]


# ---------------------------------------------------------------------------------------------------
def run(ck, repo: Repo, tier: str):
    cfgs = {}
    _ADDED_OPTIONS.clear()
    _ADDED_OPTIONS.update((q_, p_) for q_, p_, _d in getattr(repo, "specialised", []))
    res = Resolver(repo)
    nf = NF(repo)
    # every environment loop is its own group: a loop written in a form the loop reader does not read leaves the others judged
    loops, unread_loops = {}, set()
    for q in ENV_LOOPS:
        L_ = ck.guard(_find_env_loop, repo, q, cfgs)
        if L_ is None:
            unread_loops.add(q)
        else:
            L_._repo = repo
            loops[q] = L_
    ck.floor("env-loops", len(loops) + len(unread_loops), 21)
    seeds, learn_set = learners(repo, res)
    ck.floor("update-routines", len(seeds), 12)
    ck.extra["update_routines"] = sorted(seeds)
    ck.extra["call_graph"] = dict(res.cg_stats)
    for q in COUNTER_ROUTINES:
        if q in loops:
            ck.guard(r1_count, ck, repo, loops[q], "global_step")
    ck.floor("counter-routines", len(COUNTER_ROUTINES), 9)
    for q in STEP_BUDGET:
        if q in loops:
            ck.guard(r2_budget, ck, repo, loops[q])
    for q, L in loops.items():
        ck.guard(r2_episodes, ck, repo, L)
        if q not in VECTOR_LOOPS:
            ck.guard(r3_done_reset, ck, repo, L)
        if q in STEP_BUDGET:
            ck.guard(r4_warmup, ck, repo, L, res, learn_set)
    ck.note("batch collectors (reinforce.sample_trajectories, a2c/ppo collect_trajectories) check their budget once per batch by documented design: no R2 verdict")
    ck.guard(r5_selectors, ck, repo)
    ck.guard(r5_ducb, ck, repo, nf)
    ck.guard(r5_ducb_mean, ck, repo, nf)
    ck.guard(r5_ducb_play_counter, ck, repo)
    for q, b in MT_LOOPS.items():
        b = _role_param(repo.func(q), q, b) or b
        ck.guard(r5_budget_symbolic, ck, repo, nf, q, b)
        if not q.endswith("train_uts"):
            ck.guard(r5_budget_exact, ck, repo, nf, q, b)


# ---- self-validation variants (thorough tier) ------------------------------------------------------------
_A = "rl_blox/algorithm/"
MUTANTS = [
    {"id": "c11-ducb-history-cut-back-with-del", "file": "rl_blox/blox/mapb.py", "rule": "R5", "find": '        self.rewards.append(r)\n        self._episode_finished()\n', "replace": '        self.rewards.append(r)\n        del self.rewards[:-400]\n        del self.chosen_arms[:-400]\n        self._episode_finished()\n'},
    {"id": "c11-amt-warm-up-relative-to-task", "file": _A + "active_mt.py", "rule": "R5", "find": '            learning_starts=learning_starts,\n            total_timesteps=total_timesteps,\n', "replace": '            learning_starts=max(0, learning_starts - training_steps[task_id]),\n            total_timesteps=total_timesteps,\n'},
    {"id": "c11-amt-warm-up-minus-global", "file": _A + "active_mt.py", "rule": "R5", "find": '            learning_starts=learning_starts,\n            total_timesteps=total_timesteps,\n', "replace": '            learning_starts=learning_starts - global_step,\n            total_timesteps=total_timesteps,\n'},
    {"id": "c11-td3-guard-le", "file": _A + "td3.py", "rule": "R2-budget", "find": "    while step < total_timesteps:", "replace": "    while step <= total_timesteps:"},
    {"id": "c11-td3-double-inc", "file": _A + "td3.py", "rule": "R1", "find": "        bar.update()\n        step += 1\n", "replace": "        bar.update()\n        step += 1\n        if termination:\n            step += 1\n"},
    {"id": "c11-td3-return-minus-one", "file": _A + "td3.py", "rule": "R1", "find": "        replay_buffer,\n        step,\n    )", "replace": "        replay_buffer,\n        step - 1,\n    )"},
    {"id": "c11-td3-break-before-inc", "file": _A + "td3.py", "rule": "R1", "find": "                step += 1\n                break\n", "replace": "                break\n"},
    {"id": "c11-td3-reset-on-terminated-only", "file": _A + "td3.py", "rule": "R3", "find": "        if termination or truncated:\n            if logger is not None:\n                logger.record_stat(\"return\"", "replace": "        if termination:\n            if logger is not None:\n                logger.record_stat(\"return\""},
    {"id": "c11-td3-gate-gt", "file": _A + "td3.py", "rule": "R4", "find": "        if step >= learning_starts:\n            for _ in range(gradient_steps):", "replace": "        if step >= batch_size:\n            for _ in range(gradient_steps):"},
    {"id": "c11-td3-episodes-gt", "file": _A + "td3.py", "rule": "R2-episodes", "find": "episode_idx >= total_episodes", "replace": "episode_idx > total_episodes"},
    {"id": "c11-td3-episodes-inc-after", "file": _A + "td3.py", "rule": "R2-episodes", "find": "            episode_idx += 1\n            if total_episodes is not None and episode_idx >= total_episodes:\n                step += 1\n                break\n",
     "replace": "            if total_episodes is not None and episode_idx >= total_episodes:\n                step += 1\n                break\n            episode_idx += 1\n"},
    {"id": "c11-sac-continue-skips-inc", "file": _A + "sac.py", "rule": "R1", "find": "        else:\n            obs = next_obs\n\n        progress.update()\n        step += 1\n", "replace": "        else:\n            obs = next_obs\n            if step < learning_starts:\n                continue\n\n        progress.update()\n        step += 1\n"},
    {"id": "c11-ddpg-return-plus1", "file": _A + "ddpg.py", "rule": "R1", "find": "        replay_buffer,\n        steps_trained,\n    )", "replace": "        replay_buffer,\n        global_step + 1,\n    )"},
    {"id": "c11-dqn-return-plus1", "file": _A + "dqn.py", "rule": "R1", "find": ")(q_net, optimizer, replay_buffer, step)", "replace": ")(q_net, optimizer, replay_buffer, step + 1)"},
    {"id": "c11-nature-gate-batch-only", "file": _A + "nature_dqn.py", "rule": "R4", "find": "        if step >= learning_starts and step > batch_size:", "replace": "        if step > batch_size:"},
    {"id": "c11-per-gate-or", "file": _A + "per.py", "rule": "R4", "find": "        if step >= learning_starts and step > batch_size:", "replace": "        if step >= learning_starts or step > batch_size:"},
    {"id": "c11-rollout-precedence", "file": "rl_blox/util/experiment_helper.py", "rule": "R3", "find": "while not (terminated or truncated):", "replace": "while not terminated or truncated:"},
    {"id": "c11-mrq-no-reset", "file": _A + "mrq.py", "rule": "R3", "find": "            obs, _ = env.reset()\n            steps_per_episode = 0\n            accumulated_reward = 0.0\n        else:\n            obs = next_obs\n\n        progress.update()", "replace": "            steps_per_episode = 0\n            accumulated_reward = 0.0\n        obs = next_obs\n\n        progress.update()"},
    {"id": "c11-cmaes-done-on-termination-only", "file": _A + "cmaes.py", "rule": "R", "find": "            done = termination or truncation", "replace": "            done = termination"},
    {"id": "c11-selector-no-super", "file": "rl_blox/blox/multitask.py", "rule": "R5", "find": "    def select(self) -> int:\n        super().select()\n        self.i += 1", "replace": "    def select(self) -> int:\n        self.i += 1"},
    {"id": "c11-selector-feedback-early-return", "file": "rl_blox/blox/multitask.py", "rule": "R5", "find": "            self.ducb.chosen_arms = self.ducb.chosen_arms[:-1]\n", "replace": "            self.ducb.chosen_arms = self.ducb.chosen_arms[:-1]\n            self.last_rewards[self.chosen_arm].append(reward)\n            return\n"},
    {"id": "c11-selector-raw-index", "file": "rl_blox/blox/multitask.py", "rule": "R5", "find": "        return self.tasks[self.i % len(self.tasks)]", "replace": "        return self.i % len(self.tasks)"},
    {"id": "c11-ducb-init-rounds", "file": "rl_blox/blox/mapb.py", "rule": "R5", "find": "        if len(self.rewards) < 2 * self.n_arms:", "replace": "        if len(self.rewards) < self.n_arms - 1:"},
    {"id": "c11-ducb-recurrence-vs-window", "file": "rl_blox/blox/mapb.py", "rule": "R5", "find": "        self.discounted_frequencies[:] = 0.0\n        t = len(self.chosen_arms)\n        for s in range(max(0, t - 250), t):\n            self.discounted_frequencies[self.chosen_arms[s]] += self.gamma ** (\n                t - 1 - s\n            )\n", "replace": "        self.discounted_frequencies *= self.gamma\n        self.discounted_frequencies[self.chosen_arms[-1]] += 1.0\n"},
    {"id": "c11-ducb-numerator-window", "file": "rl_blox/blox/mapb.py", "rule": "R5", "find": "                for s in range(max(0, t - 250), t)\n", "replace": "                for s in range(max(0, t - 100), t)\n"},
    {"id": "c11-ducb-weight-offset", "file": "rl_blox/blox/mapb.py", "rule": "R5", "find": "                self.gamma ** (t - 1 - s) * self.rewards[s]", "replace": "                self.gamma ** (t - s) * self.rewards[s]"},
    {"id": "c11-ducb-mean-unnormalised", "file": "rl_blox/blox/mapb.py", "rule": "R5", "find": "        return discounted_rewards / self.discounted_frequencies[arm_idx]", "replace": "        return discounted_rewards / self.total_frequency"},
    {"id": "c11-ducb-padding-no-log", "file": "rl_blox/blox/mapb.py", "rule": "R5", "find": "                * np.log(self.total_frequency)\n", "replace": "                * self.total_frequency\n"},
    {"id": "c11-ducb-frequency-wrong-arm", "file": "rl_blox/blox/mapb.py", "rule": "R5", "find": "            self.discounted_frequencies[self.chosen_arms[s]] += self.gamma ** (", "replace": "            self.discounted_frequencies[self.chosen_arms[t - 1 - s]] += self.gamma ** ("},
    {"id": "c11-ducb-minus-padding", "file": "rl_blox/blox/mapb.py", "rule": "R5", "find": "            ducb = mean + padding", "replace": "            ducb = mean - padding"},
    {"id": "c11-ducb-argmin", "file": "rl_blox/blox/mapb.py", "rule": "R5", "find": "            arm_idx = np.argmax(ducb)", "replace": "            arm_idx = np.argmin(ducb)"},
    {"id": "c11-smt-early-overshoot", "file": _A + "smt.py", "rule": "R5", "nth": 0, "find": "            steps = sum(env_with_stats.length_queue)\n            training_steps[task_id] += steps\n            global_step += steps\n            progress.update(steps)\n\n            if len(env_with_stats.return_queue) != scheduling_interval:\n                # early termination because we reached step limit\n                unlogged_steps = b1 - global_step\n                global_step = b1\n                training_steps[task_id] += unlogged_steps\n                progress.update(unlogged_steps)\n",
     "replace": "            steps = sum(env_with_stats.length_queue)\n            if len(env_with_stats.return_queue) != scheduling_interval:\n                steps += b1 - global_step\n            training_steps[task_id] += steps\n            global_step += steps\n            progress.update(steps)\n"},
    {"id": "c11-amt-early-counts-from-zero", "file": _A + "active_mt.py", "rule": "R5", "find": "            unlogged_steps = total_timesteps - global_step\n", "replace": "            unlogged_steps = total_timesteps - sum(env_with_stats.length_queue)\n"},
    {"id": "c11-smt2-early-keeps-counter", "file": _A + "smt.py", "rule": "R5", "find": "                unlogged_steps = b_total - global_step\n                global_step = b_total\n", "replace": "                unlogged_steps = b_total - global_step\n"},
    {"id": "c11-smt-double-count", "file": _A + "smt.py", "rule": "R5", "nth": 0, "find": "                unlogged_steps = b1 - global_step\n                global_step = b1\n", "replace": "                global_step = b1\n                unlogged_steps = b1 - global_step\n"},
    {"id": "c11-smt-missing-task-steps", "file": _A + "smt.py", "rule": "R5", "find": "            steps = sum(env_with_stats.length_queue)\n            training_steps[task_id] += steps\n            global_step += steps\n            progress.update(steps)\n\n            if len(env_with_stats.return_queue) != scheduling_interval:\n                # early termination because we reached step limit\n                unlogged_steps = b_total - global_step",
     "replace": "            steps = sum(env_with_stats.length_queue)\n            global_step += steps\n            progress.update(steps)\n\n            if len(env_with_stats.return_queue) != scheduling_interval:\n                # early termination because we reached step limit\n                unlogged_steps = b_total - global_step"},
    {"id": "c11-amt-wrong-budget", "file": _A + "active_mt.py", "rule": "R5", "find": "            total_timesteps=total_timesteps,\n            total_episodes=scheduling_interval,", "replace": "            total_timesteps=total_timesteps + global_step,\n            total_episodes=scheduling_interval,"},
    {"id": "c11-amt-guard-le", "file": _A + "active_mt.py", "rule": "R2", "find": "    while global_step < total_timesteps:", "replace": "    while global_step <= total_timesteps:"},
    {"id": "c11-uts-counter-not-passed", "file": _A + "uniform_task_sampling.py", "rule": "R5", "find": "            global_step=global_step,\n", "replace": "            global_step=0,\n"},
    {"id": "c11-qlearning-two-steps", "file": _A + "q_learning.py", "rule": "R2", "find": "        next_action = greedy_policy(q_table, next_observation)\n", "replace": "        next_action = greedy_policy(q_table, next_observation)\n        if epsilon > 1.0:\n            env.step(int(next_action))\n"},
    # violation paths of the semantically read rules (audit): each one differs from a BENIGN entry below only by the behaviour
    {"id": "c11-td3-guard-in-body-le", "file": _A + "td3.py", "rule": "R2-budget", "find": "    while step < total_timesteps:\n", "replace": "    while True:\n        if step > total_timesteps:\n            break\n"},
    {"id": "c11-td3-guard-arith-le", "file": _A + "td3.py", "rule": "R2-budget", "find": "    while step < total_timesteps:", "replace": "    while step <= total_timesteps + 1:"},
    {"id": "c11-qlearning-range-plus1", "file": _A + "q_learning.py", "rule": "R2-budget", "find": "    for i in trange(total_timesteps, disable=not progress_bar):", "replace": "    for i in trange(total_timesteps + 1, disable=not progress_bar):"},
    {"id": "c11-td3-step-repeated-in-inner-loop", "file": _A + "td3.py", "rule": "R2-budget", "find": "        next_obs, reward, termination, truncated, info = env.step(action)\n        steps_per_episode += 1\n", "replace": "        for _repeat in range(2):\n            next_obs, reward, termination, truncated, info = env.step(action)\n        steps_per_episode += 1\n"},
    {"id": "c11-td3-done-flag-terminated-only", "file": _A + "td3.py", "rule": "R3", "find": "        if termination or truncated:\n            if logger is not None:\n                logger.record_stat(\"return\"", "replace": "        done = bool(termination)\n        if done:\n            if logger is not None:\n                logger.record_stat(\"return\""},
    {"id": "c11-td3-gate-five-early", "file": _A + "td3.py", "rule": "R4", "find": "        if step >= learning_starts:\n            for _ in range(gradient_steps):", "replace": "        if step + 5 >= learning_starts:\n            for _ in range(gradient_steps):"},
    {"id": "c11-td3-episodes-lt", "file": _A + "td3.py", "rule": "R2-episodes", "find": "episode_idx >= total_episodes", "replace": "episode_idx < total_episodes"},
    {"id": "c11-td3-episodes-gt-from-zero", "file": _A + "td3.py", "rule": "R2-episodes", "find": "episode_idx >= total_episodes", "replace": "episode_idx + 1 > total_episodes + 1"},
    {"id": "c11-td3-limit-tested-when-not-done", "file": _A + "td3.py", "rule": "R2-episodes", "find": "            episode_idx += 1\n            if total_episodes is not None and episode_idx >= total_episodes:\n                step += 1\n                break\n            if logger is not None:\n                logger.start_new_episode()\n            obs, _ = env.reset()\n            steps_per_episode = 0\n            accumulated_reward = 0.0\n        else:\n            obs = next_obs\n",
     "replace": "            episode_idx += 1\n            if logger is not None:\n                logger.start_new_episode()\n            obs, _ = env.reset()\n            steps_per_episode = 0\n            accumulated_reward = 0.0\n        else:\n            if total_episodes is not None and episode_idx >= total_episodes:\n                step += 1\n                break\n            obs = next_obs\n"},
    {"id": "c11-protocol-flag-not-flipped", "file": "rl_blox/blox/multitask.py", "rule": "R5", "find": "        self.waiting_for_reward = True\n", "replace": "        self.waiting_for_reward = False\n"},
    {"id": "c11-protocol-assert-inverted", "file": "rl_blox/blox/multitask.py", "rule": "R5", "find": "        assert self.waiting_for_reward, \"Cannot assign reward to any target\"\n", "replace": "        assert not self.waiting_for_reward, \"Cannot assign reward to any target\"\n"},
    {"id": "c11-protocol-assert-dropped", "file": "rl_blox/blox/multitask.py", "rule": "R5", "find": "        assert self.waiting_for_reward, \"Cannot assign reward to any target\"\n", "replace": ""},
    {"id": "c11-selector-local-raw-index", "file": "rl_blox/blox/multitask.py", "rule": "R5", "find": "        return self.tasks[self.chosen_arm]", "replace": "        n_tasks = len(self.tasks)\n        selected = self.i % n_tasks\n        return selected"},
    {"id": "c11-amt-subcall-without-budget", "file": _A + "active_mt.py", "rule": "R5", "find": "            total_timesteps=total_timesteps,\n            total_episodes=scheduling_interval,", "replace": "            total_episodes=scheduling_interval,"},
    {"id": "c11-ducb-numerator-unfiltered", "file": "rl_blox/blox/mapb.py", "rule": "R5", "find": "                if self.chosen_arms[s] == arm_idx\n", "replace": ""},
    {"id": "c11-ducb-refresh-before-reward", "file": "rl_blox/blox/mapb.py", "rule": "R5", "find": "        self.rewards.append(r)\n        self._episode_finished()", "replace": "        self._episode_finished()\n        self.rewards.append(r)"},
    {"id": "c11-ducb-choice-not-recorded", "file": "rl_blox/blox/mapb.py", "rule": "R5", "find": "        self.chosen_arms.append(arm_idx)\n        return arm_idx", "replace": "        return arm_idx"},
    {"id": "c11-ducb-round-robin-modulus", "file": "rl_blox/blox/mapb.py", "rule": "R5", "find": "            arm_idx = len(self.rewards) % self.n_arms", "replace": "            arm_idx = len(self.rewards) % (self.n_arms + 1)"},
    {"id": "c11-ducb-argmax-of-mean-only", "file": "rl_blox/blox/mapb.py", "rule": "R5", "find": "            ducb = mean + padding", "replace": "            ducb = mean"},
    {"id": "c11-ducb-threshold-le", "file": "rl_blox/blox/mapb.py", "rule": "R5", "find": "        if len(self.rewards) < 2 * self.n_arms:", "replace": "        if len(self.rewards) <= 2 * self.n_arms:"},
    # result records written with keyword arguments / a record type bound first / returned through a local (read by field order of the type)
    {"id": "c11-dqn-result-keyword-plus1", "file": _A + "dqn.py", "rule": "R1", "find": ")(q_net, optimizer, replay_buffer, step)", "replace": ")(q_net, optimizer, replay_buffer=replay_buffer, global_step=step + 1)"},
    {"id": "c11-dqn-result-type-first-minus1", "file": _A + "dqn.py", "rule": "R1", "find": "    return namedtuple(\n        \"DQNResult\", [\"q_net\", \"optimizer\", \"replay_buffer\", \"global_step\"]\n    )(q_net, optimizer, replay_buffer, step)",
     "replace": "    DQNResult = namedtuple(\n        \"DQNResult\", [\"q_net\", \"optimizer\", \"replay_buffer\", \"global_step\"]\n    )\n    outcome = DQNResult(global_step=step - 1, q_net=q_net, optimizer=optimizer, replay_buffer=replay_buffer)\n    return outcome"},
    {"id": "c11-ddpg-range-from-alias-plus1", "file": _A + "ddpg.py", "rule": "R1", "edits": [("    steps_trained = global_step\n    for global_step in trange(\n        global_step, total_timesteps", "    first_step = global_step + 1\n    steps_trained = first_step\n    for global_step in trange(\n        global_step, total_timesteps")]},
    # scheduler budget guard written as a guard clause
    {"id": "c11-uts-guard-in-body-gt", "file": _A + "uniform_task_sampling.py", "rule": "R2", "find": "    while global_step < total_timesteps:\n", "replace": "    while True:\n        if global_step > total_timesteps:\n            break\n"},
    {"id": "c11-amt-guard-in-body-gt", "file": _A + "active_mt.py", "rule": "R2", "find": "    while global_step < total_timesteps:\n", "replace": "    while True:\n        if not global_step <= total_timesteps:\n            break\n"},
    # episode-end flag computed from the fields of an immutable record that carries this step's results
    {"id": "c11-td3-record-flag-terminated-only", "file": _A + "td3.py", "rule": "R3", "edits": [("def sample_target_actions(", "class _StepOutcome(NamedTuple):\n    ended: bool\n    cut: bool\n\n\ndef sample_target_actions("),
        ("        if termination or truncated:\n            if logger is not None:\n                logger.record_stat(\"return\"", "        outcome = _StepOutcome(ended=termination, cut=truncated)\n        done = outcome.ended\n        if done:\n            if logger is not None:\n                logger.record_stat(\"return\"")]},
    # the container whose length counts the plays of D-UCB saturates at a bound that does not depend on the number of arms
    {"id": "c11-ducb-rewards-bounded-deque", "file": "rl_blox/blox/mapb.py", "rule": "R5", "edits": [("import numpy as np\n", "import collections\n\nimport numpy as np\n"), ("        self.rewards = []\n", "        self.rewards = collections.deque([], 500)\n")]},
    {"id": "c11-ducb-rewards-bounded-by-discount", "file": "rl_blox/blox/mapb.py", "rule": "R5", "edits": [("import numpy as np\n", "from collections import deque\n\nimport numpy as np\n"), ("        self.rewards = []\n", "        memory = int(10.0 / (1.0 - gamma)) if gamma < 1.0 else None\n        self.rewards = deque(maxlen=memory)\n")]},
    {"id": "c11-ducb-rewards-truncated-by-holder", "file": "rl_blox/blox/multitask.py", "rule": "R5", "find": "            self.ducb.chosen_arms = self.ducb.chosen_arms[:-1]\n", "replace": "            self.ducb.chosen_arms = self.ducb.chosen_arms[:-1]\n            self.ducb.rewards = self.ducb.rewards[-100:]\n"},
    {"id": "c11-ducb-histories-tuple-assign-bounded", "file": "rl_blox/blox/mapb.py", "rule": "R5", "edits": [("import numpy as np\n", "from collections import deque\n\nimport numpy as np\n\n_MEMORY = 4 * 64\n"), ("        self.chosen_arms = []\n        self.rewards = []\n", "        self.chosen_arms, self.rewards = deque(maxlen=_MEMORY), deque(maxlen=_MEMORY)\n")]},
    {"id": "c11-td3-counter-from-start-copy-plus1", "file": _A + "td3.py", "rule": "R1", "find": "    step = global_step\n", "replace": "    first_step = global_step + 1\n    step = first_step\n"},
    {"id": "c11-ducb-rewards-truncated", "file": "rl_blox/blox/mapb.py", "rule": "R5", "find": "        self.rewards.append(r)\n", "replace": "        self.rewards.append(r)\n        self.rewards = self.rewards[-int(5.0 / (1.0 - self.gamma)):]\n"},
    # the env.step result kept whole in one variable / handed to a five-field record and taken apart later: the five positions are read element-wise
    {"id": "c11-qlearning-whole-result-reset-on-terminated-only", "file": _A + "q_learning.py", "rule": "R3", "edits": [("        next_observation, reward, terminated, truncated, info = env.step(\n            int(action)\n        )\n", "        outcome = env.step(int(action))\n        next_observation, reward, terminated, truncated, info = outcome\n"),
        ("        if terminated or truncated:\n            if logger is not None:\n                logger.record_stat(\"return\", info", "        if terminated:\n            if logger is not None:\n                logger.record_stat(\"return\", info")]},
    {"id": "c11-sarsa-sliced-result-reset-on-position-2-only", "file": _A + "sarsa.py", "rule": "R3", "edits": [("        next_observation, reward, terminated, truncated, info = env.step(\n            int(action)\n        )\n", "        res = env.step(int(action))\n        next_observation, reward = res[:2]\n        terminated, truncated = res[2], res[3]\n        info = res[-1]\n"),
        ("        if terminated or truncated:\n", "        if res[2]:\n")]},
    {"id": "c11-td3-record-from-starred-step-done-is-cut-only", "file": _A + "td3.py", "rule": "R3", "edits": [("def sample_target_actions(", "class _Outcome(NamedTuple):\n    successor: np.ndarray\n    payoff: float\n    ended: bool\n    cut: bool\n    extras: dict\n\n\ndef sample_target_actions("),
        ("        next_obs, reward, termination, truncated, info = env.step(action)\n", "        outcome = _Outcome(*env.step(action))\n        next_obs, reward = outcome.successor, outcome.payoff\n        termination = outcome.ended\n        truncated = outcome.cut\n"),
        ("        if termination or truncated:\n            if logger is not None:\n                logger.record_stat(\"return\"", "        if outcome.cut:\n            if logger is not None:\n                logger.record_stat(\"return\"")]},
    # a gradient transformation built once at module level: the routine that calls it and steps the optimizer is still an update routine
    {"id": "c11-ddpg-module-level-grad-ungated-actor-update", "file": _A + "ddpg.py", "rule": "R4", "edits": [("@nnx.jit\ndef ddpg_update_actor(", "_dpg_value_and_grad = nnx.value_and_grad(\n    deterministic_policy_gradient_loss, argnums=2\n)\n_actor_objective_grad = _dpg_value_and_grad\n\n\n@nnx.jit\ndef ddpg_update_actor("),
        ("    actor_loss_value, grads = nnx.value_and_grad(\n        deterministic_policy_gradient_loss, argnums=2\n    )(q, observation, policy)\n", "    actor_loss_value, grads = _actor_objective_grad(q, observation, policy)\n"),
        ("            termination=termination,\n        )\n\n        if global_step >= learning_starts:\n", "            termination=termination,\n        )\n        ddpg_update_actor(policy, policy_optimizer, q, jnp.asarray(obs)[None])\n\n        if global_step >= learning_starts:\n")]},
    # the play count read through locals (count -> plays -> branch) of a container bounded independently of the arms
    {"id": "c11-ducb-count-through-locals-bounded-deque", "file": "rl_blox/blox/mapb.py", "rule": "R5", "edits": [("import numpy as np\n", "from collections import deque\n\nimport numpy as np\n"), ("        self.rewards = []\n", "        self.rewards = deque(maxlen=256)\n"),
        ("        if len(self.rewards) < 2 * self.n_arms:\n            arm_idx = len(self.rewards) % self.n_arms", "        history_length = len(self.rewards)\n        n_plays = int(history_length)\n        if n_plays < 2 * self.n_arms:\n            arm_idx = n_plays % self.n_arms")]},
]
BENIGN = [
    # an option added later that happens to carry the role name of other trainers' warm-up parameter; None = "the batch size, as before"
    {"id": "c11-b-dqn-learning-starts-option", "file": _A + "dqn.py", "edits": [
        ("    bar: tqdm = None,\n) -> tuple[MLP, nnx.Optimizer]:\n    \"\"\"Deep Q Learning with Experience Replay", "    bar: tqdm = None,\n    learning_starts: int | None = None,\n) -> tuple[MLP, nnx.Optimizer]:\n    \"\"\"Deep Q Learning with Experience Replay"),
        ("        if step > batch_size:", "        if step > (batch_size if learning_starts is None else learning_starts):")]},
    {"id": "c11-b-amt-warm-up-int", "file": _A + "active_mt.py", "find": '            learning_starts=learning_starts,\n            total_timesteps=total_timesteps,\n', "replace": '            learning_starts=int(learning_starts),\n            total_timesteps=total_timesteps,\n'},
    {"id": "c11-b-td3-rename-counter", "file": _A + "td3.py", "all": True, "find": "episode_idx", "replace": "n_episodes_done"},
    {"id": "c11-b-td3-inc-before-bar", "file": _A + "td3.py", "find": "        bar.update()\n        step += 1\n", "replace": "        step += 1\n        bar.update()\n"},
    {"id": "c11-b-td3-flipped-guard", "file": _A + "td3.py", "find": "    while step < total_timesteps:", "replace": "    while total_timesteps > step:"},
    {"id": "c11-b-td3-gate-flipped", "file": _A + "td3.py", "find": "        if step >= learning_starts:\n            for _ in range(gradient_steps):", "replace": "        if learning_starts <= step:\n            for _ in range(gradient_steps):"},
    {"id": "c11-b-nature-episode-from-zero", "file": _A + "nature_dqn.py", "find": "    episode = 1\n    accumulated_reward = 0.0\n\n    step = global_step", "replace": "    episode = 1\n    accumulated_reward = 0.0\n    n_updates = 0\n\n    step = global_step"},
    {"id": "c11-b-sac-done-var", "file": _A + "sac.py", "find": "        if termination or truncation:\n            if logger is not None:\n                logger.record_stat(\"return\"", "replace": "        done = termination or truncation\n        if done:\n            if logger is not None:\n                logger.record_stat(\"return\""},
    {"id": "c11-b-ddpg-gate-extra", "file": _A + "ddpg.py", "find": "        if global_step >= learning_starts:\n            for _ in range(gradient_steps):", "replace": "        if global_step >= learning_starts and len(replay_buffer) >= batch_size:\n            for _ in range(gradient_steps):"},
    {"id": "c11-b-rollout-done-var", "file": "rl_blox/util/experiment_helper.py", "find": "    while not (terminated or truncated):", "replace": "    while not terminated and not truncated:"},
    {"id": "c11-b-smt-early-one-shot", "file": _A + "smt.py", "nth": 0, "find": "            steps = sum(env_with_stats.length_queue)\n            training_steps[task_id] += steps\n            global_step += steps\n            progress.update(steps)\n\n            if len(env_with_stats.return_queue) != scheduling_interval:\n                # early termination because we reached step limit\n                unlogged_steps = b1 - global_step\n                global_step = b1\n                training_steps[task_id] += unlogged_steps\n                progress.update(unlogged_steps)\n",
     "replace": "            steps = sum(env_with_stats.length_queue)\n            if len(env_with_stats.return_queue) != scheduling_interval:\n                steps = b1 - global_step\n            training_steps[task_id] += steps\n            global_step += steps\n            progress.update(steps)\n"},
    {"id": "c11-b-ducb-window-300", "file": "rl_blox/blox/mapb.py", "edits": [("                for s in range(max(0, t - 250), t)\n", "                for s in range(max(0, t - 300), t)\n"), ("        for s in range(max(0, t - 250), t):\n", "        for k in range(max(0, t - 300), t):\n"), ("            self.discounted_frequencies[self.chosen_arms[s]] += self.gamma ** (\n                t - 1 - s\n            )", "            self.discounted_frequencies[self.chosen_arms[k]] += self.gamma ** (\n                t - k - 1\n            )")]},
    {"id": "c11-b-smt-steps-local", "file": _A + "smt.py", "nth": 0, "find": "            steps = sum(env_with_stats.length_queue)\n            training_steps[task_id] += steps\n            global_step += steps\n", "replace": "            steps = sum(env_with_stats.length_queue)\n            global_step += steps\n            training_steps[task_id] += steps\n"},
    # the same behaviour written differently (audit): comparisons by arithmetic / orientation / alias, flags through value-transparent wrappers,
    # locals, guard clauses, explicit base calls, a method moved to a mixin, renamed locals
    {"id": "c11-b-td3-guard-arith", "file": _A + "td3.py", "find": "    while step < total_timesteps:", "replace": "    while step + 1 <= total_timesteps:"},
    {"id": "c11-b-td3-guard-in-body", "file": _A + "td3.py", "find": "    while step < total_timesteps:\n", "replace": "    while True:\n        if step >= total_timesteps:\n            break\n"},
    {"id": "c11-b-td3-guard-alias", "file": _A + "td3.py", "find": "    while step < total_timesteps:", "replace": "    budget = int(total_timesteps)\n    while budget - step > 0:"},
    {"id": "c11-b-qlearning-range-alias", "file": _A + "q_learning.py", "find": "    for i in trange(total_timesteps, disable=not progress_bar):", "replace": "    n_steps = int(total_timesteps)\n    for i in trange(0, n_steps, disable=not progress_bar):"},
    {"id": "c11-b-td3-counter-reassigned", "file": _A + "td3.py", "edits": [("    step = global_step\n", "    step = int(global_step)\n"), ("        bar.update()\n        step += 1\n", "        bar.update()\n        step = 1 + step\n")]},
    {"id": "c11-b-td3-gate-arith", "file": _A + "td3.py", "find": "        if step >= learning_starts:\n            for _ in range(gradient_steps):", "replace": "        warmup_steps = int(learning_starts)\n        if step - warmup_steps >= 0:\n            for _ in range(gradient_steps):"},
    {"id": "c11-b-td3-gate-trip-count", "file": _A + "td3.py", "find": "        if step >= learning_starts:\n            for _ in range(gradient_steps):", "replace": "        n_updates = gradient_steps if step + 1 > learning_starts else 0\n        if True:\n            for _ in range(n_updates):"},
    {"id": "c11-b-td3-done-bool", "file": _A + "td3.py", "find": "        if termination or truncated:\n            if logger is not None:\n                logger.record_stat(\"return\"", "replace": "        done = bool(termination | truncated)\n        if done:\n            if logger is not None:\n                logger.record_stat(\"return\""},
    {"id": "c11-b-sac-done-logical-or", "file": _A + "sac.py", "find": "        if termination or truncation:\n            if logger is not None:\n                logger.record_stat(\"return\"", "replace": "        episode_over = bool(np.logical_or(termination, truncation))\n        if episode_over:\n            if logger is not None:\n                logger.record_stat(\"return\""},
    {"id": "c11-b-td3-episodes-gt-from-one", "file": _A + "td3.py", "edits": [("    episode_idx = 0\n", "    episode_idx = 1\n"), ("episode_idx >= total_episodes", "episode_idx > total_episodes")]},
    {"id": "c11-b-selector-local-return", "file": "rl_blox/blox/multitask.py", "find": "        return self.tasks[self.i % len(self.tasks)]", "replace": "        tasks = self.tasks\n        task = tasks[self.i % len(tasks)]\n        return task"},
    {"id": "c11-b-selector-explicit-base-call", "file": "rl_blox/blox/multitask.py", "find": "    def select(self) -> int:\n        super().select()\n        self.i += 1", "replace": "    def select(self) -> int:\n        TaskSelector.select(self)\n        self.i += 1"},
    {"id": "c11-b-selector-mixin", "file": "rl_blox/blox/multitask.py", "find": "class RoundRobinSelector(TaskSelector):\n    def __init__(self, tasks, **kwargs):\n        super().__init__(tasks)\n        self.i = 0\n\n    def select(self) -> int:\n        super().select()\n        self.i += 1\n        return self.tasks[self.i % len(self.tasks)]\n",
     "replace": "class _CyclingMixin:\n    def select(self) -> int:\n        super().select()\n        self.i += 1\n        return self.tasks[self.i % len(self.tasks)]\n\n\nclass RoundRobinSelector(_CyclingMixin, TaskSelector):\n    def __init__(self, tasks, **kwargs):\n        super().__init__(tasks)\n        self.i = 0\n"},
    {"id": "c11-b-protocol-guard-clause", "file": "rl_blox/blox/multitask.py", "edits": [("        assert (\n            not self.waiting_for_reward\n        ), \"You have to provide a reward for the last target\"", "        if self.waiting_for_reward:\n            raise AssertionError(\"You have to provide a reward for the last target\")"),
                                                                                     ("        assert self.waiting_for_reward, \"Cannot assign reward to any target\"\n        self.waiting_for_reward = False", "        assert reward is not None\n        assert self.waiting_for_reward is True, \"Cannot assign reward to any target\"\n        self.waiting_for_reward = not self.waiting_for_reward")]},
    {"id": "c11-b-ducb-threshold-le", "file": "rl_blox/blox/mapb.py", "find": "        if len(self.rewards) < 2 * self.n_arms:", "replace": "        if len(self.rewards) <= 2 * self.n_arms - 1:"},
    {"id": "c11-b-ducb-padding-locals", "file": "rl_blox/blox/mapb.py", "find": "    def _padding_function(self, arm_idx):\n        return (\n            2\n            * self.upper_bound\n            * np.sqrt(\n                self.zeta\n                * np.log(self.total_frequency)\n                / self.discounted_frequencies[arm_idx]\n            )\n        )", "replace": "    def _padding_function(self, arm):\n        ratio = self.zeta * np.log(self.total_frequency) / self.discounted_frequencies[arm]\n        return 2 * self.upper_bound * np.sqrt(ratio)"},
    {"id": "c11-b-smt-rename-totals", "file": _A + "smt.py", "all": True, "find": "training_steps", "replace": "steps_per_task"},
    {"id": "c11-b-amt-subcall-int", "file": _A + "active_mt.py", "edits": [("            total_timesteps=total_timesteps,\n            total_episodes=scheduling_interval,", "            total_timesteps=int(total_timesteps),\n            total_episodes=scheduling_interval,"), ("    while global_step < total_timesteps:", "    while total_timesteps >= global_step + 1:")]},
    # result records: keyword arguments, record type bound first, returned through a local; range start / initial count through a copy of the start
    {"id": "c11-b-dqn-result-keyword", "file": _A + "dqn.py", "find": ")(q_net, optimizer, replay_buffer, step)", "replace": ")(q_net, optimizer, global_step=step, replay_buffer=replay_buffer)"},
    {"id": "c11-b-dqn-result-type-first", "file": _A + "dqn.py", "find": "    return namedtuple(\n        \"DQNResult\", [\"q_net\", \"optimizer\", \"replay_buffer\", \"global_step\"]\n    )(q_net, optimizer, replay_buffer, step)",
     "replace": "    DQNResult = namedtuple(\n        \"DQNResult\", [\"q_net\", \"optimizer\", \"replay_buffer\", \"global_step\"]\n    )\n    outcome = DQNResult(global_step=step, q_net=q_net, optimizer=optimizer, replay_buffer=replay_buffer)\n    return outcome"},
    {"id": "c11-b-dqn-result-class", "file": _A + "dqn.py", "edits": [("def train_dqn(", "class DQNOutcome(NamedTuple):\n    q_net: nnx.Module\n    optimizer: nnx.Optimizer\n    replay_buffer: ReplayBuffer\n    global_step: int\n\n\ndef train_dqn("),
        ("    return namedtuple(\n        \"DQNResult\", [\"q_net\", \"optimizer\", \"replay_buffer\", \"global_step\"]\n    )(q_net, optimizer, replay_buffer, step)", "    return DQNOutcome(q_net, optimizer, replay_buffer, global_step=step)")]},
    {"id": "c11-b-ddpg-range-from-alias", "file": _A + "ddpg.py", "edits": [("    steps_trained = global_step\n    for global_step in trange(\n        global_step, total_timesteps", "    first_step = global_step\n    steps_trained = first_step\n    for global_step in trange(\n        first_step, total_timesteps")]},
    {"id": "c11-b-uts-guard-in-body", "file": _A + "uniform_task_sampling.py", "find": "    while global_step < total_timesteps:\n", "replace": "    while True:\n        if global_step >= total_timesteps:\n            break\n"},
    {"id": "c11-b-amt-guard-in-body", "file": _A + "active_mt.py", "find": "    while global_step < total_timesteps:\n", "replace": "    while True:\n        if not global_step < total_timesteps:\n            break\n"},
    {"id": "c11-b-smt-guard-in-body", "file": _A + "smt.py", "find": "    while global_step < b_total:\n", "replace": "    while True:\n        if b_total <= global_step:\n            break\n"},
    {"id": "c11-b-td3-record-flag", "file": _A + "td3.py", "edits": [("def sample_target_actions(", "class _StepOutcome(NamedTuple):\n    ended: bool\n    cut: bool\n\n\ndef sample_target_actions("),
        ("        if termination or truncated:\n            if logger is not None:\n                logger.record_stat(\"return\"", "        outcome = _StepOutcome(ended=termination, cut=truncated)\n        done = outcome.ended or outcome.cut\n        if done:\n            if logger is not None:\n                logger.record_stat(\"return\"")]},
    # D-UCB history containers that keep every play (or whose bound involves the number of arms: not decided, never a violation)
    {"id": "c11-b-ducb-rewards-unbounded-deque", "file": "rl_blox/blox/mapb.py", "edits": [("import numpy as np\n", "from collections import deque\n\nimport numpy as np\n"), ("        self.rewards = []\n", "        self.rewards = deque(maxlen=None)\n")]},
    {"id": "c11-b-ducb-rewards-list-call", "file": "rl_blox/blox/mapb.py", "find": "        self.rewards = []\n", "replace": "        self.rewards: list[float] = list()\n"},
    {"id": "c11-b-ducb-rewards-bound-covers-initial-rounds", "file": "rl_blox/blox/mapb.py", "edits": [("import numpy as np\n", "from collections import deque\n\nimport numpy as np\n"), ("        self.rewards = []\n", "        self.rewards = deque(maxlen=None if gamma >= 1.0 else max(2 * n_arms, 100000))\n")]},
    {"id": "c11-b-ducb-arms-bounded-deque", "file": "rl_blox/blox/mapb.py", "edits": [("import numpy as np\n", "from collections import deque\n\nimport numpy as np\n"), ("        self.discounted_frequencies = np.zeros(self.n_arms)\n", "        self.discounted_frequencies = np.zeros(self.n_arms)\n        self.recent_means = deque(maxlen=10)\n")]},
    {"id": "c11-b-ducb-unseen-play-popped", "file": "rl_blox/blox/multitask.py", "find": "            self.ducb.chosen_arms = self.ducb.chosen_arms[:-1]\n", "replace": "            self.ducb.chosen_arms.pop()\n"},
    {"id": "c11-b-ducb-histories-tuple-assign", "file": "rl_blox/blox/mapb.py", "find": "        self.chosen_arms = []\n        self.rewards = []\n", "replace": "        self.chosen_arms, self.rewards = [], []\n"},
    {"id": "c11-b-ducb-rewards-through-local", "file": "rl_blox/blox/mapb.py", "find": "        self.rewards = []\n", "replace": "        history = list()\n        self.rewards = history if verbose >= 0 else []\n"},
    {"id": "c11-b-ducb-count-local", "file": "rl_blox/blox/mapb.py", "edits": [("        if len(self.rewards) < 2 * self.n_arms:\n            arm_idx = len(self.rewards) % self.n_arms", "        n_plays = len(self.rewards)\n        if not n_plays >= self.n_arms * 2:\n            arm_idx = n_plays % self.n_arms")]},
    {"id": "c11-b-td3-counter-from-start-copy", "file": _A + "td3.py", "find": "    step = global_step\n", "replace": "    first_step = int(global_step)\n    step = first_step\n"},
    {"id": "c11-b-sac-result-keyword-local", "file": _A + "sac.py", "find": "        replay_buffer,\n        step,\n    )", "replace": "        replay_buffer,\n        global_step=int(step),\n    )"},
    # the env.step result kept whole / indexed / sliced / handed to a five-field record: same program as naming the five positions at the call
    {"id": "c11-b-qlearning-whole-result", "file": _A + "q_learning.py", "find": "        next_observation, reward, terminated, truncated, info = env.step(\n            int(action)\n        )\n", "replace": "        outcome = env.step(int(action))\n        next_observation, reward, terminated, truncated, info = outcome\n"},
    {"id": "c11-b-qlearning-indexed-result", "file": _A + "q_learning.py", "find": "        next_observation, reward, terminated, truncated, info = env.step(\n            int(action)\n        )\n", "replace": "        res = env.step(int(action))\n        next_observation = res[0]\n        reward = res[1]\n        terminated = bool(res[2])\n        truncated = bool(res[-2])\n        info = res[4]\n"},
    {"id": "c11-b-sarsa-sliced-result", "file": _A + "sarsa.py", "edits": [("        next_observation, reward, terminated, truncated, info = env.step(\n            int(action)\n        )\n", "        res = env.step(int(action))\n        next_observation, reward = res[:2]\n        terminated, truncated = res[2:4]\n        info = res[-1]\n"), ("        if terminated or truncated:\n", "        if res[2] or res[3]:\n")]},
    {"id": "c11-b-td3-record-from-starred-step", "file": _A + "td3.py", "edits": [("def sample_target_actions(", "class _Outcome(NamedTuple):\n    successor: np.ndarray\n    payoff: float\n    ended: bool\n    cut: bool\n    extras: dict\n\n\ndef sample_target_actions("),
        ("        next_obs, reward, termination, truncated, info = env.step(action)\n", "        outcome = _Outcome(*env.step(action))\n        next_obs, reward = outcome.successor, outcome.payoff\n        termination = outcome.ended\n        truncated = outcome.cut\n"),
        ("        if termination or truncated:\n            if logger is not None:\n                logger.record_stat(\"return\"", "        if outcome.cut or outcome.ended:\n            if logger is not None:\n                logger.record_stat(\"return\"")]},
    {"id": "c11-b-sac-whole-result-helper", "file": _A + "sac.py", "edits": [("def sac_actor_loss(", "def _advance(env, action):\n    outcome = env.step(action)\n    return outcome\n\n\ndef sac_actor_loss("), ("        next_obs, reward, termination, truncation, info = env.step(action)\n", "        next_obs, reward, termination, truncation, info = _advance(env, action)\n")]},
    {"id": "c11-b-ddpg-module-level-grad", "file": _A + "ddpg.py", "edits": [("@nnx.jit\ndef ddpg_update_actor(", "_dpg_value_and_grad = nnx.value_and_grad(\n    deterministic_policy_gradient_loss, argnums=2\n)\n_actor_objective_grad = _dpg_value_and_grad\n\n\n@nnx.jit\ndef ddpg_update_actor("),
        ("    actor_loss_value, grads = nnx.value_and_grad(\n        deterministic_policy_gradient_loss, argnums=2\n    )(q, observation, policy)\n", "    actor_loss_value, grads = _actor_objective_grad(q, observation, policy)\n")]},
    # a history length that only delimits a window over the history is not a count of plays (the holder of the object may drop the unseen last choice)
    {"id": "c11-b-ducb-chosen-arms-length-as-window-only", "file": "rl_blox/blox/mapb.py", "find": "            ducb = mean + padding\n", "replace": "            n_recorded = len(self.chosen_arms)\n            recent_arms = [self.chosen_arms[s] for s in range(max(0, n_recorded - 250), n_recorded)]\n            ducb = mean + padding\n"},
]
