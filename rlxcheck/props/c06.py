"""C06 - target networks follow the Polyak / hard-copy law, only at the documented update points."""
from __future__ import annotations

import ast
import os
import re

from ..cfg import CFG
from ..effects import Effects, expr_path
from ..identity import Ident, has_base, show
from ..loops import dotted
from ..nf import NF, Scope, Poly
from ..repo import Repo, loc, short, AnalysisError, bind_call, positional_params
from ..resolve import Resolver
from ..sem import TREE_MAPS, leaf_application, result_position, result_position_def

EXPLANATION = (
    "R1 decides the dataflow of the two helpers in target_net.py by def-use inlining into a normal form "
    "(update(target, incremental_update(state(net), state(target), tau)) / update(target, state(net))) and, in the thorough "
    "tier, the polynomial identity of optax.incremental_update's leaf function (step*new + (1-step)*old) from the installed source. "
    "R2 computes object identities (parameters, nnx.clone results, constructor fields) and requires every target-role object to "
    "be distinct from every online object. R3 uses bottom-up write-effect summaries: target-role objects are written only by "
    "the two helpers, called as (online, target). R4 compares the set of branch conditions every helper call is control "
    "dependent on with the documented cadence (required modulo literal, only warm-up literals besides). R5 checks the order "
    "of chained copies (a value is copied out before it is overwritten)."
)
TRUSTED = [
    "flax nnx.update(m, s) overwrites m's state with s; nnx.state(m) reads it; nnx.clone returns a deep copy sharing no storage",
    "optax.incremental_update(new, old, step) (its leaf function is re-checked from the installed source in the thorough tier)",
    "distinct parameters of a training routine are distinct objects",
]
RULES = {
    "R1-helper-law": "soft: nnx.update(target, incremental_update(new=state(net), old=state(target), step=tau)); hard: nnx.update(target, state(net)); the online net is never written; tau reaches optax unmodified",
    "R2-no-alias": "every target-role object (2nd argument of a helper call, resolved through callee parameters and constructor fields) is a parameter or a fresh nnx.clone and differs from every online object",
    "R3-writers": "target-role objects are written only by the two helpers; helper calls pass (online, target) in that order",
    "R4-cadence": "each helper call is control dependent exactly on the documented cadence predicate plus warm-up gates",
    "R5-copy-order": "when one object is the target of one hard copy and the source of another in the same block, it is copied out first",
}

HELPERS = {"rl_blox.blox.target_net.soft_target_net_update": "soft", "rl_blox.blox.target_net.hard_target_net_update": "hard"}

# (function, documented kind, required cadence literal patterns, extra allowed literal patterns) - confirmed by reading the
# docstrings / algorithm descriptions.  `C` stands for any single identifier (the loop's own counter variable).
# warm-up gates and the step-budget guard of the loop itself (`while True: if not step < total_timesteps: break`) carry no cadence
WARM = [r"LtE\(learning_starts, C\)", r"Lt\(batch_size, C\)", r"Lt\(learning_starts, C\)", r"Lt\(C, total_timesteps\)"]
CADENCE = {
    "rl_blox.algorithm.nature_dqn.train_nature_dqn": ("hard", [r"Eq\(0, mod\(C, target_update_frequency\)\)"], WARM, 1),
    "rl_blox.algorithm.ddqn.train_ddqn": ("hard", [r"Eq\(0, mod\(C, target_update_frequency\)\)"], WARM, 1),
    "rl_blox.algorithm.per.train_ddqn_per": ("hard", [r"Eq\(0, mod\(C, target_update_frequency\)\)"], WARM, 1),
    "rl_blox.algorithm.ddpg.train_ddpg": ("soft", [], WARM, 2),
    "rl_blox.algorithm.td3.train_td3": ("soft", [r"Eq\(0, mod\(C, policy_delay\)\)"], WARM, 2),
    "rl_blox.algorithm.td3_lap.train_td3_lap": ("soft", [r"Eq\(0, mod\(C, policy_delay\)\)"], WARM, 2),
    "rl_blox.algorithm.sac.train_sac": ("soft", [r"Eq\(0, mod\(C, target_network_delay\)\)"], WARM, 1),
    "rl_blox.algorithm.td7._train_step": ("hard", [r"Eq\(0, mod\(C, target_delay\)\)"], [], 4),
    "rl_blox.algorithm.td7.train_td7": ("hard", [r"assess_performance_and_checkpoint\(\)\[0\]"], WARM + [r"use_checkpoints", r"or\(\w+, \w+\)", r"and\(.*use_checkpoints.*\)"], 1),
    "rl_blox.algorithm.mrq.train_mrq": ("hard", [r"Eq\(0, mod\(C, target_delay\)\)"], WARM, 2),
}


CALLER_GROUPS = [("rl_blox.algorithm.td7._train_step", "rl_blox.algorithm.td7.train_td7")]


def _foreign_helper_sites(repo, res):
    """New functions / methods (not part of the frozen surface, not fully inlined) that call a target-update helper."""
    from ..expand import load_known
    known = load_known()
    transparent = repo.transparent_helpers()
    out = []
    for qual, f2, mi2 in repo.all_functions():
        if qual in known or qual in transparent or "<locals>" in qual or qual in HELPERS:
            continue
        for n in ast.walk(f2):
            if isinstance(n, ast.Call) and isinstance(n.func, (ast.Name, ast.Attribute)) and repo.resolve_expr(mi2, n.func) in HELPERS:
                out.append(qual)
                break
    return out


def _helper_calls(repo, res, fn, cfg):
    """[(node id, call, kind, (online expr, target expr), order key)].  A helper call inside
    ``for a, b in ((x1, y1), (x2, y2)): helper(a, b)`` is unrolled over the literal pairs (enumerated idiom)."""
    out = []
    mi = fn._module
    for n in cfg.nodes:
        if n.ast is None or n.kind != "stmt":
            continue
        for c in ast.walk(n.ast):
            if not isinstance(c, ast.Call):
                continue
            t = res.resolve(c.func, mi, cfg, n.id)
            if not (t and t.qual in HELPERS):
                # the hard copy written out: nnx.update(target, nnx.state(online))
                if isinstance(c.func, (ast.Name, ast.Attribute)) and repo.resolve_expr(mi, c.func) == "flax.nnx.update" and len(c.args) == 2 and not c.keywords \
                        and isinstance(c.args[1], ast.Call) and isinstance(c.args[1].func, (ast.Name, ast.Attribute)) and repo.resolve_expr(mi, c.args[1].func) == "flax.nnx.state" \
                        and len(c.args[1].args) == 1 and not c.args[1].keywords and getattr(fn, "name", "") not in ("soft_target_net_update", "hard_target_net_update"):
                    out.append((n.id, c, "hard", (c.args[1].args[0], c.args[0]), (c.lineno, 0)))
                continue
            kind = HELPERS[t.qual]
            args = list(t.prefix) + list(c.args)
            if len(args) < 2:
                # keyword call: bind through the helper's signature (net, target_net[, tau])
                kw = {k.arg: k.value for k in c.keywords if k.arg}
                for pn in positional_params(repo.func(t.qual))[len(args):]:
                    if pn in kw:
                        args.append(kw[pn])
                    else:
                        break
            if len(args) < 2:
                raise AnalysisError(f"{getattr(fn, '_qual', fn.name)}: helper call `{short(c, 60)}` cannot be bound to (net, target_net) (unrecognised idiom)")
            unrolled = None
            if isinstance(args[0], ast.Name) and isinstance(args[1], ast.Name):
                d0, d1 = cfg.defs_of(n.id, args[0].id), cfg.defs_of(n.id, args[1].id)
                if len(d0) == 1 and len(d1) == 1 and d0[0].kind == "for" and d1[0].kind == "for" and d0[0].node == d1[0].node:
                    it = d0[0].value
                    if isinstance(it, ast.Name):
                        dit = cfg.defs_of(d0[0].node, it.id)
                        if len(dit) == 1 and dit[0].kind == "assign" and isinstance(dit[0].value, (ast.Tuple, ast.List)):
                            it = dit[0].value
                    if isinstance(it, (ast.Tuple, ast.List)) and all(isinstance(x, (ast.Tuple, ast.List)) for x in it.elts) and d0[0].path and d1[0].path:
                        unrolled = []
                        for i, x in enumerate(it.elts):
                            try:
                                unrolled.append((x.elts[d0[0].path[0]], x.elts[d1[0].path[0]], (cfg.nodes[d0[0].node].lineno, i)))
                            except (IndexError, TypeError):
                                unrolled = None
                                break
                        hdr = d0[0].node
            if unrolled:
                for o, tg, key in unrolled:
                    out.append((hdr, c, kind, (o, tg), key))
            else:
                out.append((n.id, c, kind, (args[0], args[1]), (c.lineno, 0)))
    return out


def _lit_canon(nf, sc, cfg, txt, truth, at):
    """Canonical text of a branch literal, counter-agnostic normalisations applied."""
    try:
        e = ast.parse(txt, mode="eval").body
    except SyntaxError:
        return f"{'' if truth else '!'}{txt}"
    if isinstance(e, ast.Name):
        # a flag unpacked from the result of a repo function is named by its origin (callee, position), not by the local name
        rp = result_position(cfg, e.id, at)
        if rp is not None and isinstance(rp[0].func, (ast.Name, ast.Attribute)):
            fq = nf.repo.resolve_expr(sc.mi, rp[0].func)
            if fq and fq.startswith(nf.repo.PKG + "."):
                c = f"{fq.rsplit('.', 1)[1]}()[{rp[1]}]"
                return c if truth else f"not({c})"
    # truthiness of `x % y`
    if isinstance(e, ast.BinOp) and isinstance(e.op, ast.Mod):
        p = nf.poly(e, sc, at).canon()
        return f"Eq(0, {p})" if not truth else f"NotEq(0, {p})"
    if isinstance(e, ast.Compare) and len(e.ops) == 1 and not truth:
        neg = {ast.Lt: ast.GtE, ast.LtE: ast.Gt, ast.Gt: ast.LtE, ast.GtE: ast.Lt, ast.Eq: ast.NotEq, ast.NotEq: ast.Eq, ast.Is: ast.IsNot, ast.IsNot: ast.Is}
        k = type(e.ops[0])
        if k in neg:
            e = ast.Compare(left=e.left, ops=[neg[k]()], comparators=e.comparators)
            truth = True
    c = nf.poly(e, sc, at).canon()
    return c if truth else f"not({c})"


def _guards(nf, fn, cfg, nid, qual):
    sc = Scope(None, fn._module, {}, qual)  # names stay names: guards are compared as written, not inlined
    out = []
    for b, lab in cfg.control_deps(nid):
        bn = cfg.nodes[b]
        if bn.kind == "for" or isinstance(bn.ast, (ast.For, ast.While)):
            continue  # loops: `for _ in range(gradient_steps)` and the main loop carry no cadence
        if bn.kind == "test" and isinstance(bn.ast, ast.If):
            for txt, truth in cfg._lits(bn.ast.test, lab, b):
                # a name that was expanded into its defining expression (`done = terminated or truncated; if done:`) is
                # represented by the expansion alone: the alias adds no condition
                if txt.isidentifier() and cfg._expand_name(ast.Name(id=txt, ctx=ast.Load()), b) is not None:
                    continue
                out.append(_lit_canon(nf, sc, cfg, txt, truth, b))
    # flow-based supplement: `if <not due>: return ...` before the update - a dominating branch from only one arm of which the
    # update is reachable contributes its condition just like an enclosing `if`
    syntactic = {b for b, _ in cfg.control_deps(nid)}
    rd = cfg.reaching()
    for bn in cfg.nodes:
        if bn.kind != "test" or not isinstance(bn.ast, ast.If) or bn.id in syntactic or bn.id == nid or not cfg.dominates(bn.id, nid):
            continue
        reach = {lab: cfg.paths_avoiding(bn.id, nid, set(), feasible=False, first_label=lab) is not None for lab in (True, False)}
        if reach[True] == reach[False]:
            continue
        lab = True if reach[True] else False
        names = {x.id for x in ast.walk(bn.ast.test) if isinstance(x, ast.Name)}
        if not all(rd[nid].get(nm) == rd[bn.id].get(nm) for nm in names):
            continue
        for txt, truth in cfg._lits(bn.ast.test, lab, bn.id):
            if txt.isidentifier() and cfg._expand_name(ast.Name(id=txt, ctx=ast.Load()), bn.id) is not None:
                continue
            out.append(_lit_canon(nf, sc, cfg, txt, truth, bn.id))
    # de-duplicate, drop logger / None tests
    res = []
    for g in out:
        if "logger" in g or g in res or g in ("True", "not(False)", "1", "not(0)"):
            continue
        res.append(g)
    return res


def _match(lit: str, pat: str) -> bool:
    rx = "^" + pat.replace("C", r"[A-Za-z_][A-Za-z_0-9]*") + "$"
    return re.match(rx, lit) is not None


def run(ck, repo: Repo, tier: str):
    res = Resolver(repo)
    nf = NF(repo, inline_calls=False)
    eff = Effects(repo, res)
    idn = Ident(repo)

    # ---------------- R1: helper bodies ---------------------------------------------------------
    for hq, kind in HELPERS.items():
        fn = repo.func(hq)
        mi = fn._module
        cfg = nf.cfg_of(fn)
        sc = Scope(cfg, mi, {}, hq)
        pp = positional_params(fn)
        ck.need(pp[:2] == ["net", "target_net"] and (kind == "hard" or pp[2:3] == ["tau"]), f"{hq}: signature changed (anchor vanished): {pp}")
        ups = []
        for n in cfg.nodes:
            if n.ast is None or n.kind != "stmt":
                continue
            for c in ast.walk(n.ast):
                if isinstance(c, ast.Call) and repo.resolve_expr(mi, c.func) == "flax.nnx.update":
                    ups.append((n.id, c))
        ck.ob("R1-helper-law", hq, "single-update", len(ups) == 1, f"{len(ups)} nnx.update call(s)", "" if len(ups) == 1 else "helper must perform exactly one nnx.update", loc(mi, fn))
        for nid, c in ups:
            tgt = nf.poly(c.args[0], sc, nid).canon() if c.args else "?"
            val = nf.poly(c.args[1], sc, nid) if len(c.args) > 1 else Poly.atom("?")
            ok_t = tgt == "target_net"
            ck.ob("R1-helper-law", hq, "writes-target", ok_t, f"nnx.update({tgt}, ...)", "" if ok_t else f"the helper writes `{tgt}`, not the target network (online network must stay unchanged)", loc(mi, c))
            v = val.canon()
            if kind == "hard":
                ok_v = v == "state(net)"
                ck.ob("R1-helper-law", hq, "update-value", ok_v, f"value = {v}", "" if ok_v else "expected `state(net)`: wrong source", loc(mi, c))
                continue
            # soft: leaf-wise  tau * state(net) + (1 - tau) * state(target_net), written with optax.incremental_update (arguments by
            # signature) or as a tree map whose leaf function normalises to that polynomial
            ve = c.args[1]
            vn = nid
            for _ in range(4):
                if isinstance(ve, ast.Name):
                    ds = cfg.defs_of(vn, ve.id)
                    if len(ds) == 1 and ds[0].kind == "assign":
                        ve, vn = ds[0].value, ds[0].node
                        continue
                break
            A, B, T = Poly.atom("state(net)"), Poly.atom("state(target_net)"), Poly.atom("tau")
            want_p = T * A + (Poly.const(1) - T) * B
            fq = repo.resolve_expr(mi, ve.func) if isinstance(ve, ast.Call) and isinstance(ve.func, (ast.Name, ast.Attribute)) else None
            if fq == "optax.incremental_update":
                b = {}
                for pname, a_ in zip(("new_tensors", "old_tensors", "step_size"), ve.args):
                    b[pname] = a_
                for kw in ve.keywords:
                    if kw.arg:
                        b[kw.arg] = kw.value
                got = {k: nf.poly(x, sc, vn).canon() for k, x in b.items()}
                ok_v = got == {"new_tensors": "state(net)", "old_tensors": "state(target_net)", "step_size": "tau"}
                shown = f"incremental_update(new={got.get('new_tensors')}, old={got.get('old_tensors')}, step={got.get('step_size')})"
            elif fq in TREE_MAPS:
                trees = [a_ for a_ in ve.args[1:] if not isinstance(a_, ast.Starred)]
                ck.need(len(trees) == len(ve.args) - 1 and ve.args, f"{hq}: tree map with starred arguments")
                leaf = leaf_application(repo, mi, ve.args[0], trees, cfg, vn)
                got_p = nf.poly(leaf, sc, vn)
                ok_v = got_p == want_p
                shown = f"leaf-wise {got_p.canon()}"
                if not ok_v and not (set(got_p.atoms()) <= {"state(net)", "state(target_net)", "tau"}):
                    raise AnalysisError(f"{hq}: soft update computes `{got_p.canon()[:120]}` per leaf (unrecognised form)")
            else:
                p_direct = nf.poly(ve, sc, vn)
                if p_direct == want_p:
                    ok_v, shown = True, p_direct.canon()
                elif set(p_direct.atoms()) <= {"state(net)", "state(target_net)", "tau"} and p_direct.atoms():
                    ok_v, shown = False, p_direct.canon()
                else:
                    raise AnalysisError(f"{hq}: the value written to the target `{v[:120]}` is not a recognised Polyak form")
            ck.ob("R1-helper-law", hq, "update-value", ok_v, f"value = {shown}", "" if ok_v else f"expected leaf-wise `{want_p.canon()}`: wrong source, swapped roles or modified step size", loc(mi, c))
        # the path-independent check that `tau` is not redefined / net not written is contained in the normal form above
        uncond = all(not cfg.control_deps(nid) for nid, _ in ups)
        ck.ob("R1-helper-law", hq, "unconditional", uncond, "nnx.update is executed on every call", "" if uncond else "the update is skipped on some path", loc(mi, fn))
    if tier == "thorough":
        _optax_oracle(ck, nf)

    # ---------------- per routine: R2 / R3 / R4 / R5 ---------------------------------------------------
    n_calls = 0
    for q, (kind, required, allowed, n_expected) in CADENCE.items():
        fn = repo.func(q)
        mi = fn._module
        cfg = res.cfg_of(fn)
        calls = _helper_calls(repo, res, fn, cfg)
        if q.endswith("train_td7"):
            calls = [c for c in calls]
        n_calls += len(calls)
        if len(calls) != n_expected:
            # target updates that moved between a routine and its step function, or that go through an object's method / a helper
            # that could not be expanded, cannot be attributed to the documented cadence table: undecided, not a violation
            group = [g for g in CALLER_GROUPS if q in g]
            if group:
                tot = sum(len(_helper_calls(repo, res, repo.func(x), res.cfg_of(repo.func(x)))) for x in group[0])
                if tot == sum(CADENCE[x][3] for x in group[0]):
                    raise AnalysisError(f"{q}: the target updates are distributed differently over {[x.rsplit('.', 1)[1] for x in group[0]]} than documented (unrecognised form)")
            if len(calls) < n_expected and (_foreign_helper_sites(repo, res) or any(cq_.startswith(q) or True for _c, cq_ in getattr(repo, "expand_failed", []) if _c == q)):
                raise AnalysisError(f"{q}: {len(calls)} of {n_expected} documented target updates are visible; others go through code that cannot be attributed (unrecognised form)")
            if len(calls) < n_expected:
                looped = []
                for c_ in ast.walk(fn):
                    if isinstance(c_, ast.Call) and isinstance(c_.func, (ast.Name, ast.Attribute)) and (repo.resolve_expr(mi, c_.func) or "").endswith(("nnx.update", "target_net_update")):
                        p_ = getattr(c_, "_parent", None)
                        while p_ is not None and p_ is not fn:
                            tv_ = set()
                            if isinstance(p_, ast.For):
                                tv_ = {x_.id for x_ in ast.walk(p_.target) if isinstance(x_, ast.Name)}
                            elif isinstance(p_, (ast.ListComp, ast.GeneratorExp, ast.DictComp, ast.SetComp)):
                                tv_ = {x_.id for g_ in p_.generators for x_ in ast.walk(g_.target) if isinstance(x_, ast.Name)}
                            if tv_ & {x_.id for a_ in c_.args for x_ in ast.walk(a_) if isinstance(x_, ast.Name)}:
                                looped.append(c_)      # the updated objects are the loop's variables
                                break
                            p_ = getattr(p_, "_parent", None)
                if looped:
                    raise AnalysisError(f"{q}: `{short(looped[0], 50)}` runs inside a loop: one call site serves several (online, target) pairs, which cannot be matched with the {n_expected} documented updates one by one (unrecognised form)")
                raw = [c_ for c_ in ast.walk(fn) if isinstance(c_, ast.Call) and isinstance(c_.func, (ast.Name, ast.Attribute)) and repo.resolve_expr(mi, c_.func) == "flax.nnx.update"]
                if len(raw) > len(calls):
                    raise AnalysisError(f"{q}: {len(calls)} of {n_expected} documented target updates are visible as helper calls, but {len(raw)} raw nnx.update calls are present (written out or expanded updates: not attributed)")
        ck.ob("R4-cadence", q, "helper-count", len(calls) == n_expected, f"{len(calls)} target-update call(s), documented {n_expected}",
              "" if len(calls) == n_expected else "a documented target update is missing or an undocumented one was added", loc(mi, fn))
        if len(calls) != n_expected:
            continue
        targets = []
        for nid, c, k, (oe, te), okey in calls:
            where = loc(mi, c)
            label = f"{short(oe, 30)}->{short(te, 30)}"
            ck.ob("R4-cadence", q, f"kind:{label}", k == kind, f"{k} update {label}", "" if k == kind else f"documented update kind is {kind}", where)
            o_id = _ident_in_context(idn, res, repo, q, fn, cfg, nid, oe)
            t_id = _ident_in_context(idn, res, repo, q, fn, cfg, nid, te)
            targets.append((nid, c, o_id, t_id, oe, te, okey))
            # R4 guards
            gs = _guards(nf, fn, cfg, nid, q)
            missing = [p for p in required if not any(_match(g, p) for g in gs)]
            extra = [g for g in gs if not any(_match(g, p) for p in required + allowed)]
            ok = not missing and not extra
            if not ok:
                # a guard that is not one of the documented / allowed forms is evidence of a wrong cadence only when it is written over the
                # cadence parameter itself (e.g. `step % policy_delay == 1`); any other unknown condition leaves the cadence undecided
                import re as _re
                pnames = set(positional_params(fn)) | {a_.arg for a_ in fn.args.kwonlyargs}
                OPS = {"Eq", "NotEq", "Lt", "LtE", "Is", "IsNot", "In", "NotIn", "and", "or", "not", "mod", "None", "True", "False"}

                def name_ok(nm, depth=0):
                    if nm in OPS or nm in pnames:
                        return True
                    ds_ = [d for n_ in cfg.nodes for d in n_.defs if d.name == nm]
                    if not ds_ or depth > 4:
                        return nm in ("assess_performance_and_checkpoint",)
                    for d in ds_:
                        if d.kind in ("param", "for", "aug", "with"):
                            continue
                        if result_position_def(cfg, d) is not None:
                            continue      # a position of a call's result
                        if d.kind == "assign" and d.value is not None and not isinstance(d.value, ast.Constant) or (d.kind == "assign" and isinstance(d.value, ast.Constant) and not isinstance(d.value.value, bool)):
                            v_ = d.value
                            calls_ok = all(isinstance(c_.func, ast.Name) and c_.func.id in ("max", "min", "int", "len", "abs", "float") for c_ in ast.walk(v_) if isinstance(c_, ast.Call))
                            if calls_ok and not any(isinstance(x_, (ast.Attribute, ast.Subscript)) for x_ in ast.walk(v_)) \
                                    and all(name_ok(x_.id, depth + 1) for x_ in ast.walk(v_) if isinstance(x_, ast.Name) and x_.id not in ("max", "min", "int", "len", "abs", "float")):
                                continue
                        return False
                    return True

                def understood(g):
                    return all(name_ok(nm) for nm in set(_re.findall(r"[A-Za-z_][A-Za-z_0-9]*", g)))
                unknown = [g for g in extra if not understood(g)]
                if unknown:
                    raise AnalysisError(f"{q}: update {label} is guarded by {unknown} (cannot relate to the documented cadence)")
            why = ""
            if missing:
                why = f"not guarded by the documented cadence {missing} (guards: {gs})"
            elif extra:
                why = f"additionally guarded by {extra}: documented update points are skipped"
            ck.ob("R4-cadence", q, f"guard:{label}", ok, f"{label} under {gs}", why, where)
        # R2 / R3
        online_ids = [x[2] for x in targets]
        for nid, c, o_id, t_id, oe, te, okey in targets:
            where = loc(mi, c)
            fresh = _is_fresh(t_id)
            distinct = all(not has_base(t_id, o) and not has_base(o, t_id) for o in online_ids if o != t_id) and o_id != t_id
            # an object may be target of one copy and source of another (TD7's fixed embedding); it must still not be an *online-trained* object
            ck.ob("R2-no-alias", q, f"fresh:{short(te, 40)}", fresh, f"target `{short(te, 40)}` = {show(t_id)}",
                  "" if fresh else f"target object is {show(t_id)}: not a parameter / nnx.clone / constructor over those (may share storage with an online network)", where)
            # component-wise: no sub-module of the target object is a sub-module of (or is) an online / trained object
            t_leaves = _leaves_ctx(idn, res, repo, q, fn, cfg, t_id)
            o_leaves = _leaves_ctx(idn, res, repo, q, fn, cfg, o_id)
            shared = {x for x in t_leaves for y in o_leaves if has_base(x, y) or has_base(y, x)}
            ck.ob("R2-no-alias", q, f"components-distinct:{short(te, 40)}", not shared, f"components of target {sorted(show(x) for x in t_leaves)} vs online {sorted(show(x) for x in o_leaves)}",
                  "" if not shared else f"target and online object share the sub-module(s) {sorted(_stable(show(x)) for x in shared)}: a target update overwrites the online component (and training it changes the target)", where)
            unfresh = [x for x in t_leaves if not _is_fresh(x)]
            ck.ob("R2-no-alias", q, f"components-fresh:{short(te, 40)}", not unfresh, f"components of target `{short(te, 40)}`", "" if not unfresh else f"component(s) {sorted(_stable(show(x)) for x in unfresh)} of the target are not parameters / clones", where)
            ck.ob("R2-no-alias", q, f"distinct:{short(te, 40)}", o_id != t_id and not has_base(t_id, o_id) and not has_base(o_id, t_id),
                  f"online {show(o_id)} vs target {show(t_id)}", "" if o_id != t_id else "online and target are the same object", where)
        # R3: other writers of target objects
        eff.summary(q)
        trained = []
        for kind_s, call, path, op in eff.sites.get(q, []):
            if kind_s.startswith("call ") and kind_s.split(" ", 1)[1] in HELPERS:
                continue
            if any(call is hc_ for _n, hc_, _o, _t, _oe, _te, _k in targets):
                continue      # the hard copy written out (nnx.update(target, nnx.state(online))) is a recognised target update
            try:
                nid = cfg.node_of(call).id
            except KeyError:
                continue
            e = _path_expr(path)
            w_id = _ident_in_context(idn, res, repo, q, fn, cfg, nid, e)
            trained.append((call, w_id, kind_s))
            for _, hc, o_id, t_id, oe, te, okey in targets:
                t_leaves = _leaves_ctx(idn, res, repo, q, fn, cfg, t_id)
                bad = any(has_base(w_id, x) or has_base(x, w_id) for x in t_leaves | {t_id})
                if bad and not _is_source_too(t_id, targets):
                    ck.ob("R3-writers", q, f"writer:{_stable(show(w_id))}", False, f"`{short(call, 60)}` writes {show(w_id)}",
                          f"a target-role object ({show(t_id)}) is written outside the target-update helpers", loc(mi, call))
        for _, hc, o_id, t_id, oe, te, okey in targets:
            ck.ob("R3-writers", q, f"only-helpers:{short(te, 40)}", True, f"{show(t_id)} written by helper only", "", loc(mi, hc))
            # (online, target) order: the online object must be one that is trained or itself a copy source; the target never trained
            is_trained_target = any(has_base(w, t_id) or has_base(t_id, w) for _, w, k in trained)
            is_trained_online = any(has_base(w, o_id) or has_base(o_id, w) for _, w, k in trained) or any(x[3] == o_id for x in targets)
            okk = not is_trained_target or _is_source_too(t_id, targets)
            if okk and not (is_trained_online or q.endswith("train_td7")):
                # no write to the first argument is visible in this routine: that is absence of evidence (the training call may not be
                # attributable), not evidence of swapped arguments
                raise AnalysisError(f"{q}: cannot confirm that `{short(oe, 30)}` (copied to `{short(te, 30)}`) is the trained object: no attributable training write")
            ck.ob("R3-writers", q, f"order:{short(oe, 30)}->{short(te, 30)}", okk and (is_trained_online or q.endswith("train_td7")), f"{short(oe, 30)}->{short(te, 30)}: online={show(o_id)} target={show(t_id)}",
                  "" if (okk and (is_trained_online or q.endswith('train_td7'))) else "arguments look swapped: the first argument is not the trained (online) object or the second one is trained", loc(mi, hc))
        # R5 chained copies
        for (n1, c1, o1, t1, oe1, te1, k1) in targets:
            for (n2, c2, o2, t2, oe2, te2, k2) in targets:
                if k1 == k2:
                    continue
                if t1 == o2 and cfg.control_deps(n1) == cfg.control_deps(n2):
                    # copy 2 reads what copy 1 overwrites: copy 2 must come first
                    ok = k2 < k1
                    ck.ob("R5-copy-order", q, f"{short(oe2, 30)}-before-overwrite", ok, f"{short(oe2, 30)}->{short(te2, 30)} before {short(oe1, 30)}->{short(te1, 30)}",
                          "" if ok else "the object is overwritten before its previous value is copied to its own target: both end up identical (the one-period lag is lost)", loc(mi, c1))
    ck.floor("helper-call-sites", n_calls, 10)
    # every helper call site in the package is covered by the table
    covered = set(CADENCE)
    transparent = repo.transparent_helpers()
    for qual, f2, mi2 in repo.all_functions():
        if qual in covered or qual in HELPERS or "<locals>" in qual or qual in transparent:
            continue
        c2 = None
        for n in ast.walk(f2):
            if isinstance(n, ast.Call) and isinstance(n.func, (ast.Name, ast.Attribute)):
                r = repo.resolve_expr(mi2, n.func)
                if r in HELPERS and qual not in _KNOWN():
                    raise AnalysisError(f"{qual}: a new function / method calls a target-update helper and is not expanded at its call sites (cannot attribute the update to a cadence)")
                if r in HELPERS:
                    ck.ob("R4-cadence", qual, "unregistered-call-site", False, short(n, 70), "target-update helper called from a routine with no documented cadence entry", loc(mi2, n))


def _KNOWN():
    from ..expand import load_known
    return load_known()


def _stable(s):
    return re.sub(r"@\d+", "", s)


def _is_fresh(t):
    k = t[0]
    if k in ("param", "param|clone", "clone", "obj"):
        return True
    if k == "attr":
        return _is_fresh(t[1])
    if k == "alt":
        return all(_is_fresh(x) for x in t[1])
    return False


def _is_source_too(t_id, targets):
    return any(x[2] == t_id for x in targets)


def _path_expr(path):
    root, attrs = path
    e = ast.Name(id=root, ctx=ast.Load())
    for a in attrs:
        e = ast.Attribute(value=e, attr=a, ctx=ast.Load())
    return e


def _ident_in_context(idn, res, repo, q, fn, cfg, nid, e):
    """Identity of expression ``e`` of function q; for `_train_step` the parameters are mapped to the single caller."""
    mi = fn._module
    base = idn.of(e, mi, cfg, nid, q)
    root = base
    chain = []
    while root[0] == "attr":
        chain.append(root[2])
        root = root[1]
    if root[0] == "param" and q.endswith("._train_step"):
        # map through the unique call site in train_td7
        caller_q = q.rsplit(".", 1)[0] + ".train_td7"
        cfn = repo.func(caller_q)
        ccfg = res.cfg_of(cfn)
        for n in ccfg.nodes:
            if n.ast is None or n.kind != "stmt":
                continue
            for c in ast.walk(n.ast):
                if isinstance(c, ast.Call) and isinstance(c.func, ast.Name) and c.func.id == "_train_step":
                    b = bind_call(fn, c)
                    arg = b.get(root[2])
                    if arg is not None:
                        ex = arg
                        for a in chain[::-1]:
                            ex = ast.Attribute(value=ex, attr=a, ctx=ast.Load())
                        return idn.of(ex, cfn._module, ccfg, n.id, caller_q)
    return base


def _leaves_ctx(idn, res, repo, q, fn, cfg, ident):
    """Leaves of an identity; identities created in train_td7 (mapped from _train_step) are expanded in that context."""
    qual = None
    x = ident
    while isinstance(x, tuple) and x and x[0] == "attr":
        x = x[1]
    if isinstance(x, tuple) and x and x[0] == "obj":
        pass
    ctx_q = q
    if q.endswith("._train_step"):
        ctx_q = q.rsplit(".", 1)[0] + ".train_td7"
    cfn = repo.func(ctx_q)
    return idn.leaves(ident, cfn._module, res.cfg_of(cfn), ctx_q)


def _optax_oracle(ck, nf):
    """Pinned trusted base: the leaf function of optax.incremental_update normalises to step*new + (1-step)*old."""
    path = "/venv/lib/python3.12/site-packages/optax/_src/update.py"
    if not os.path.exists(path):
        ck.note("optax source not found: oracle cross-check skipped")
        return
    tree = ast.parse(open(path).read())
    fn = next((n for n in tree.body if isinstance(n, ast.FunctionDef) and n.name == "incremental_update"), None)
    lam = next((n for n in ast.walk(fn) if isinstance(n, ast.Lambda)), None) if fn else None
    if lam is None:
        ck.note("optax.incremental_update has no lambda leaf function any more: oracle cross-check skipped")
        return
    body = lam.body.orelse if isinstance(lam.body, ast.IfExp) else lam.body
    from ..repo import ModuleInfo
    mi = ModuleInfo("optax._src.update", path, path, "", tree)
    p = nf.poly(body, Scope(None, mi, {}), None)
    a, b = [x.arg for x in lam.args.args][:2]
    step = [x.arg for x in fn.args.args][2]
    want = (Poly.atom(step) * Poly.atom(a) + (Poly.const(1) - Poly.atom(step)) * Poly.atom(b))
    ok = p == want
    ck.ob("R1-helper-law", "optax.incremental_update", "polyak-identity", ok, f"leaf = {p.canon()}", "" if ok else f"installed optax leaf function is not {want.canon()}", "optax/_src/update.py")


# ---- self-validation variants -------------------------------------------------------------------------------
_T = "rl_blox/blox/target_net.py"
_A = "rl_blox/algorithm/"
MUTANTS = [
    {"id": "c06-td7-hard-copy-written-out-swapped", "file": _A + "td7.py", "rule": "R", "find": "                    hard_target_net_update(policy, checkpoint)", "replace": "                    nnx.update(policy, nnx.state(checkpoint))"},
    {"id": "c06-soft-treemap-swapped", "file": _T, "rule": "R1", "edits": [("import optax\n", "import optax\nimport jax\n"), ("optax.incremental_update(params, target_params, tau)", "jax.tree.map(lambda p, t: tau * t + (1 - tau) * p, params, target_params)")]},
    {"id": "c06-soft-treemap-trees-swapped", "file": _T, "rule": "R1", "edits": [("import optax\n", "import optax\nimport jax\n"), ("optax.incremental_update(params, target_params, tau)", "jax.tree.map(lambda p, t: tau * p + (1 - tau) * t, target_params, params)")]},
    {"id": "c06-soft-kw-swapped", "file": _T, "rule": "R1", "find": "optax.incremental_update(params, target_params, tau)", "replace": "optax.incremental_update(old_tensors=params, new_tensors=target_params, step_size=tau)"},
    {"id": "c06-soft-swapped", "file": _T, "rule": "R1", "find": "optax.incremental_update(params, target_params, tau)", "replace": "optax.incremental_update(target_params, params, tau)"},
    {"id": "c06-soft-one-minus-tau", "file": _T, "rule": "R1", "find": "optax.incremental_update(params, target_params, tau)", "replace": "optax.incremental_update(params, target_params, 1 - tau)"},
    {"id": "c06-soft-writes-online", "file": _T, "rule": "R1", "find": "    nnx.update(target_net, target_params)", "replace": "    nnx.update(net, target_params)"},
    {"id": "c06-soft-tau-default", "file": _T, "rule": "R1", "find": "    params = nnx.state(net)\n    target_params = nnx.state(target_net)\n    target_params = optax", "replace": "    tau = tau or 0.005\n    params = nnx.state(net)\n    target_params = nnx.state(target_net)\n    target_params = optax"},
    {"id": "c06-hard-reversed", "file": _T, "rule": "R1", "find": "    nnx.update(target_net, nnx.state(net))", "replace": "    nnx.update(net, nnx.state(target_net))"},
    {"id": "c06-hard-param-filter", "file": _T, "rule": "R1", "find": "    nnx.update(target_net, nnx.state(net))", "replace": "    nnx.update(target_net, nnx.state(net, nnx.Param))"},
    {"id": "c06-td3-alias", "file": _A + "td3.py", "rule": "R2", "find": "        q_target = nnx.clone(q)", "replace": "        q_target = q"},
    {"id": "c06-td3-delay-eq-1", "file": _A + "td3.py", "rule": "R4", "find": "                if step % policy_delay == 0:", "replace": "                if step % policy_delay == 1:"},
    {"id": "c06-td3-target-out-of-guard", "file": _A + "td3.py", "rule": "R4", "find": "                    soft_target_net_update(q, q_target, tau)\n\n                    stats[\"policy loss\"]", "replace": "                    stats[\"policy loss\"]",
     "accept_error": False},
    {"id": "c06-td3-args-swapped", "file": _A + "td3.py", "rule": "R", "find": "soft_target_net_update(q, q_target, tau)", "replace": "soft_target_net_update(q_target, q, tau)"},
    {"id": "c06-td3-hard-for-soft", "file": _A + "td3.py", "rule": "R4", "find": "from ..blox.target_net import soft_target_net_update", "replace": "from ..blox.target_net import hard_target_net_update\n\n\ndef soft_target_net_update(a, b, tau):\n    hard_target_net_update(a, b)"},
    {"id": "c06-sac-every-step", "file": _A + "sac.py", "rule": "R4", "find": "            if step % target_network_delay == 0:\n                soft_target_net_update(q, q_target, tau)\n                updated_modules[\"q_target\"] = q_target", "replace": "            soft_target_net_update(q, q_target, tau)\n            updated_modules[\"q_target\"] = q_target"},
    {"id": "c06-nature-nested-guard", "file": _A + "nature_dqn.py", "rule": "R4", "find": "            if step % target_update_frequency == 0:\n                hard_target_net_update(q_net, q_target_net)", "replace": "                if step % target_update_frequency == 0:\n                    hard_target_net_update(q_net, q_target_net)"},
    {"id": "c06-td7-order", "file": _A + "td7.py", "rule": "R5", "find": "        hard_target_net_update(policy.embedding, policy_target.embedding)\n        hard_target_net_update(embedding, policy.embedding)\n", "replace": "        hard_target_net_update(embedding, policy.embedding)\n        hard_target_net_update(policy.embedding, policy_target.embedding)\n"},
    {"id": "c06-td7-fixed-alias", "file": _A + "td7.py", "rule": "R2", "find": "    fixed_embedding_target = nnx.clone(embedding)", "replace": "    fixed_embedding_target = fixed_embedding"},
    {"id": "c06-td7-policy-delay-for-target", "file": _A + "td7.py", "rule": "R4", "find": "    if epoch % target_delay == 0:\n        hard_target_net_update(policy.actor", "replace": "    if epoch % policy_delay == 0:\n        hard_target_net_update(policy.actor"},
    {"id": "c06-td7-checkpoint-unguarded", "file": _A + "td7.py", "rule": "R4", "find": "                if update_checkpoint:\n                    hard_target_net_update(policy, checkpoint)", "replace": "                if update_checkpoint or training_steps > 0:\n                    hard_target_net_update(policy, checkpoint)"},
    {"id": "c06-mrq-train-target", "file": _A + "mrq.py", "rule": "R3", "find": "        update_critic_and_policy,\n        q,\n        q_target,\n        q_optimizer,", "replace": "        update_critic_and_policy,\n        q_target,\n        q,\n        q_optimizer,"},
    {"id": "c06-ddpg-target-trained", "file": _A + "ddpg.py", "rule": "R3", "find": "                actor_loss_value = ddpg_update_actor(\n                    policy, policy_optimizer, q, batch.observation\n                )", "replace": "                actor_loss_value = ddpg_update_actor(\n                    policy_target, policy_optimizer, q, batch.observation\n                )"},
    {"id": "c06-ddqn-extra-helper", "file": _A + "ddqn.py", "rule": "R4", "find": "            if step % target_update_frequency == 0:\n                hard_target_net_update(q_net, q_target_net)", "replace": "            if step % target_update_frequency == 0:\n                hard_target_net_update(q_net, q_target_net)\n        if terminated:\n            hard_target_net_update(q_net, q_target_net)"},
]
BENIGN = [
    {"id": "c06-b-td7-hard-copy-written-out", "file": _A + "td7.py", "find": "                    hard_target_net_update(policy, checkpoint)", "replace": "                    nnx.update(checkpoint, nnx.state(policy))"},
    {"id": "c06-b-soft-treemap", "file": _T, "edits": [("import optax\n", "import optax\nimport jax\n"), ("optax.incremental_update(params, target_params, tau)", "jax.tree.map(lambda p, t: t + tau * (p - t), params, target_params)")]},
    {"id": "c06-b-td7-early-return", "file": _A + "td7.py", "edits": [("    if epoch % target_delay == 0:\n        hard_target_net_update(policy.actor, policy_target.actor)", "    if epoch % target_delay != 0:\n        return metrics, epochs\n    if True:\n        hard_target_net_update(policy.actor, policy_target.actor)")]},
    {"id": "c06-b-td7-done-alias", "file": _A + "td7.py", "edits": [("        next_obs, reward, termination, truncated, info = env.step(action)\n", "        next_obs, reward, termination, truncated, info = env.step(action)\n        done = termination or truncated\n"), ("            if (termination or truncated) and use_checkpoints:", "            if done and use_checkpoints:")]},
    {"id": "c06-b-td3-not-mod", "file": _A + "td3.py", "find": "                if step % policy_delay == 0:", "replace": "                if not step % policy_delay:"},
    {"id": "c06-b-td3-flipped-eq", "file": _A + "td3.py", "find": "                if step % policy_delay == 0:", "replace": "                if 0 == step % policy_delay:"},
    {"id": "c06-b-soft-kwargs", "file": _T, "find": "optax.incremental_update(params, target_params, tau)", "replace": "optax.incremental_update(new_tensors=params, old_tensors=target_params, step_size=tau)"},
    {"id": "c06-b-soft-inline", "file": _T, "find": "    params = nnx.state(net)\n    target_params = nnx.state(target_net)\n    target_params = optax.incremental_update(params, target_params, tau)\n    nnx.update(target_net, target_params)",
     "replace": "    nnx.update(\n        target_net,\n        optax.incremental_update(nnx.state(net), nnx.state(target_net), tau),\n    )"},
    {"id": "c06-b-sac-parens", "file": _A + "sac.py", "find": "            if step % target_network_delay == 0:", "replace": "            if (step % target_network_delay) == 0 and True:"},
    {"id": "c06-b-nature-split-guard", "file": _A + "nature_dqn.py", "find": "        if step >= learning_starts and step > batch_size:\n", "replace": "        if step > batch_size and learning_starts <= step:\n"},
    {"id": "c06-b-td7-logging-between", "file": _A + "td7.py", "find": "        hard_target_net_update(critic, critic_target)\n", "replace": "        hard_target_net_update(critic, critic_target)\n        metrics[\"target update\"] = epoch\n"},
]
