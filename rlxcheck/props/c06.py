"""C06 - target networks follow the Polyak / hard-copy law, only at the documented update points."""
from __future__ import annotations

import ast
import os
import re

from ..cfg import CFG
from ..effects import Effects, expr_path
from ..identity import Ident, has_base, show
from ..loops import dotted
from ..nf import NF, Scope, Poly
from ..repo import Repo, loc, short, AnalysisError, bind_call, positional_params, param_names
from ..resolve import Resolver
from ..sem import TREE_MAPS, leaf_application, result_position, result_position_def, same_ingredients, ingredient_tokens, rejects_input

EXPLANATION = (
    "R1 reads the two helpers by the position of their parameters (net, target_net[, tau]) and per path: the object handed to nnx.update "
    "and the leaf-wise normal form of the value (optax.incremental_update by signature, tree maps through their leaf function, the other "
    "helper through its own update) must be the target and tau*state(net) + (1-tau)*state(target) / exactly state(net); a path without "
    "update is accepted only for tau = 0. A differing value is a violation when it is built from the same ingredients, otherwise undecided. "
    "In the thorough tier the polynomial identity of optax.incremental_update's leaf function (step*new + (1-step)*old) is re-read from the installed source. "
    "R2 computes object identities (parameters, nnx.clone results, constructor fields) and requires every target-role object to "
    "be distinct from every online object. R3 uses bottom-up write-effect summaries: target-role objects are written only by "
    "the two helpers, called as (online, target). R4 compares the set of branch conditions every helper call is control "
    "dependent on (locals bound once to simple values are replaced by these values, integer inequalities and max() gates are normalised, "
    "parameters are taken from the recorded signature by position) with the documented cadence; a difference is a violation when it is a "
    "cadence literal with another constant / parameter, a weakening disjunction, an additional understood condition or the complete absence of "
    "the cadence among fully understood guards, otherwise undecided. R5 checks the order "
    "of chained copies (a value is copied out before it is overwritten). "
    "Forms read: the second component of an unfiltered nnx.split(m) is state(m) (R1); `bool(...)` wrappers and aliases of boolean combinations in branch "
    "conditions are the condition they wrap (R4); a field of an unmodified record (NamedTuple / dataclass / namedtuple) that the step function receives at its "
    "single call site is the caller's parameter the field was constructed from (R4)."
)
TRUSTED = [
    "flax nnx.update(m, s) overwrites m's state with s; nnx.state(m) reads it; nnx.clone returns a deep copy sharing no storage",
    "flax nnx.split(m) without filters returns (graphdef, state) with state equal to nnx.state(m)",
    "optax.incremental_update(new, old, step) (its leaf function is re-checked from the installed source in the thorough tier)",
    "distinct parameters of a training routine are distinct objects",
]
RULES = {
    "R1-helper-law": "soft: nnx.update(target, incremental_update(new=state(net), old=state(target), step=tau)); hard: nnx.update(target, state(net)); the online net is never written; tau reaches optax unmodified",
    "R2-no-alias": "every target-role object (2nd argument of a helper call, resolved through callee parameters and constructor fields) is a parameter or a fresh nnx.clone and differs from every online object",
    "R3-writers": "target-role objects are written only by the two helpers; helper calls pass (online, target) in that order",
    "R4-cadence": "each helper call is control dependent exactly on the documented cadence predicate plus warm-up gates",
    "R5-copy-order": "when one object is the target of one hard copy and the source of another in the same block, it is copied out first",
}

HELPERS = {"rl_blox.blox.target_net.soft_target_net_update": "soft", "rl_blox.blox.target_net.hard_target_net_update": "hard"}

# (function, documented kind, required cadence literal patterns, extra allowed literal patterns) - confirmed by reading the
# docstrings / algorithm descriptions.  `C` stands for any single identifier (the loop's own counter variable).
# warm-up gates and the step-budget guard of the loop itself (`while True: if not step < total_timesteps: break`) carry no cadence
WARM = [r"LtE\(learning_starts, C\)", r"Lt\(batch_size, C\)", r"Lt\(learning_starts, C\)", r"Lt\(C, total_timesteps\)"]
CADENCE = {
    "rl_blox.algorithm.nature_dqn.train_nature_dqn": ("hard", [r"Eq\(0, mod\(C, target_update_frequency\)\)"], WARM, 1),
    "rl_blox.algorithm.ddqn.train_ddqn": ("hard", [r"Eq\(0, mod\(C, target_update_frequency\)\)"], WARM, 1),
    "rl_blox.algorithm.per.train_ddqn_per": ("hard", [r"Eq\(0, mod\(C, target_update_frequency\)\)"], WARM, 1),
    "rl_blox.algorithm.ddpg.train_ddpg": ("soft", [], WARM, 2),
    "rl_blox.algorithm.td3.train_td3": ("soft", [r"Eq\(0, mod\(C, policy_delay\)\)"], WARM, 2),
    "rl_blox.algorithm.td3_lap.train_td3_lap": ("soft", [r"Eq\(0, mod\(C, policy_delay\)\)"], WARM, 2),
    "rl_blox.algorithm.sac.train_sac": ("soft", [r"Eq\(0, mod\(C, target_network_delay\)\)"], WARM, 1),
    "rl_blox.algorithm.td7._train_step": ("hard", [r"Eq\(0, mod\(C, target_delay\)\)"], [], 4),
    "rl_blox.algorithm.td7.train_td7": ("hard", [r"assess_performance_and_checkpoint\(\)\[0\]"], WARM + [r"use_checkpoints", r"or\(\w+, \w+\)", r"and\(.*use_checkpoints.*\)"], 1),
    "rl_blox.algorithm.mrq.train_mrq": ("hard", [r"Eq\(0, mod\(C, target_delay\)\)"], WARM, 2),
}


CALLER_GROUPS = [("rl_blox.algorithm.td7._train_step", "rl_blox.algorithm.td7.train_td7")]


def _foreign_helper_sites(repo, res):
    """New functions / methods (not part of the frozen surface, not fully inlined) that call a target-update helper."""
    from ..expand import load_known
    known = load_known()
    transparent = repo.transparent_helpers()
    out = []
    for qual, f2, mi2 in repo.all_functions():
        if qual in known or qual in transparent or "<locals>" in qual or qual in HELPERS:
            continue
        for n in ast.walk(f2):
            if isinstance(n, ast.Call) and isinstance(n.func, (ast.Name, ast.Attribute)) and repo.resolve_expr(mi2, n.func) in HELPERS:
                out.append(qual)
                break
    return out


def _helper_calls(repo, res, fn, cfg):
    """[(node id, call, kind, (online expr, target expr), order key)].  A helper call inside
    ``for a, b in ((x1, y1), (x2, y2)): helper(a, b)`` is unrolled over the literal pairs (enumerated idiom)."""
    out = []
    mi = fn._module
    for n in cfg.nodes:
        if n.ast is None or n.kind != "stmt":
            continue
        for c in ast.walk(n.ast):
            if not isinstance(c, ast.Call):
                continue
            t = res.resolve(c.func, mi, cfg, n.id)
            if not (t and t.qual in HELPERS):
                # the hard copy written out: nnx.update(target, nnx.state(online))
                if isinstance(c.func, (ast.Name, ast.Attribute)) and repo.resolve_expr(mi, c.func) == "flax.nnx.update" and len(c.args) == 2 and not c.keywords \
                        and isinstance(c.args[1], ast.Call) and isinstance(c.args[1].func, (ast.Name, ast.Attribute)) and repo.resolve_expr(mi, c.args[1].func) == "flax.nnx.state" \
                        and len(c.args[1].args) == 1 and not c.args[1].keywords and not any(isinstance(a_, ast.Starred) for a_ in list(c.args) + list(c.args[1].args)):
                    out.append((n.id, c, "hard", (c.args[1].args[0], c.args[0]), (c.lineno, 0)))
                continue
            kind = HELPERS[t.qual]
            # arguments by the helper's signature (net, target_net[, tau]): positional, keyword or bound by a partial alike
            if any(isinstance(a_, ast.Starred) for a_ in c.args) or any(k.arg is None for k in c.keywords):
                raise AnalysisError(f"{getattr(fn, '_qual', fn.name)}: helper call `{short(c, 60)}` with unpacked arguments (unrecognised form)")
            hf = repo.func(t.qual)
            b = bind_call(hf, c, list(t.prefix))
            for kw_, v_ in (getattr(t, "kwargs", None) or {}).items():
                b.setdefault(kw_, v_)
            hp = _ordered_params(hf)
            args = [b.get(pn) for pn in hp[:2]]
            if len(args) < 2 or any(a_ is None or isinstance(a_, list) for a_ in args):
                raise AnalysisError(f"{getattr(fn, '_qual', fn.name)}: helper call `{short(c, 60)}` cannot be bound to (net, target_net) (unrecognised idiom)")
            unrolled = None
            if isinstance(args[0], ast.Name) and isinstance(args[1], ast.Name):
                d0, d1 = cfg.defs_of(n.id, args[0].id), cfg.defs_of(n.id, args[1].id)
                if len(d0) == 1 and len(d1) == 1 and d0[0].kind == "for" and d1[0].kind == "for" and d0[0].node == d1[0].node:
                    it = d0[0].value
                    if isinstance(it, ast.Name):
                        dit = cfg.defs_of(d0[0].node, it.id)
                        if len(dit) == 1 and dit[0].kind == "assign" and isinstance(dit[0].value, (ast.Tuple, ast.List)):
                            it = dit[0].value
                    if isinstance(it, (ast.Tuple, ast.List)) and all(isinstance(x, (ast.Tuple, ast.List)) for x in it.elts) and d0[0].path and d1[0].path:
                        unrolled = []
                        for i, x in enumerate(it.elts):
                            try:
                                unrolled.append((x.elts[d0[0].path[0]], x.elts[d1[0].path[0]], (cfg.nodes[d0[0].node].lineno, i)))
                            except (IndexError, TypeError):
                                unrolled = None
                                break
                        hdr = d0[0].node
            if unrolled:
                for o, tg, key in unrolled:
                    out.append((hdr, c, kind, (o, tg), key))
            else:
                out.append((n.id, c, kind, (args[0], args[1]), (c.lineno, 0)))
    return out


_TRANSPARENT = ("int", "float")


def _simple_value(v) -> bool:
    """Arithmetic over names and numbers (int() / float() wrappers allowed): a value that can stand for the name it is bound to."""
    for x in ast.walk(v):
        if isinstance(x, (ast.Name, ast.BinOp, ast.UnaryOp, ast.Add, ast.Sub, ast.Mult, ast.USub, ast.UAdd, ast.Load)):
            continue
        if isinstance(x, ast.Constant) and isinstance(x.value, (int, float)) and not isinstance(x.value, bool):
            continue
        if isinstance(x, ast.Call) and isinstance(x.func, ast.Name) and x.func.id in _TRANSPARENT and len(x.args) == 1 and not x.keywords:
            continue
        return False
    return True


class _Prop(ast.NodeTransformer):
    """Copy propagation inside a branch condition: a local bound once to a simple value (`period = target_update_frequency`,
    `t = step + 1`) whose operands are unchanged since is replaced by that value, so that guards are compared by what they
    test and not by the names of temporaries."""

    def __init__(self, cfg, at, depth=0, carried=None):
        self.cfg, self.at, self.depth, self.carried = cfg, at, depth, carried or {}

    def visit_Name(self, n):
        if not isinstance(n.ctx, ast.Load) or self.depth > 4 or n.id in _TRANSPARENT:
            return n
        ds = self.cfg.defs_of(self.at, n.id)
        if len(ds) != 1 or ds[0].kind != "assign" or ds[0].value is None:
            return n
        rhs = ds[0].value
        if self.carried and not _simple_value(rhs):
            from ..expand import clone as _clone
            rhs = ast.fix_missing_locations(_Carried(self.carried).visit(_clone(rhs)))
        if not _simple_value(rhs):
            return n
        names = {x.id for x in ast.walk(rhs) if isinstance(x, ast.Name)}
        rd, out = self.cfg.reaching(), self.cfg.reaching_out()[ds[0].node]
        if n.id in names or not all(rd[self.at].get(nm) == out.get(nm) for nm in names):
            return n
        from ..expand import clone
        return _Prop(self.cfg, ds[0].node, self.depth + 1, self.carried).visit(clone(rhs))


def _split_max(nf, sc, e):
    """`max(a, b) <= x` is `a <= x and b <= x` (likewise <, and x >= / > max(a, b))."""
    if not (isinstance(e, ast.Compare) and len(e.ops) == 1):
        return [e]
    op, l, r = e.ops[0], e.left, e.comparators[0]

    def is_max(x):
        return isinstance(x, ast.Call) and not x.keywords and len(x.args) >= 2 and not any(isinstance(a, ast.Starred) for a in x.args) \
            and isinstance(x.func, (ast.Name, ast.Attribute)) and (nf.libop(sc.mi, x.func) in ("max", "maximum") or (isinstance(x.func, ast.Name) and x.func.id == "max" and nf.repo.resolve_expr(sc.mi, x.func) in (None, "builtins.max", "max")))
    if isinstance(op, (ast.Lt, ast.LtE)) and is_max(l):
        return [ast.Compare(left=a, ops=[op], comparators=[r]) for a in l.args]
    if isinstance(op, (ast.Gt, ast.GtE)) and is_max(r):
        return [ast.Compare(left=l, ops=[op], comparators=[a]) for a in r.args]
    return [e]


def _repo_result_name(nf, sc, cfg, name, at):
    rp = result_position(cfg, name, at)
    if rp is not None and isinstance(rp[0].func, (ast.Name, ast.Attribute)):
        fq = nf.repo.resolve_expr(sc.mi, rp[0].func)
        if fq and fq.startswith(nf.repo.PKG + "."):
            return f"{fq.rsplit('.', 1)[1]}()[{rp[1]}]"
    return None


def _lit_canon(nf, sc, cfg, txt, truth, at, carried=None):
    """Canonical texts of a branch literal (a list: `max(a, b) <= x` yields two), counter-agnostic normalisations applied."""
    try:
        e = ast.parse(txt, mode="eval").body
    except SyntaxError:
        return [f"{'' if truth else '!'}{txt}"]
    if carried:
        e = ast.fix_missing_locations(_Carried(carried).visit(e))
    if isinstance(e, ast.Name):
        # a flag unpacked from the result of a repo function is named by its origin (callee, position), not by the local name
        c = _repo_result_name(nf, sc, cfg, e.id, at)
        if c:
            return [c if truth else f"not({c})"]
    if isinstance(e, ast.BoolOp) and any(isinstance(v, ast.Name) and _repo_result_name(nf, sc, cfg, v.id, at) for v in e.values):
        # operands that are flags returned by repo functions keep their origin name inside `a or b` as well
        parts = []
        for v in e.values:
            sub = _lit_canon(nf, sc, cfg, ast.unparse(v), True, at, carried)
            parts.append(sub[0] if len(sub) == 1 else "and(" + ", ".join(sorted(sub)) + ")")
        c = ("and(" if isinstance(e.op, ast.And) else "or(") + ", ".join(sorted(parts)) + ")"
        return [c if truth else f"not({c})"]
    e = ast.fix_missing_locations(_Prop(cfg, at, 0, carried).visit(e))
    # truthiness of `x % y`
    if isinstance(e, ast.BinOp) and isinstance(e.op, ast.Mod):
        p = nf.poly(e, sc, at).canon()
        return [f"Eq(0, {p})" if not truth else f"NotEq(0, {p})"]
    if isinstance(e, ast.Compare) and len(e.ops) == 1 and not truth:
        neg = {ast.Lt: ast.GtE, ast.LtE: ast.Gt, ast.Gt: ast.LtE, ast.GtE: ast.Lt, ast.Eq: ast.NotEq, ast.NotEq: ast.Eq, ast.Is: ast.IsNot, ast.IsNot: ast.Is}
        k = type(e.ops[0])
        if k in neg:
            e = ast.Compare(left=e.left, ops=[neg[k]()], comparators=e.comparators)
            truth = True
    if truth:
        return [nf.poly(x, sc, at).canon() for x in _split_max(nf, sc, e)]
    return [f"not({nf.poly(e, sc, at).canon()})"]


def _int_alternative(nf, g):
    """The same inequality over integers with the constant moved (`a < b + 1` is `a <= b`): [text] or []."""
    m = nf.meta.get(g)
    if not m or m.get("fn") not in ("Lt", "LtE") or len(m.get("args", [])) != 2:
        return []
    a, b = m["args"]
    d = b - a - Poly.const(1 if m["fn"] == "Lt" else 0)         # d >= 0
    k = d.terms.get((), 0)
    if k.denominator != 1 or any(c.denominator != 1 for c in d.terms.values()):
        return []
    rest = d - Poly.const(k)
    pos = Poly({mo: c for mo, c in rest.terms.items() if c > 0})
    neg = Poly({mo: -c for mo, c in rest.terms.items() if c < 0})
    if k == -1:
        t = f"Lt({neg.canon()}, {pos.canon()})"
    elif k < -1:
        t = f"Lt({(neg + Poly.const(-k - 1)).canon()}, {pos.canon()})"
    else:
        t = f"LtE({neg.canon()}, {(pos + Poly.const(k)).canon()})"
    return [t] if t != g else []


def _carried_parameters(repo, res, nf, q, fn, cfg):
    """{(P, field): caller parameter} for every parameter P of a step function that, at its single call site in the documented
    caller, receives an immutable-by-use record (NamedTuple / dataclass / namedtuple construction of the package) whose field is
    bound to an unmodified parameter of the caller: reading `P.field` in the step function reads that parameter.  Fields bound to
    anything else, records that are written to, re-bound P and names that would collide with a name of the step function are left out
    (the read stays an opaque attribute: undecided, never a violation)."""
    group = [g for g in CALLER_GROUPS if g[0] == q]
    if not group:
        return {}
    caller_q = group[0][1]
    cfn = repo.func(caller_q)
    cmi, ccfg = cfn._module, res.cfg_of(cfn)
    sites = [(n.id, c) for n in ccfg.nodes if n.ast is not None and n.kind == "stmt" for c in ast.walk(n.ast)
             if isinstance(c, ast.Call) and isinstance(c.func, (ast.Name, ast.Attribute))
             and ((res.resolve(c.func, cmi, ccfg, n.id) or _NoTarget).qual == q or repo.resolve_expr(cmi, c.func) == q)]
    if len(sites) != 1:
        return {}
    at, call = sites[0]
    if any(isinstance(a_, ast.Starred) for a_ in call.args) or any(k.arg is None for k in call.keywords):
        return {}
    own_names = {d.name for n_ in cfg.nodes for d in n_.defs}
    stores = lambda f_, nm: any(isinstance(x, ast.Attribute) and isinstance(x.ctx, (ast.Store, ast.Del)) and isinstance(x.value, ast.Name) and x.value.id == nm for x in ast.walk(f_))
    out = {}
    for P, arg in bind_call(fn, call).items():
        if isinstance(arg, list) or P.startswith("*"):
            continue
        if [d.kind for n_ in cfg.nodes for d in n_.defs if d.name == P] != ["param"] or stores(fn, P):
            continue
        cat, ctor = at, arg
        if isinstance(arg, ast.Name):
            ds = ccfg.defs_of(at, arg.id)
            if len(ds) != 1 or ds[0].kind != "assign" or ds[0].value is None or stores(cfn, arg.id):
                continue
            cat, ctor = ds[0].node, ds[0].value
        if not (isinstance(ctor, ast.Call) and isinstance(ctor.func, (ast.Name, ast.Attribute))):
            continue
        cq = repo.resolve_expr(cmi, ctor.func)
        if not (cq and cq.startswith(repo.PKG + ".")):
            continue
        try:
            _m, node = repo.lookup(cq)
        except Exception:
            continue
        fields = nf._record_fields(node)
        if fields is None or any(isinstance(a_, ast.Starred) for a_ in ctor.args) or any(k.arg is None for k in ctor.keywords) or len(ctor.args) > len(fields):
            continue
        rec = dict(zip(fields, ctor.args))
        kw = {k.arg: k.value for k in ctor.keywords}
        if set(kw) & set(rec) or not set(kw) <= set(fields):
            continue
        rec.update(kw)
        for f_, v in rec.items():
            if not isinstance(v, ast.Name) or v.id in own_names:
                continue
            dv = ccfg.defs_of(cat, v.id)
            if len(dv) == 1 and dv[0].kind == "param" and [d.kind for n_ in ccfg.nodes for d in n_.defs if d.name == v.id] == ["param"]:
                out[(P, f_)] = v.id
    return out


class _Carried(ast.NodeTransformer):
    def __init__(self, carried):
        self.carried = carried

    def visit_Attribute(self, n):
        if isinstance(n.ctx, ast.Load) and isinstance(n.value, ast.Name) and (n.value.id, n.attr) in self.carried:
            return ast.copy_location(ast.Name(id=self.carried[(n.value.id, n.attr)], ctx=ast.Load()), n)
        return self.generic_visit(n)


def _truth_of(nf, mi, cfg, test, at, depth=0):
    """The condition a branch tests, with `bool(...)` wrappers removed in boolean positions (the test itself, operands of not / and /
    or): `over = bool(a or b); if over and c:` tests `(a or b) and c`.  A name is replaced only when it is bound once to `bool(<expr>)`
    and the operands of <expr> still have the values they had there."""
    if depth > 4:
        return test
    if isinstance(test, ast.UnaryOp) and isinstance(test.op, ast.Not):
        return ast.copy_location(ast.UnaryOp(op=ast.Not(), operand=_truth_of(nf, mi, cfg, test.operand, at, depth)), test)
    if isinstance(test, ast.BoolOp):
        return ast.copy_location(ast.BoolOp(op=test.op, values=[_truth_of(nf, mi, cfg, v, at, depth) for v in test.values]), test)

    def is_bool_call(x):
        return isinstance(x, ast.Call) and isinstance(x.func, ast.Name) and x.func.id == "bool" and len(x.args) == 1 and not x.keywords \
            and not isinstance(x.args[0], ast.Starred) and nf.repo.resolve_expr(mi, x.func) in (None, "builtins.bool", "bool")
    if is_bool_call(test):
        return _truth_of(nf, mi, cfg, test.args[0], at, depth + 1)
    if isinstance(test, ast.Name):
        ds = cfg.defs_of(at, test.id)
        if len(ds) == 1 and ds[0].kind == "assign" and is_bool_call(ds[0].value):
            rhs = ds[0].value.args[0]
            names = {x.id for x in ast.walk(rhs) if isinstance(x, ast.Name)}
            rd, out = cfg.reaching(), cfg.reaching_out()[ds[0].node]
            if test.id not in names and all(rd[at].get(nm) == out.get(nm) for nm in names):
                return _truth_of(nf, mi, cfg, rhs, at, depth + 1)
        rhs = cfg._expand_name(test, at)
        if isinstance(rhs, ast.BoolOp) or (isinstance(rhs, ast.UnaryOp) and isinstance(rhs.op, ast.Not)):
            # `due = not bool(x)`: the alias of a boolean combination is the combination (with its own wrappers removed)
            return _truth_of(nf, mi, cfg, rhs, at, depth + 1)
    return test


def _guards(nf, fn, cfg, nid, qual, carried=None):
    sc = Scope(None, fn._module, {}, qual)  # names stay names: guards are compared as written, not inlined
    out = []
    for b, lab in cfg.control_deps(nid):
        bn = cfg.nodes[b]
        if bn.kind == "for" or isinstance(bn.ast, (ast.For, ast.While)):
            continue  # loops: `for _ in range(gradient_steps)` and the main loop carry no cadence
        if bn.kind == "test" and isinstance(bn.ast, ast.If):
            for txt, truth in cfg._lits(_truth_of(nf, fn._module, cfg, bn.ast.test, b), lab, b):
                # a name that was expanded into its defining expression (`done = terminated or truncated; if done:`) is
                # represented by the expansion alone: the alias adds no condition
                if txt.isidentifier() and cfg._expand_name(ast.Name(id=txt, ctx=ast.Load()), b) is not None:
                    continue
                out += _lit_canon(nf, sc, cfg, txt, truth, b, carried)
    # flow-based supplement: `if <not due>: return ...` before the update - a dominating branch from only one arm of which the
    # update is reachable contributes its condition just like an enclosing `if`
    syntactic = {b for b, _ in cfg.control_deps(nid)}
    rd = cfg.reaching()
    for bn in cfg.nodes:
        if bn.kind != "test" or not isinstance(bn.ast, ast.If) or bn.id in syntactic or bn.id == nid or not cfg.dominates(bn.id, nid):
            continue
        reach = {lab: cfg.paths_avoiding(bn.id, nid, set(), feasible=False, first_label=lab) is not None for lab in (True, False)}
        if reach[True] == reach[False]:
            continue
        lab = True if reach[True] else False
        if rejects_input(bn.ast, lab):
            continue      # input validation (`if target_delay < 1: raise ...`) is no cadence condition
        names = {x.id for x in ast.walk(bn.ast.test) if isinstance(x, ast.Name)}
        if not all(rd[nid].get(nm) == rd[bn.id].get(nm) for nm in names):
            continue
        for txt, truth in cfg._lits(_truth_of(nf, fn._module, cfg, bn.ast.test, bn.id), lab, bn.id):
            if txt.isidentifier() and cfg._expand_name(ast.Name(id=txt, ctx=ast.Load()), bn.id) is not None:
                continue
            out += _lit_canon(nf, sc, cfg, txt, truth, bn.id, carried)
    # de-duplicate, drop conditions that folded to true
    res = []
    for g in out:
        if g in res or g in ("True", "not(False)", "1", "not(0)"):
            continue
        res.append(g)
    return res


def _match(lit: str, pat: str) -> bool:
    rx = "^" + re.sub(r"\bC\b", lambda m: r"[A-Za-z_][A-Za-z_0-9]*", pat) + "$"
    return re.match(rx, lit) is not None


def run(ck, repo: Repo, tier: str):
    res = Resolver(repo)
    nf = NF(repo, inline_calls=False)
    eff = Effects(repo, res)
    idn = Ident(repo)

    # ---------------- R1: helper bodies ---------------------------------------------------------
    for hq, kind in HELPERS.items():
        ck.guard(_r1_helper, ck, repo, nf, hq, kind)
    if tier == "thorough":
        _optax_oracle(ck, nf)

    # ---------------- per routine: R2 / R3 / R4 / R5 ---------------------------------------------------
    state = {"n_calls": 0, "short": []}
    for q in CADENCE:
        n_inc = len(ck.incomplete)
        ck.guard(_routine, ck, repo, res, nf, eff, idn, q, state)
        if len(ck.incomplete) > n_inc and q.rsplit(".", 1)[1] not in state["short"]:
            state["short"].append(q.rsplit(".", 1)[1])
    ck.floor("helper-call-sites", state["n_calls"], 10)
    # every helper call site in the package is covered by the table
    covered = set(CADENCE)
    transparent = repo.transparent_helpers()
    for qual, f2, mi2 in repo.all_functions():
        if qual in covered or qual in HELPERS or "<locals>" in qual or qual in transparent:
            continue
        for n in ast.walk(f2):
            if isinstance(n, ast.Call) and isinstance(n.func, (ast.Name, ast.Attribute)):
                r = repo.resolve_expr(mi2, n.func)
                if r in HELPERS and qual not in _KNOWN():
                    raise AnalysisError(f"{qual}: a new function / method calls a target-update helper and is not expanded at its call sites (cannot attribute the update to a cadence)")
                if r in HELPERS:
                    if state["short"]:
                        # an update that is missing from (or could not be read in) a documented routine may have moved here: not an additional one
                        raise AnalysisError(f"{qual}: calls a target-update helper while {state['short']} could not be read completely (cannot attribute the update to a cadence)")
                    ck.ob("R4-cadence", qual, "unregistered-call-site", False, short(n, 70), "every documented target update is in place and this routine, which has no documented cadence entry, performs another one", loc(mi2, n))


def _recorded_renames(q, fn):
    """{recorded parameter name: current name} when the current signature is the recorded one with some parameters renamed in place
    (parameters added later are ignored); {} otherwise."""
    from ..specialise import load_signatures
    rec = load_signatures().get(q) or []
    cur = param_names(fn)
    gone = [r for r in rec if r not in cur]
    if not gone:
        return {}
    new = [c for c in cur if c not in rec]
    for drop in ([], new[len(gone):], new[:len(new) - len(gone)]):
        cur2 = [c for c in cur if c not in drop]
        if len(cur2) == len(rec) and all(r == c or (r in gone and c in new) for r, c in zip(rec, cur2)):
            return {r: c for r, c in zip(rec, cur2) if r != c}
    return {}


def _pattern_for(pat, ren):
    return re.sub(r"[A-Za-z_][A-Za-z_0-9]*", lambda m: ren.get(m.group(0), m.group(0)), pat) if ren else pat


_CADENCE_LIT = re.compile(r"^(Eq|NotEq)\((-?\d+), mod\(([A-Za-z_][A-Za-z_0-9]*), ([A-Za-z_][A-Za-z_0-9]*)\)\)$")
_IDENT = r"[A-Za-z_][A-Za-z_0-9]*"


def _split_args(inner: str):
    out, depth, cur = [], 0, ""
    for ch in inner:
        if ch in "([{":
            depth += 1
        elif ch in ")]}":
            depth -= 1
        if ch == "," and depth == 0:
            out.append(cur.strip())
            cur = ""
        else:
            cur += ch
    if cur.strip():
        out.append(cur.strip())
    return out


def _expand_composite_updates(idn, res, repo, q, fn, cfg, calls):
    """`update(policy, policy_target)` where both are objects of one class of the package whose constructor stores sub-modules in fields
    (`self.embedding = embedding`): read as one update per field, in field order, at the same site."""
    out = []
    for nid, c, k, (oe, te), okey in calls:
        try:
            o_id = _ident_in_context(idn, res, repo, q, fn, cfg, nid, oe)
            t_id = _ident_in_context(idn, res, repo, q, fn, cfg, nid, te)
        except AnalysisError:
            out.append((nid, c, k, (oe, te), okey))
            continue
        if not (isinstance(o_id, tuple) and isinstance(t_id, tuple) and o_id[0] == "obj" and t_id[0] == "obj" and o_id[1] == t_id[1]):
            out.append((nid, c, k, (oe, te), okey))
            continue
        fields = [f_ for f_ in idn.class_fields(o_id[1]) if f_ != "__init__"]
        if len(fields) < 2:
            out.append((nid, c, k, (oe, te), okey))
            continue
        for i_, f_ in enumerate(fields):
            o2 = ast.copy_location(ast.Attribute(value=oe, attr=f_, ctx=ast.Load()), oe)
            t2 = ast.copy_location(ast.Attribute(value=te, attr=f_, ctx=ast.Load()), te)
            out.append((nid, c, k, (o2, t2), tuple(okey) + (i_,)))
    return out


def _routine(ck, repo, res, nf, eff, idn, q, state):
    kind, required, allowed, n_expected = CADENCE[q]
    fn = repo.func(q)
    mi = fn._module
    cfg = res.cfg_of(fn)
    # parameters handed over inside a record (`hparams.target_delay`) are read as the caller's parameters they carry
    carried = _carried_parameters(repo, res, nf, q, fn, cfg)
    pnames = set(param_names(fn)) | set(carried.values())
    ren = _recorded_renames(q, fn)
    required = [_pattern_for(p, ren) for p in required]
    allowed = [_pattern_for(p, ren) for p in allowed]
    from ..specialise import load_signatures
    rec_sig = set(load_signatures().get(q) or [])
    doc_params = {t for p in required for t in re.findall(_IDENT, p) if t in pnames or t in rec_sig or ren.get(t)} - {"C", "Eq", "mod"}
    calls = _helper_calls(repo, res, fn, cfg)
    if len(calls) < n_expected:
        # one update of a composite object (a policy made of an embedding and an actor) is the update of each of its sub-modules
        calls = _expand_composite_updates(idn, res, repo, q, fn, cfg, calls)
    state["n_calls"] += len(calls)
    if len(calls) < n_expected:
        state["short"].append(q.rsplit(".", 1)[1])
        # target updates that moved between a routine and its step function, or that go through an object's method / a helper
        # that could not be expanded, cannot be attributed to the documented cadence table: undecided, not a violation
        group = [g for g in CALLER_GROUPS if q in g]
        if group:
            tot = sum(len(_helper_calls(repo, res, repo.func(x), res.cfg_of(repo.func(x)))) for x in group[0])
            if tot >= sum(CADENCE[x][3] for x in group[0]):
                raise AnalysisError(f"{q}: the target updates are distributed differently over {[x.rsplit('.', 1)[1] for x in group[0]]} than documented (unrecognised form)")
        if _foreign_helper_sites(repo, res) or _known_unregistered_sites(repo) or any(_c == q for _c, _cq in getattr(repo, "expand_failed", [])):
            raise AnalysisError(f"{q}: {len(calls)} of {n_expected} documented target updates are visible; others go through code that cannot be attributed (unrecognised form)")
        looped = []
        for c_ in ast.walk(fn):
            if isinstance(c_, ast.Call) and isinstance(c_.func, (ast.Name, ast.Attribute)) and ((repo.resolve_expr(mi, c_.func) or "") == "flax.nnx.update" or (repo.resolve_expr(mi, c_.func) or "") in HELPERS):
                p_ = getattr(c_, "_parent", None)
                while p_ is not None and p_ is not fn:
                    tv_ = set()
                    if isinstance(p_, ast.For):
                        tv_ = {x_.id for x_ in ast.walk(p_.target) if isinstance(x_, ast.Name)}
                    elif isinstance(p_, (ast.ListComp, ast.GeneratorExp, ast.DictComp, ast.SetComp)):
                        tv_ = {x_.id for g_ in p_.generators for x_ in ast.walk(g_.target) if isinstance(x_, ast.Name)}
                    if tv_ & {x_.id for a_ in list(c_.args) + [k_.value for k_ in c_.keywords] for x_ in ast.walk(a_) if isinstance(x_, ast.Name)}:
                        looped.append(c_)      # the updated objects are the loop's variables
                        break
                    p_ = getattr(p_, "_parent", None)
        if looped:
            raise AnalysisError(f"{q}: `{short(looped[0], 50)}` runs inside a loop: one call site serves several (online, target) pairs, which cannot be matched with the {n_expected} documented updates one by one (unrecognised form)")
        raw = [c_ for c_ in ast.walk(fn) if isinstance(c_, ast.Call) and isinstance(c_.func, (ast.Name, ast.Attribute)) and repo.resolve_expr(mi, c_.func) in ("flax.nnx.update", "optax.incremental_update", "flax.nnx.merge")]
        if len(raw) > len([c_ for c_ in calls if HELPERS.get((res.resolve(c_[1].func, mi, cfg, c_[0]) or _NoTarget).qual) is None]):
            raise AnalysisError(f"{q}: {len(calls)} of {n_expected} documented target updates are visible as helper calls, but {len(raw)} raw nnx.update / incremental_update / merge calls are present (written out or expanded updates: not attributed)")
        # closed world: no other function of the package, no raw update and no unexpanded callee can perform the missing update
        ck.ob("R4-cadence", q, "helper-count", False, f"{len(calls)} target-update call(s), documented {n_expected}", "a documented target update is missing (and nothing else in the package performs it)", loc(mi, fn))
        return
    surplus = len(calls) > n_expected
    if not surplus:
        ck.ob("R4-cadence", q, "helper-count", True, f"{len(calls)} target-update call(s), documented {n_expected}", "", loc(mi, fn))
    targets, guarded = [], []
    in_loop = [bool(cfg.enclosing_loops(nid)) for nid, *_ in calls]
    for i_, (nid, c, k, (oe, te), okey) in enumerate(calls):
        if surplus and any(in_loop) and not in_loop[i_]:
            continue      # a copy before / after the training loop (initialisation of a target) is not one of the updates *during* training:
            #               it is not measured against the cadence (the routine stays undecided, see below)
        where = loc(mi, c)
        label = f"{short(oe, 30)}->{short(te, 30)}"
        if k != kind and k == "soft" and _soft_with_unit_step(repo, res, mi, cfg, nid, c):
            raise AnalysisError(f"{q}: update {label} is a soft update with step size 1 where a hard copy is documented (equal up to rounding: unrecognised form)")
        ck.ob("R4-cadence", q, f"kind:{label}", k == kind, f"{k} update {label}", "" if k == kind else f"documented update kind is {kind}", where)
        o_id = _ident_in_context(idn, res, repo, q, fn, cfg, nid, oe)
        t_id = _ident_in_context(idn, res, repo, q, fn, cfg, nid, te)
        targets.append((nid, c, o_id, t_id, oe, te, okey))
        # R4 guards
        p_ = getattr(c, "_parent", None)
        while p_ is not None and not isinstance(p_, ast.stmt):
            if isinstance(p_, (ast.IfExp, ast.BoolOp, ast.Lambda, ast.ListComp, ast.SetComp, ast.DictComp, ast.GeneratorExp)):
                raise AnalysisError(f"{q}: update {label} is evaluated inside `{short(p_, 60)}`: a condition that is not a branch of the control flow (unrecognised form)")
            p_ = getattr(p_, "_parent", None)
        guarded.append((nid, c, k, label, where, o_id, t_id, _guards(nf, fn, cfg, nid, q, carried)))
    if surplus:
        # the same update written on both arms of a branch (`if x: update(a, b) ... else: update(a, b)`) runs whatever x is: the two
        # guard sets, which differ in one literal and its negation, stand for their common part
        from ..sem import _negate
        for i, gi in enumerate(guarded):
            for j, gj in enumerate(guarded):
                if i < j and gi[2] == gj[2] and (gi[5], gi[6]) == (gj[5], gj[6]) and gi[0] != gj[0]:
                    common = [g for g in gi[7] if g in gj[7]]
                    d1, d2 = [g for g in gi[7] if g not in common], [g for g in gj[7] if g not in common]
                    if len(d1) == 1 and len(d2) == 1 and (_negate(d1[0]) == d2[0] or _negate(d2[0]) == d1[0]):
                        guarded[i], guarded[j] = gi[:7] + (common,), gj[:7] + (common,)

    def matches(g, pats):
        return any(_match(t, p) for t in [g] + _int_alternative(nf, g) for p in pats)
    for nid, c, k, label, where, o_id, t_id, gs in guarded:
        missing = [p for p in required if not any(matches(g, [p]) for g in gs)]
        extra = [g for g in gs if not matches(g, required + allowed)]
        ok = not missing and not extra
        why = ""
        if not ok:
            if doc_params - pnames:
                raise AnalysisError(f"{q}: the documented cadence parameter(s) {sorted(doc_params - pnames)} are not parameters any more (renamed?): update {label} under {gs} cannot be compared (unrecognised form)")
            why = _cadence_evidence(repo, nf, fn, cfg, mi, q, nid, label, gs, missing, extra, required, pnames, doc_params, matches)
        ck.ob("R4-cadence", q, f"guard:{label}", ok, f"{label} under {gs}", why, where)
    if surplus:
        for i, (n1, c1, o1, t1, oe1, te1, k1) in enumerate(targets):
            for (n2, c2, o2, t2, oe2, te2, k2) in targets[i + 1:]:
                if k1 != k2 and n1 != n2 and (o1, t1) == (o2, t2) and _is_fresh(o1) and _is_fresh(t1) and cfg.control_deps(n1) == cfg.control_deps(n2) \
                        and HELPERS.get((res.resolve(c1.func, mi, cfg, n1) or _NoTarget).qual) == "soft" and HELPERS.get((res.resolve(c2.func, mi, cfg, n2) or _NoTarget).qual) == "soft":
                    ck.ob("R4-cadence", q, "helper-count", False, f"`{short(c1, 50)}` at lines {c1.lineno} and {c2.lineno}", "the same soft update is applied twice at one update point (same objects, same block): the step is not tau any more", loc(mi, c2))
        # more update calls than documented: each was checked against the documented cadence above (an added update point shows there);
        # which of them are the documented ones (or whether one documented update was split into several) cannot be said
        raise AnalysisError(f"{q}: {len(calls)} target-update calls, documented {n_expected}: they cannot be matched with the documented updates one by one (unrecognised form)")
    # R2 / R3
    for nid, c, o_id, t_id, oe, te, okey in targets:
        where = loc(mi, c)
        unread = [x for x in _leaves_ctx(idn, res, repo, q, fn, cfg, t_id) | {t_id} if not _is_fresh(x)]
        if unread:
            # provenance that the identity analysis cannot read (a call result, a merge of unknown values ...) is not evidence of sharing
            raise AnalysisError(f"{q}: target object `{short(te, 40)}` is {sorted(_stable(show(x)) for x in unread)}: where it comes from cannot be read (unrecognised form)")
        # an object may be target of one copy and source of another (TD7's fixed embedding); it must still not be an *online-trained* object
        ck.ob("R2-no-alias", q, f"fresh:{short(te, 40)}", True, f"target `{short(te, 40)}` = {show(t_id)}", "", where)
        # component-wise: no sub-module of the target object is a sub-module of (or is) an online / trained object
        t_leaves = _leaves_ctx(idn, res, repo, q, fn, cfg, t_id)
        o_leaves = _leaves_ctx(idn, res, repo, q, fn, cfg, o_id)
        shared = {x for x in t_leaves for y in o_leaves if has_base(x, y) or has_base(y, x)}
        ck.ob("R2-no-alias", q, f"components-distinct:{short(te, 40)}", not shared, f"components of target {sorted(show(x) for x in t_leaves)} vs online {sorted(show(x) for x in o_leaves)}",
              "" if not shared else f"target and online object share the sub-module(s) {sorted(_stable(show(x)) for x in shared)}: a target update overwrites the online component (and training it changes the target)", where)
        ck.ob("R2-no-alias", q, f"components-fresh:{short(te, 40)}", True, f"components of target `{short(te, 40)}`", "", where)
        same = o_id == t_id or has_base(t_id, o_id) or has_base(o_id, t_id)
        ck.ob("R2-no-alias", q, f"distinct:{short(te, 40)}", not same, f"online {show(o_id)} vs target {show(t_id)}", "" if not same else "online and target are (or may be) the same object, or one is a sub-module of the other", where)
    # R3: other writers of target objects
    eff.summary(q)
    trained = []
    for kind_s, call, path, op in eff.sites.get(q, []):
        if kind_s.startswith("call ") and kind_s.split(" ", 1)[1] in HELPERS:
            continue
        if any(call is hc_ for _n, hc_, _o, _t, _oe, _te, _k in targets):
            continue      # the hard copy written out (nnx.update(target, nnx.state(online))) is a recognised target update
        try:
            nid = cfg.node_of(call).id
        except KeyError:
            continue
        e = _path_expr(path)
        w_id = _ident_in_context(idn, res, repo, q, fn, cfg, nid, e)
        trained.append((call, w_id, kind_s))
        for _, hc, o_id, t_id, oe, te, okey in targets:
            t_leaves = _leaves_ctx(idn, res, repo, q, fn, cfg, t_id)
            bad = any(has_base(w_id, x) or has_base(x, w_id) for x in t_leaves | {t_id})
            if bad and not _is_source_too(t_id, targets):
                ck.ob("R3-writers", q, f"writer:{_stable(show(w_id))}", False, f"`{short(call, 60)}` writes {show(w_id)}",
                      f"a target-role object ({show(t_id)}) is written outside the target-update helpers", loc(mi, call))
    for _, hc, o_id, t_id, oe, te, okey in targets:
        ck.ob("R3-writers", q, f"only-helpers:{short(te, 40)}", True, f"{show(t_id)} written by helper only", "", loc(mi, hc))
        # (online, target) order: the online object must be one that is trained or itself a copy source; the target never trained
        is_trained_target = any(has_base(w, t_id) or has_base(t_id, w) for _, w, k in trained)
        is_trained_online = any(has_base(w, o_id) or has_base(o_id, w) for _, w, k in trained) or any(x[3] == o_id for x in targets)
        okk = not is_trained_target or _is_source_too(t_id, targets)
        if okk and not (is_trained_online or q.endswith("train_td7")):
            # no write to the first argument is visible in this routine: that is absence of evidence (the training call may not be
            # attributable), not evidence of swapped arguments
            raise AnalysisError(f"{q}: cannot confirm that `{short(oe, 30)}` (copied to `{short(te, 30)}`) is the trained object: no attributable training write")
        ck.ob("R3-writers", q, f"order:{short(oe, 30)}->{short(te, 30)}", okk, f"{short(oe, 30)}->{short(te, 30)}: online={show(o_id)} target={show(t_id)}",
              "" if okk else "arguments look swapped: the second argument (the object that is overwritten) is trained in this routine", loc(mi, hc))
    # R5 chained copies
    for (n1, c1, o1, t1, oe1, te1, k1) in targets:
        for (n2, c2, o2, t2, oe2, te2, k2) in targets:
            if k1 == k2:
                continue
            if t1 == o2 and cfg.control_deps(n1) == cfg.control_deps(n2):
                # copy 2 reads what copy 1 overwrites: copy 2 must come first
                ok = k2 < k1
                ck.ob("R5-copy-order", q, f"{short(oe2, 30)}-before-overwrite", ok, f"{short(oe2, 30)}->{short(te2, 30)} before {short(oe1, 30)}->{short(te1, 30)}",
                      "" if ok else "the object is overwritten before its previous value is copied to its own target: both end up identical (the one-period lag is lost)", loc(mi, c1))


class _NoTarget:
    qual = None


def _known_unregistered_sites(repo):
    """Functions of the recorded surface outside the cadence table that call a target-update helper (an update may have moved there)."""
    out = []
    transparent = repo.transparent_helpers()
    for qual, f2, mi2 in repo.all_functions():
        if qual in CADENCE or qual in HELPERS or "<locals>" in qual or qual in transparent or qual not in _KNOWN():
            continue
        if any(isinstance(n, ast.Call) and isinstance(n.func, (ast.Name, ast.Attribute)) and repo.resolve_expr(mi2, n.func) in HELPERS for n in ast.walk(f2)):
            out.append(qual)
    return out


def _soft_with_unit_step(repo, res, mi, cfg, nid, c):
    t = res.resolve(c.func, mi, cfg, nid)
    if not (t and t.qual in HELPERS):
        return False
    hf = repo.func(t.qual)
    b = bind_call(hf, c, list(t.prefix))
    for kw, v in (getattr(t, "kwargs", {}) or {}).items():
        b.setdefault(kw, v)
    op = _ordered_params(hf)
    v = b.get(op[2]) if len(op) > 2 else None
    return isinstance(v, ast.Constant) and not isinstance(v.value, bool) and isinstance(v.value, (int, float)) and v.value == 1


def _cadence_evidence(repo, nf, fn, cfg, mi, q, nid, label, gs, missing, extra, required, pnames, doc_params, matches):
    """Why a guard set that differs from the documented one is a different cadence - or AnalysisError when the difference is not
    understood.  Evidence: (E1) a cadence literal `k == C % P` with another constant / parameter / sense than documented,
    (E2) a disjunction that weakens the documented predicate, (E3) a completely understood guard set without the documented
    predicate while no loop around the call depends on the cadence parameter, (E4) an additional condition over parameters, counters and
    flags returned by the environment / repo functions."""
    OPS = {"Eq", "NotEq", "Lt", "LtE", "Is", "IsNot", "In", "NotIn", "and", "or", "not", "mod", "None", "True", "False"}
    req_tokens = {t for p in required for t in re.findall(_IDENT, p)} - OPS - {"C", "w"}

    def name_ok(nm, depth=0):
        if nm in OPS or nm in pnames:
            return True
        ds_ = [d for n_ in cfg.nodes for d in n_.defs if d.name == nm]
        if not ds_ or depth > 4:
            return nm in req_tokens       # a name of the documented predicate itself (the repo function whose result is the flag)
        for d in ds_:
            if d.kind in ("param", "for", "aug", "with"):
                continue
            if result_position_def(cfg, d) is not None:
                continue      # a position of a call's result
            if d.kind == "assign" and d.value is not None and _simple_value(d.value) and all(name_ok(x_.id, depth + 1) for x_ in ast.walk(d.value) if isinstance(x_, ast.Name) and x_.id not in _TRANSPARENT):
                continue      # a counter: `epoch = 0 ... epoch += 1`, `t = step + 1`
            return False
        return True

    def understood(g):
        # every modulo must be the plain `counter % parameter` (or `counter % <integer>`): a shifted counter / derived period may be an
        # equivalent spelling
        if any(not re.match(rf"^{_IDENT}, ({_IDENT}|\d+)\)", g[m.end():]) for m in re.finditer(r"mod\(", g)):
            return False
        return all(name_ok(nm) for nm in set(re.findall(_IDENT, g)))
    for g in extra:
        if g.startswith("or(") and g.endswith(")") and any(matches(x, required) for x in _split_args(g[3:-1])):
            return f"the documented cadence predicate is weakened by a disjunction `{g}`: the update also runs when it is false"      # E2
    unknown = [g for g in extra if not understood(g)]
    if unknown:
        raise AnalysisError(f"{q}: update {label} is guarded by {unknown} (cannot relate to the documented cadence)")
    for g in extra:
        m = _CADENCE_LIT.match(g)
        if m and m.group(4) in pnames:
            return f"guarded by the cadence `{g}`, documented {required or 'none'} (guards: {gs})"          # E1
    if extra:
        return (f"not guarded by the documented cadence {missing} and " if missing else "") + f"additionally guarded by {extra}: documented update points are skipped"      # E4
    # E3: only documented / warm-up gates, the cadence predicate itself is absent.  The branch conditions around the call are all
    # understood, so the cadence could only be realised by the loops around it (`for _ in range(step // period)` ...): evidence when the
    # cadence parameter does not feed the header of an enclosing loop
    feeding = set()
    for b_, _lab in cfg.control_deps(nid):
        s_ = cfg.nodes[b_].ast
        hdr = s_.iter if isinstance(s_, (ast.For, ast.AsyncFor)) else s_.test if isinstance(s_, ast.While) else None
        if hdr is not None:
            feeding |= {x.id for x in ast.walk(hdr) if isinstance(x, ast.Name)}
    for _ in range(4):
        for n_ in cfg.nodes:
            for d in n_.defs:
                if d.name in feeding and isinstance(getattr(d, "value", None), ast.AST):
                    feeding |= {x.id for x in ast.walk(d.value) if isinstance(x, ast.Name)}
    if feeding & doc_params:
        raise AnalysisError(f"{q}: update {label} is not under the documented cadence {missing} (guards: {gs}), but {sorted(feeding & doc_params)} feeds the header of a loop around it: the cadence may be realised there (unrecognised form)")
    return f"not guarded by the documented cadence {missing} (guards: {gs}); no loop around the call depends on the cadence parameter"


def _ordered_params(fn):
    a = fn.args
    return [x.arg for x in a.posonlyargs + a.args + a.kwonlyargs]


_BOOL_EXTRAS = ("or", "and", "not")


def _tau_fact(nf, sc, cfg, txt, truth, at, p_tau):
    """What one branch literal of a helper says about the step size: ("eq", c) - on this arm tau == c (for tau in the documented
    range [0, 1]); ("tau",) - a condition over tau and constants only; ("other",) - anything else."""
    try:
        e = ast.parse(txt, mode="eval").body
    except SyntaxError:
        return ("other",)
    if p_tau is None:
        return ("other",)
    T = Poly.atom(p_tau)
    if isinstance(e, ast.Compare) and len(e.ops) == 1 and isinstance(e.ops[0], (ast.Eq, ast.NotEq, ast.Lt, ast.LtE, ast.Gt, ast.GtE)):
        d = nf.poly(e.left, sc, at) - nf.poly(e.comparators[0], sc, at)
        if d.atoms() != {p_tau}:
            return ("other",)
        parts = d.degree_split(p_tau)
        if set(parts) - {0, 1} or 1 not in parts or not parts[1].is_const() or (0 in parts and not parts[0].is_const()):
            return ("tau",)
        a = parts[1].const_value()
        c = -(parts[0].const_value() if 0 in parts else 0) / a        # a * (tau - c)  <op>  0
        op = type(e.ops[0])
        if not truth:
            op = {ast.Eq: ast.NotEq, ast.NotEq: ast.Eq, ast.Lt: ast.GtE, ast.LtE: ast.Gt, ast.Gt: ast.LtE, ast.GtE: ast.Lt}[op]
        if a < 0:
            op = {ast.Lt: ast.Gt, ast.LtE: ast.GtE, ast.Gt: ast.Lt, ast.GtE: ast.LtE}.get(op, op)
        if op is ast.Eq or (op is ast.LtE and c == 0) or (op is ast.GtE and c == 1):
            return ("eq", c)
        return ("tau",)
    p = nf.poly(e, sc, at)
    if p == T:
        return ("eq", 0) if not truth else ("tau",)       # `if not tau:` - the falsy step size is 0
    return ("tau",) if p.atoms() == {p_tau} else ("other",)


def _split_is_flax(repo, mi):
    """Every `*.split(...)` call of the module is flax's nnx.split (and not, say, jax.random.split)."""
    calls = [c for c in ast.walk(mi.tree) if isinstance(c, ast.Call) and isinstance(c.func, (ast.Name, ast.Attribute))
             and (c.func.id if isinstance(c.func, ast.Name) else c.func.attr) == "split"]
    return bool(calls) and all(repo.resolve_expr(mi, c.func) == "flax.nnx.split" for c in calls)


def _norm_state(nf, repo, mi, p):
    """`nnx.split(m)` without filters returns (graphdef, state) with state = nnx.state(m): its second component is read as
    `state(m)`, so that the value is compared by what it is and not by the accessor it was obtained with."""
    sub = {}
    for a in p.atoms():
        m = nf.meta.get(a) or {}
        if m.get("fn") != "proj" or not a.endswith("[1]") or len(m.get("args", [])) != 1 or m.get("kws"):
            continue
        inner = m["args"][0].single_atom()
        mi_ = nf.meta.get(inner) or {}
        if inner is None or a != inner + "[1]" or mi_.get("fn", "").split(".")[-1] != "split" or len(mi_.get("args", [])) != 1 or mi_.get("kws"):
            continue
        obj = mi_["args"][0].single_atom()
        if obj is None or not _split_is_flax(repo, mi):
            continue
        sub[a] = Poly.atom(f"state({obj})")
    return p.subst(sub) if sub else p


def _written_value(nf, repo, cfg, mi, sc, hq, ve, vn):
    """(normal form of the value handed to nnx.update - leaf-wise for tree maps and optax.incremental_update -, text shown,
    the expression that was read, its node)."""
    for _ in range(6):
        if isinstance(ve, ast.Name):
            ds = cfg.defs_of(vn, ve.id)
            if len(ds) == 1 and ds[0].kind == "assign" and ds[0].value is not None:
                ve, vn = ds[0].value, ds[0].node
                continue
        break
    fq = repo.resolve_expr(mi, ve.func) if isinstance(ve, ast.Call) and isinstance(ve.func, (ast.Name, ast.Attribute)) else None
    if fq == "optax.incremental_update":
        if any(isinstance(a_, ast.Starred) for a_ in ve.args) or any(kw.arg is None for kw in ve.keywords):
            raise AnalysisError(f"{hq}: optax.incremental_update called with unpacked arguments (unrecognised form)")
        b = dict(zip(("new_tensors", "old_tensors", "step_size"), ve.args))
        b.update({kw.arg: kw.value for kw in ve.keywords})
        if not all(k in b for k in ("new_tensors", "old_tensors", "step_size")):
            raise AnalysisError(f"{hq}: optax.incremental_update `{short(ve, 80)}` does not bind new / old / step (unrecognised form)")
        n_, o_, s_ = (_norm_state(nf, repo, mi, nf.poly(b[k], sc, vn)) for k in ("new_tensors", "old_tensors", "step_size"))
        return s_ * n_ + (Poly.const(1) - s_) * o_, f"incremental_update(new={n_.canon()}, old={o_.canon()}, step={s_.canon()})", ve, vn
    if fq in TREE_MAPS:
        trees = [a_ for a_ in ve.args[1:] if not isinstance(a_, ast.Starred)]
        if not ve.args or len(trees) != len(ve.args) - 1 or any(kw.arg not in ("is_leaf",) for kw in ve.keywords):
            raise AnalysisError(f"{hq}: tree map `{short(ve, 80)}` with unpacked / unknown arguments (unrecognised form)")
        leaf = leaf_application(repo, mi, ve.args[0], trees, cfg, vn)
        got = _norm_state(nf, repo, mi, nf.poly(leaf, sc, vn))
        return got, f"leaf-wise {got.canon()}", leaf, vn
    got = _norm_state(nf, repo, mi, nf.poly(ve, sc, vn))
    return got, got.canon(), ve, vn


def _state_filter_only(nf, got, names):
    """Every atom is a documented ingredient or `state(<net|target>, <filters>)`: the documented states restricted by a filter."""
    seen = False
    for a in got.atoms():
        if a in names:
            continue
        m = nf.meta.get(a) or {}
        if m.get("fn", "").split(".")[-1] == "state" and m.get("args") and f"state({m['args'][0].canon()})" in names and (len(m["args"]) > 1 or m.get("kws")):
            seen = True
            continue
        return False
    return seen


def _reads(nf, sc, e, at, repo=None, mi=None):
    """Canonical texts of the sub-expressions (calls and names) an expression is computed from."""
    out = set()
    for x in ast.walk(e):
        if isinstance(x, ast.Call) or (isinstance(x, ast.Name) and isinstance(x.ctx, ast.Load)):
            try:
                p_ = nf.poly(x, sc, at)
                out.add((_norm_state(nf, repo, mi, p_) if repo is not None else p_).canon())
            except AnalysisError:
                pass
    return out


def _event(nf, repo, cfg, mi, sc, hq, c, nid, depth=0):
    """One update event of a helper body: (object written, value written - leaf-wise normal form, text, what the value is read from).
    The event is `nnx.update(obj, value)` or a call of the other helper, whose own single update is read with the arguments bound by
    signature."""
    fq = repo.resolve_expr(mi, c.func)
    if fq == "flax.nnx.update":
        if len(c.args) != 2 or c.keywords or any(isinstance(a_, ast.Starred) for a_ in c.args):
            raise AnalysisError(f"{hq}: `{short(c, 60)}`: arguments of nnx.update cannot be read (unrecognised form)")
        got_p, shown, read_e, read_n = _written_value(nf, repo, cfg, mi, sc, hq, c.args[1], nid)
        return nf.poly(c.args[0], sc, nid), got_p, shown, _reads(nf, sc, read_e, read_n, repo, mi)
    if depth:
        raise AnalysisError(f"{hq}: the helpers call each other (unrecognised form)")
    fn2 = repo.func(fq)
    mi2, cfg2, op2 = fn2._module, nf.cfg_of(fn2), _ordered_params(fn2)
    if any(isinstance(a_, ast.Starred) for a_ in c.args) or any(kw.arg is None for kw in c.keywords):
        raise AnalysisError(f"{hq}: `{short(c, 60)}` with unpacked arguments (unrecognised form)")
    b = bind_call(fn2, c)
    n_par = 3 if HELPERS[fq] == "soft" else 2
    if len(op2) < n_par or not all(op2[i] in b for i in range(n_par)):
        raise AnalysisError(f"{hq}: `{short(c, 60)}` does not bind the parameters of {fq.rsplit('.', 1)[1]} (unrecognised form)")
    inner = [(n2.id, c2) for n2 in cfg2.nodes if n2.ast is not None and n2.kind == "stmt" for c2 in ast.walk(n2.ast)
             if isinstance(c2, ast.Call) and isinstance(c2.func, (ast.Name, ast.Attribute)) and repo.resolve_expr(mi2, c2.func) in ("flax.nnx.update",) + tuple(HELPERS)]
    if len(inner) != 1 or cfg2.control_deps(inner[0][0]) or any(n2.kind == "test" for n2 in cfg2.nodes):
        raise AnalysisError(f"{hq}: hands the update to {fq.rsplit('.', 1)[1]}, which does not consist of one unconditional update (unrecognised form)")
    sc2 = Scope(cfg2, mi2, {}, fq)
    t2, g2, shown2, reads2 = _event(nf, repo, cfg2, mi2, sc2, fq, inner[0][1], inner[0][0], depth + 1)
    args = [nf.poly(b[op2[i]], sc, nid) for i in range(n_par)]
    if args[0].single_atom() is None or args[1].single_atom() is None or t2.single_atom() not in (op2[0], op2[1]):
        raise AnalysisError(f"{hq}: `{short(c, 60)}`: the networks handed on cannot be read (unrecognised form)")
    mapping = {f"state({op2[0]})": Poly.atom(f"state({args[0].single_atom()})"), f"state({op2[1]})": Poly.atom(f"state({args[1].single_atom()})")}
    if n_par == 3:
        mapping[op2[2]] = args[2]
    if not g2.atoms() <= set(mapping):
        raise AnalysisError(f"{hq}: {fq.rsplit('.', 1)[1]} writes `{g2.canon()[:100]}`, which is not a function of its parameters' states (unrecognised form)")
    got = g2.subst(mapping)
    reads = {mapping[r].canon() for r in reads2 if r in mapping}
    written = args[1] if t2.single_atom() == op2[1] else args[0]
    return written, got, f"{fq.rsplit('.', 1)[1]}({', '.join(a_.canon() for a_ in args)}) = {got.canon()}", reads


def _r1_helper(ck, repo, nf, hq, kind):
    """The body of one helper, read by position of its parameters (net, target_net[, tau]) and per path."""
    from ..sympath import enumerate_paths
    fn = repo.func(hq)
    mi = fn._module
    cfg = nf.cfg_of(fn)
    sc = Scope(cfg, mi, {}, hq)
    op = _ordered_params(fn)
    ck.need(len(op) >= (3 if kind == "soft" else 2), f"{hq}: signature changed (anchor vanished): {op}")
    p_net, p_tgt, p_tau = op[0], op[1], (op[2] if kind == "soft" else None)
    A, B = Poly.atom(f"state({p_net})"), Poly.atom(f"state({p_tgt})")
    names = {f"state({p_net})", f"state({p_tgt})"} | ({p_tau} if p_tau else set())
    want_p = (Poly.atom(p_tau) * A + (Poly.const(1) - Poly.atom(p_tau)) * B) if kind == "soft" else A
    ups = {}
    for n in cfg.nodes:
        if n.ast is None or n.kind != "stmt":
            continue
        for c in ast.walk(n.ast):
            if isinstance(c, ast.Call) and isinstance(c.func, (ast.Name, ast.Attribute)) and (repo.resolve_expr(mi, c.func) == "flax.nnx.update" or (repo.resolve_expr(mi, c.func) in HELPERS and repo.resolve_expr(mi, c.func) != hq)):
                ups.setdefault(n.id, []).append(c)       # an update, or the work handed to the other helper
    if not ups:
        if not any(isinstance(x, ast.Name) and x.id == p_tgt and isinstance(x.ctx, ast.Load) for x in ast.walk(fn)):
            ck.ob("R1-helper-law", hq, "single-update", False, f"0 nnx.update call(s); `{p_tgt}` is never read", "the helper cannot change the target network: its parameter is not used", loc(mi, fn))
            return
        raise AnalysisError(f"{hq}: no nnx.update call is visible: the target may be written by other means (unrecognised form)")
    if any(cfg.enclosing_loops(nid) for nid in ups):
        raise AnalysisError(f"{hq}: nnx.update runs inside a loop (unrecognised form)")
    try:
        paths = enumerate_paths(cfg, cfg.entry, {cfg.exit}, max_paths=200)
    except RuntimeError:
        raise AnalysisError(f"{hq}: too many paths through the helper (unrecognised form)")
    ck.need(paths, f"{hq}: no path from entry to exit (unrecognised form)")
    todo, skipping, multi = {}, [], False
    for path in paths:
        facts = []
        for nid, lab in path:
            bn = cfg.nodes[nid]
            if bn.kind == "test" and hasattr(bn.ast, "test") and lab in (True, False):
                for txt, truth in cfg._lits(bn.ast.test, lab, nid):
                    if txt.isidentifier() and cfg._expand_name(ast.Name(id=txt, ctx=ast.Load()), nid) is not None:
                        continue
                    facts.append(_tau_fact(nf, sc, cfg, txt, truth, nid, p_tau))
        eqs = {f[1] for f in facts if f[0] == "eq"}
        if len(eqs) > 1:
            continue        # contradictory conditions: not a path
        bind = next(iter(eqs)) if eqs else None
        on = [(nid, c) for nid, _ in path for c in ups.get(nid, [])]
        if not on:
            if not (kind == "soft" and bind == 0):      # tau = 0 is documented as a no-op
                skipping.append((path, facts))
        elif len(on) > 1:
            multi = True
        for nid, c in on:
            todo.setdefault((nid, id(c), bind), (nid, c, bind))
    for nid, c, bind in todo.values():
        sfx = "" if bind is None else f"@{p_tau}={bind}"
        tgt_p, got_p, shown, reads_old = _event(nf, repo, cfg, mi, sc, hq, c, nid)
        tgt = tgt_p.canon()
        if tgt_p.single_atom() not in (p_tgt, p_net):
            raise AnalysisError(f"{hq}: `{short(c, 60)}` writes `{tgt[:80]}`, which is neither parameter (unrecognised form)")
        ok_t = tgt_p.single_atom() == p_tgt
        ck.ob("R1-helper-law", hq, "writes-target" + sfx, ok_t, f"nnx.update({tgt}, ...)", "" if ok_t else f"the helper writes `{tgt}`, not the target network (online network must stay unchanged)", loc(mi, c))
        w_p = want_p
        if bind is not None:
            got_p, w_p = got_p.subst({p_tau: Poly.const(bind)}), want_p.subst({p_tau: Poly.const(bind)})
        ok_v, inexact = got_p == w_p, False
        if ok_v and kind == "hard" and f"state({p_tgt})" in reads_old:
            # a hard copy is exact: a value that normalises to state(net) but is computed from the old target as well (t + 1*(p - t),
            # 1*p + 0*t) differs from it in floating point (rounding, inf / nan in the old target)
            ok_v, shown, inexact = False, shown + " (computed from the old target state by arithmetic)", True
        if not ok_v and not (got_p == w_p) and not ((same_ingredients(got_p, w_p, _BOOL_EXTRAS + ("state", p_net, p_tgt)) and ingredient_tokens(got_p)) or _state_filter_only(nf, got_p, names)):
            raise AnalysisError(f"{hq}: the value written to the target `{got_p.canon()[:120]}` is not a recognised form of `{w_p.canon()}` (unrecognised form)")
        ck.ob("R1-helper-law", hq, "update-value" + sfx, ok_v, f"value = {shown}", "" if ok_v else ("a hard update must be an exact copy of the online state; arithmetic over the old target (rounding, inf / nan) is not" if inexact else f"expected {'leaf-wise ' if kind == 'soft' else ''}`{w_p.canon()}`: wrong source, swapped roles or modified step size"), loc(mi, c))
    # every call must update the target (tau = 0 excepted, where doing nothing is the documented result)
    witness = None
    for path, facts in skipping:
        if facts and all(f[0] in ("eq", "tau") for f in facts):
            witness = path
            break
    if skipping and witness is None:
        raise AnalysisError(f"{hq}: nnx.update is skipped under a condition that cannot be related to the step size (unrecognised form)")
    ck.ob("R1-helper-law", hq, "unconditional", witness is None, "nnx.update is executed on every call", "" if witness is None else "the update is skipped on a path selected by the step size alone (and not only for tau = 0)", loc(mi, fn),
          witness=cfg.describe_path([x for x, _ in witness]) if witness else None)
    if multi:
        raise AnalysisError(f"{hq}: several nnx.update calls on one path (unrecognised form)")
    ck.ob("R1-helper-law", hq, "single-update", True, f"{sum(len(v) for v in ups.values())} nnx.update call(s), one per path", "", loc(mi, fn))


def _KNOWN():
    from ..expand import load_known
    return load_known()


def _stable(s):
    return re.sub(r"@\d+", "", s)


def _is_fresh(t):
    k = t[0]
    if k in ("param", "param|clone", "clone", "obj"):
        return True
    if k == "attr":
        return _is_fresh(t[1])
    if k == "alt":
        return all(_is_fresh(x) for x in t[1])
    return False


def _is_source_too(t_id, targets):
    return any(x[2] == t_id for x in targets)


def _path_expr(path):
    root, attrs = path
    e = ast.Name(id=root, ctx=ast.Load())
    for a in attrs:
        e = ast.Attribute(value=e, attr=a, ctx=ast.Load())
    return e


def _read_phi(idn, ident, mi, cfg, q, depth=0):
    """A variable with several reaching definitions each of which is a known object (parameter, clone, constructor, alias of one)
    holds one of these objects: the merge is read as the alternative of them."""
    from ..identity import _alt
    if not isinstance(ident, tuple) or not ident or depth > 4:
        return ident
    if ident[0] == "attr":
        return ("attr", _read_phi(idn, ident[1], mi, cfg, q, depth), ident[2])
    if ident[0] == "alt":
        return _alt({_read_phi(idn, m, mi, cfg, q, depth) for m in ident[1]})
    if ident[0] == "phi" and len(ident) == 4:
        name, vals = ident[2], set()
        for nd in ident[3]:
            d = cfg.get_def(nd, name)
            if d is not None and d.kind == "param":
                vals.add(("param", q, name))
            elif d is not None and d.kind == "assign" and isinstance(d.value, ast.Constant) and d.value.value is None:
                continue      # `x = None` holds no object: an update through x uses one of the other definitions
            elif d is not None and d.kind == "assign" and d.value is not None:
                vals.add(_read_phi(idn, idn._of_value(d.value, mi, cfg, d.node, q, name, 1), mi, cfg, q, depth + 1))
            else:
                return ident
        if vals and all(_is_fresh(v) for v in vals):
            return _alt(vals)
    return ident


def _ident_in_context(idn, res, repo, q, fn, cfg, nid, e):
    """Identity of expression ``e`` of function q; for `_train_step` the parameters are mapped to the single caller."""
    mi = fn._module
    base = idn.of(e, mi, cfg, nid, q)
    root = base
    chain = []
    while root[0] == "attr":
        chain.append(root[2])
        root = root[1]
    if root[0] == "param" and q.endswith("._train_step"):
        # map through the unique call site in train_td7
        caller_q = q.rsplit(".", 1)[0] + ".train_td7"
        cfn = repo.func(caller_q)
        ccfg = res.cfg_of(cfn)
        for n in ccfg.nodes:
            if n.ast is None or n.kind != "stmt":
                continue
            for c in ast.walk(n.ast):
                if isinstance(c, ast.Call) and isinstance(c.func, (ast.Name, ast.Attribute)) and ((res.resolve(c.func, cfn._module, ccfg, n.id) or _NoTarget).qual == q or repo.resolve_expr(cfn._module, c.func) == q):
                    b = bind_call(fn, c)
                    arg = b.get(root[2])
                    if arg is not None:
                        ex = arg
                        for a in chain[::-1]:
                            ex = ast.Attribute(value=ex, attr=a, ctx=ast.Load())
                        return _read_phi(idn, idn.of(ex, cfn._module, ccfg, n.id, caller_q), cfn._module, ccfg, caller_q)
    return _read_phi(idn, base, mi, cfg, q)


def _leaves_ctx(idn, res, repo, q, fn, cfg, ident):
    """Leaves of an identity; identities created in train_td7 (mapped from _train_step) are expanded in that context."""
    qual = None
    x = ident
    while isinstance(x, tuple) and x and x[0] == "attr":
        x = x[1]
    if isinstance(x, tuple) and x and x[0] == "obj":
        pass
    ctx_q = q
    if q.endswith("._train_step"):
        ctx_q = q.rsplit(".", 1)[0] + ".train_td7"
    cfn = repo.func(ctx_q)
    return {_read_phi(idn, x, cfn._module, res.cfg_of(cfn), ctx_q) for x in idn.leaves(ident, cfn._module, res.cfg_of(cfn), ctx_q)}


def _optax_oracle(ck, nf):
    """Pinned trusted base: the leaf function of optax.incremental_update normalises to step*new + (1-step)*old."""
    path = "/venv/lib/python3.12/site-packages/optax/_src/update.py"
    if not os.path.exists(path):
        ck.note("optax source not found: oracle cross-check skipped")
        return
    tree = ast.parse(open(path).read())
    fn = next((n for n in tree.body if isinstance(n, ast.FunctionDef) and n.name == "incremental_update"), None)
    lam = next((n for n in ast.walk(fn) if isinstance(n, ast.Lambda)), None) if fn else None
    if lam is None:
        ck.note("optax.incremental_update has no lambda leaf function any more: oracle cross-check skipped")
        return
    body = lam.body.orelse if isinstance(lam.body, ast.IfExp) else lam.body
    from ..repo import ModuleInfo
    mi = ModuleInfo("optax._src.update", path, path, "", tree)
    p = nf.poly(body, Scope(None, mi, {}), None)
    a, b = [x.arg for x in lam.args.args][:2]
    step = [x.arg for x in fn.args.args][2]
    want = (Poly.atom(step) * Poly.atom(a) + (Poly.const(1) - Poly.atom(step)) * Poly.atom(b))
    ok = p == want
    if not ok and not (same_ingredients(p, want) and ingredient_tokens(p)):
        raise AnalysisError(f"optax.incremental_update: the installed leaf function `{p.canon()[:120]}` is not a recognised form of `{want.canon()}` (unrecognised form)")
    ck.ob("R1-helper-law", "optax.incremental_update", "polyak-identity", ok, f"leaf = {p.canon()}", "" if ok else f"installed optax leaf function is not {want.canon()}", "optax/_src/update.py")


# ---- self-validation variants -------------------------------------------------------------------------------
_T = "rl_blox/blox/target_net.py"
_A = "rl_blox/algorithm/"
MUTANTS = [
    {"id": "c06-td7-hard-copy-written-out-swapped", "file": _A + "td7.py", "rule": "R", "find": "                    hard_target_net_update(policy, checkpoint)", "replace": "                    nnx.update(policy, nnx.state(checkpoint))"},
    {"id": "c06-soft-treemap-swapped", "file": _T, "rule": "R1", "edits": [("import optax\n", "import optax\nimport jax\n"), ("optax.incremental_update(params, target_params, tau)", "jax.tree.map(lambda p, t: tau * t + (1 - tau) * p, params, target_params)")]},
    {"id": "c06-soft-treemap-trees-swapped", "file": _T, "rule": "R1", "edits": [("import optax\n", "import optax\nimport jax\n"), ("optax.incremental_update(params, target_params, tau)", "jax.tree.map(lambda p, t: tau * p + (1 - tau) * t, target_params, params)")]},
    {"id": "c06-soft-kw-swapped", "file": _T, "rule": "R1", "find": "optax.incremental_update(params, target_params, tau)", "replace": "optax.incremental_update(old_tensors=params, new_tensors=target_params, step_size=tau)"},
    {"id": "c06-soft-swapped", "file": _T, "rule": "R1", "find": "optax.incremental_update(params, target_params, tau)", "replace": "optax.incremental_update(target_params, params, tau)"},
    {"id": "c06-soft-one-minus-tau", "file": _T, "rule": "R1", "find": "optax.incremental_update(params, target_params, tau)", "replace": "optax.incremental_update(params, target_params, 1 - tau)"},
    {"id": "c06-soft-writes-online", "file": _T, "rule": "R1", "find": "    nnx.update(target_net, target_params)", "replace": "    nnx.update(net, target_params)"},
    {"id": "c06-soft-tau-default", "file": _T, "rule": "R1", "find": "    params = nnx.state(net)\n    target_params = nnx.state(target_net)\n    target_params = optax", "replace": "    tau = tau or 0.005\n    params = nnx.state(net)\n    target_params = nnx.state(target_net)\n    target_params = optax"},
    {"id": "c06-hard-reversed", "file": _T, "rule": "R1", "find": "    nnx.update(target_net, nnx.state(net))", "replace": "    nnx.update(net, nnx.state(target_net))"},
    {"id": "c06-hard-param-filter", "file": _T, "rule": "R1", "find": "    nnx.update(target_net, nnx.state(net))", "replace": "    nnx.update(target_net, nnx.state(net, nnx.Param))"},
    {"id": "c06-td3-alias", "file": _A + "td3.py", "rule": "R2", "find": "        q_target = nnx.clone(q)", "replace": "        q_target = q"},
    {"id": "c06-td3-delay-eq-1", "file": _A + "td3.py", "rule": "R4", "find": "                if step % policy_delay == 0:", "replace": "                if step % policy_delay == 1:"},
    {"id": "c06-td3-target-out-of-guard", "file": _A + "td3.py", "rule": "R4", "find": "                    soft_target_net_update(q, q_target, tau)\n\n                    stats[\"policy loss\"]", "replace": "                    stats[\"policy loss\"]",
     "accept_error": False},
    {"id": "c06-td3-args-swapped", "file": _A + "td3.py", "rule": "R", "find": "soft_target_net_update(q, q_target, tau)", "replace": "soft_target_net_update(q_target, q, tau)"},
    {"id": "c06-td3-hard-for-soft", "file": _A + "td3.py", "rule": "R4", "find": "from ..blox.target_net import soft_target_net_update", "replace": "from ..blox.target_net import hard_target_net_update\n\n\ndef soft_target_net_update(a, b, tau):\n    hard_target_net_update(a, b)"},
    {"id": "c06-sac-every-step", "file": _A + "sac.py", "rule": "R4", "find": "            if step % target_network_delay == 0:\n                soft_target_net_update(q, q_target, tau)\n                updated_modules[\"q_target\"] = q_target", "replace": "            soft_target_net_update(q, q_target, tau)\n            updated_modules[\"q_target\"] = q_target"},
    {"id": "c06-nature-nested-guard", "file": _A + "nature_dqn.py", "rule": "R4", "find": "            if step % target_update_frequency == 0:\n                hard_target_net_update(q_net, q_target_net)", "replace": "                if step % target_update_frequency == 0:\n                    hard_target_net_update(q_net, q_target_net)"},
    {"id": "c06-td7-order", "file": _A + "td7.py", "rule": "R5", "find": "        hard_target_net_update(policy.embedding, policy_target.embedding)\n        hard_target_net_update(embedding, policy.embedding)\n", "replace": "        hard_target_net_update(embedding, policy.embedding)\n        hard_target_net_update(policy.embedding, policy_target.embedding)\n"},
    {"id": "c06-td7-fixed-alias", "file": _A + "td7.py", "rule": "R2", "find": "    fixed_embedding_target = nnx.clone(embedding)", "replace": "    fixed_embedding_target = fixed_embedding"},
    {"id": "c06-td7-policy-delay-for-target", "file": _A + "td7.py", "rule": "R4", "find": "    if epoch % target_delay == 0:\n        hard_target_net_update(policy.actor", "replace": "    if epoch % policy_delay == 0:\n        hard_target_net_update(policy.actor"},
    {"id": "c06-td7-checkpoint-unguarded", "file": _A + "td7.py", "rule": "R4", "find": "                if update_checkpoint:\n                    hard_target_net_update(policy, checkpoint)", "replace": "                if update_checkpoint or training_steps > 0:\n                    hard_target_net_update(policy, checkpoint)"},
    {"id": "c06-mrq-train-target", "file": _A + "mrq.py", "rule": "R3", "find": "        update_critic_and_policy,\n        q,\n        q_target,\n        q_optimizer,", "replace": "        update_critic_and_policy,\n        q_target,\n        q,\n        q_optimizer,"},
    {"id": "c06-ddpg-target-trained", "file": _A + "ddpg.py", "rule": "R3", "find": "                actor_loss_value = ddpg_update_actor(\n                    policy, policy_optimizer, q, batch.observation\n                )", "replace": "                actor_loss_value = ddpg_update_actor(\n                    policy_target, policy_optimizer, q, batch.observation\n                )"},
    {"id": "c06-soft-skipped-for-small-tau", "file": _T, "rule": "R1", "find": "    params = nnx.state(net)\n    target_params = nnx.state(target_net)\n    target_params = optax", "replace": "    if tau < 0.5:\n        return\n    params = nnx.state(net)\n    target_params = nnx.state(target_net)\n    target_params = optax"},
    {"id": "c06-soft-no-update", "file": _T, "rule": "R1", "find": "    target_params = nnx.state(target_net)\n    target_params = optax.incremental_update(params, target_params, tau)\n    nnx.update(target_net, target_params)", "replace": "    del params"},
    {"id": "c06-hard-by-arithmetic", "file": _T, "rule": "R1", "edits": [("import optax\n", "import optax\nimport jax\n"), ("    nnx.update(target_net, nnx.state(net))", "    nnx.update(target_net, jax.tree.map(lambda p, t: t + 1.0 * (p - t), nnx.state(net), nnx.state(target_net)))")]},
    {"id": "c06-hard-via-soft-unit-step", "file": _T, "rule": "R1", "find": "    nnx.update(target_net, nnx.state(net))", "replace": "    soft_target_net_update(net, target_net, 1.0)"},
    {"id": "c06-td3-cadence-weakened", "file": _A + "td3.py", "rule": "R4", "find": "                if step % policy_delay == 0:", "replace": "                if step % policy_delay == 0 or step % 7 == 0:"},
    {"id": "c06-sac-period-alias-of-other-parameter", "file": _A + "sac.py", "rule": "R4", "find": "            if step % target_network_delay == 0:", "replace": "            period = policy_delay\n            if step % period == 0:"},
    {"id": "c06-ddpg-every-second-step", "file": _A + "ddpg.py", "rule": "R4", "find": "                soft_target_net_update(policy, policy_target, tau)\n                soft_target_net_update(q, q_target, tau)", "replace": "                if global_step % 2 == 0:\n                    soft_target_net_update(policy, policy_target, tau)\n                    soft_target_net_update(q, q_target, tau)"},
    {"id": "c06-sac-soft-twice", "file": _A + "sac.py", "rule": "R4", "find": "                soft_target_net_update(q, q_target, tau)\n", "replace": "                soft_target_net_update(q, q_target, tau)\n                soft_target_net_update(q, q_target, tau)\n"},
    {"id": "c06-sac-only-when-logging", "file": _A + "sac.py", "rule": "R4", "find": "                soft_target_net_update(q, q_target, tau)\n", "replace": "                if logger is not None:\n                    soft_target_net_update(q, q_target, tau)\n"},
    {"id": "c06-sac-target-may-be-online", "file": _A + "sac.py", "rule": "R2", "find": "    if q_target is None:\n        q_target = nnx.clone(q)", "replace": "    q_target = q if q_target is None else q_target"},
    {"id": "c06-ddpg-update-in-undocumented-routine", "file": _A + "ddpg.py", "rule": "R4", "edits": [("from ..blox.target_net import soft_target_net_update", "from ..blox.target_net import soft_target_net_update, hard_target_net_update"), (") -> float:\n    r\"\"\"DDPG actor update.", ") -> float:\n    hard_target_net_update(q, policy)\n    r\"\"\"DDPG actor update.")]},
    {"id": "c06-ddqn-extra-helper", "file": _A + "ddqn.py", "rule": "R4", "find": "            if step % target_update_frequency == 0:\n                hard_target_net_update(q_net, q_target_net)", "replace": "            if step % target_update_frequency == 0:\n                hard_target_net_update(q_net, q_target_net)\n        if terminated:\n            hard_target_net_update(q_net, q_target_net)"},
    {"id": "c06-td7-target-embedding-aliased-on-one-path", "file": "rl_blox/algorithm/td7.py", "rule": "R2", "find": '    policy = DeterministicSALEPolicy(fixed_embedding, actor)\n    policy_target = DeterministicSALEPolicy(\n        fixed_embedding_target, actor_target\n    )\n', "replace": '    policy = DeterministicSALEPolicy(fixed_embedding, actor)\n    if use_checkpoints:\n        policy_target = DeterministicSALEPolicy(fixed_embedding_target, actor_target)\n    else:\n        policy_target = DeterministicSALEPolicy(policy.embedding, actor_target)\n'},
    {"id": "c06-hard-split-of-target", "file": _T, "rule": "R1", "find": "    nnx.update(target_net, nnx.state(net))", "replace": "    _, online_state = nnx.split(target_net)\n    nnx.update(target_net, online_state)"},
    {"id": "c06-soft-split-weights-swapped", "file": _T, "rule": "R1", "edits": [("import optax\n", "import optax\nimport jax\n"), ("    params = nnx.state(net)\n    target_params = nnx.state(target_net)\n    target_params = optax.incremental_update(params, target_params, tau)\n", "    graphdef, params = nnx.split(net)\n    target_params = nnx.split(target_net)[1]\n    rest = 1 - tau\n    target_params = jax.tree.map(lambda new, old: rest * new + tau * old, params, target_params)\n")]},
    {"id": "c06-td7-carrier-wrong-field", "file": _A + "td7.py", "rule": "R4", "edits": [("from .td3 import make_sample_target_actions\n", "from .td3 import make_sample_target_actions\n\n\nDelays = namedtuple(\"Delays\", [\"policy\", \"target\"])\n"), ("    policy_delay,\n    target_delay,\n    lap_alpha,\n    lap_min_priority,\n):", "    delays,\n    lap_alpha,\n    lap_min_priority,\n):"), ("    if epoch % policy_delay == 0:\n        actor_loss_value", "    if epoch % delays.policy == 0:\n        actor_loss_value"), ("                    policy_delay,\n                    target_delay,\n                    lap_alpha,", "                    Delays(policy_delay, target_delay),\n                    lap_alpha,"), ("    if epoch % target_delay == 0:\n        hard_target_net_update(policy.actor", "    if epoch % delays.policy == 0:\n        hard_target_net_update(policy.actor")]},
    {"id": "c06-td7-carrier-fields-swapped-at-construction", "file": _A + "td7.py", "rule": "R4", "edits": [("from .td3 import make_sample_target_actions\n", "from .td3 import make_sample_target_actions\n\n\nDelays = namedtuple(\"Delays\", [\"policy\", \"target\"])\n"), ("    policy_delay,\n    target_delay,\n    lap_alpha,\n    lap_min_priority,\n):", "    delays,\n    lap_alpha,\n    lap_min_priority,\n):"), ("    if epoch % policy_delay == 0:\n        actor_loss_value", "    if epoch % delays.policy == 0:\n        actor_loss_value"), ("                    policy_delay,\n                    target_delay,\n                    lap_alpha,", "                    Delays(target=policy_delay, policy=target_delay),\n                    lap_alpha,"), ("    if epoch % target_delay == 0:\n        hard_target_net_update(policy.actor", "    if epoch % delays.target == 0:\n        hard_target_net_update(policy.actor")]},
    {"id": "c06-td3-bool-flag-off-by-one", "file": _A + "td3.py", "rule": "R4", "find": "                if step % policy_delay == 0:", "replace": "                due = bool(step % policy_delay == 1)\n                if due:"},
]
BENIGN = [
    {"id": "c06-b-td7-target-embedding-cloned-on-both-paths", "file": "rl_blox/algorithm/td7.py", "find": '    policy = DeterministicSALEPolicy(fixed_embedding, actor)\n    policy_target = DeterministicSALEPolicy(\n        fixed_embedding_target, actor_target\n    )\n', "replace": '    policy = DeterministicSALEPolicy(fixed_embedding, actor)\n    if use_checkpoints:\n        policy_target = DeterministicSALEPolicy(fixed_embedding_target, actor_target)\n    else:\n        policy_target = DeterministicSALEPolicy(nnx.clone(policy.embedding), actor_target)\n'},
    {"id": "c06-b-td7-hard-copy-written-out", "file": _A + "td7.py", "find": "                    hard_target_net_update(policy, checkpoint)", "replace": "                    nnx.update(checkpoint, nnx.state(policy))"},
    {"id": "c06-b-soft-treemap", "file": _T, "edits": [("import optax\n", "import optax\nimport jax\n"), ("optax.incremental_update(params, target_params, tau)", "jax.tree.map(lambda p, t: t + tau * (p - t), params, target_params)")]},
    {"id": "c06-b-td7-early-return", "file": _A + "td7.py", "edits": [("    if epoch % target_delay == 0:\n        hard_target_net_update(policy.actor, policy_target.actor)", "    if epoch % target_delay != 0:\n        return metrics, epochs\n    if True:\n        hard_target_net_update(policy.actor, policy_target.actor)")]},
    {"id": "c06-b-td7-done-alias", "file": _A + "td7.py", "edits": [("        next_obs, reward, termination, truncated, info = env.step(action)\n", "        next_obs, reward, termination, truncated, info = env.step(action)\n        done = termination or truncated\n"), ("            if (termination or truncated) and use_checkpoints:", "            if done and use_checkpoints:")]},
    {"id": "c06-b-td3-not-mod", "file": _A + "td3.py", "find": "                if step % policy_delay == 0:", "replace": "                if not step % policy_delay:"},
    {"id": "c06-b-td3-flipped-eq", "file": _A + "td3.py", "find": "                if step % policy_delay == 0:", "replace": "                if 0 == step % policy_delay:"},
    {"id": "c06-b-soft-kwargs", "file": _T, "find": "optax.incremental_update(params, target_params, tau)", "replace": "optax.incremental_update(new_tensors=params, old_tensors=target_params, step_size=tau)"},
    {"id": "c06-b-soft-inline", "file": _T, "find": "    params = nnx.state(net)\n    target_params = nnx.state(target_net)\n    target_params = optax.incremental_update(params, target_params, tau)\n    nnx.update(target_net, target_params)",
     "replace": "    nnx.update(\n        target_net,\n        optax.incremental_update(nnx.state(net), nnx.state(target_net), tau),\n    )"},
    {"id": "c06-b-sac-parens", "file": _A + "sac.py", "find": "            if step % target_network_delay == 0:", "replace": "            if (step % target_network_delay) == 0 and True:"},
    {"id": "c06-b-nature-split-guard", "file": _A + "nature_dqn.py", "find": "        if step >= learning_starts and step > batch_size:\n", "replace": "        if step > batch_size and learning_starts <= step:\n"},
    {"id": "c06-b-helper-parameters-renamed", "file": _T, "edits": [("    net: nnx.Module, target_net: nnx.Module, tau: float\n", "    online: nnx.Module, target: nnx.Module, step_size: float\n"), ("static_argnames=[\"tau\"]", "static_argnames=[\"step_size\"]"),
     ("    params = nnx.state(net)\n    target_params = nnx.state(target_net)\n    target_params = optax.incremental_update(params, target_params, tau)\n    nnx.update(target_net, target_params)", "    params = nnx.state(online)\n    target_params = nnx.state(target)\n    target_params = optax.incremental_update(params, target_params, step_size)\n    nnx.update(target, target_params)"),
     ("def hard_target_net_update(net: nnx.Module, target_net: nnx.Module) -> None:", "def hard_target_net_update(source: nnx.Module, dest: nnx.Module) -> None:"), ("    nnx.update(target_net, nnx.state(net))", "    nnx.update(dest, nnx.state(source))")]},
    {"id": "c06-b-soft-roles-mirrored", "file": _T, "find": "optax.incremental_update(params, target_params, tau)", "replace": "optax.incremental_update(target_params, params, 1.0 - tau)"},
    {"id": "c06-b-soft-unit-step-on-its-own-path", "file": _T, "find": "    params = nnx.state(net)\n    target_params = nnx.state(target_net)\n    target_params = optax.incremental_update(params, target_params, tau)\n",
     "replace": "    if tau == 1:\n        nnx.update(target_net, optax.incremental_update(nnx.state(net), nnx.state(target_net), 1))\n        return\n    params = nnx.state(net)\n    target_params = nnx.state(target_net)\n    target_params = optax.incremental_update(params, target_params, tau)\n"},
    {"id": "c06-b-hard-identity-tree-map", "file": _T, "edits": [("import optax\n", "import optax\nimport jax\n"), ("    nnx.update(target_net, nnx.state(net))", "    online_state = jax.tree.map(lambda leaf: leaf, nnx.state(net))\n    nnx.update(target_net, online_state)")]},
    {"id": "c06-b-nature-period-alias", "file": _A + "nature_dqn.py", "edits": [("    if q_target_net is None:\n", "    sync_every = int(target_update_frequency)\n    if q_target_net is None:\n"), ("            if step % target_update_frequency == 0:\n                hard", "            if step % sync_every == 0:\n                hard")]},
    {"id": "c06-b-td3-warmup-strict-plus-one", "file": _A + "td3.py", "find": "        if step >= learning_starts:\n", "replace": "        warm_up = learning_starts\n        if step + 1 > warm_up:\n"},
    {"id": "c06-b-nature-warmup-max", "file": _A + "nature_dqn.py", "find": "        if step >= learning_starts and step > batch_size:\n", "replace": "        if step >= max(learning_starts, batch_size + 1):\n"},
    {"id": "c06-b-td7-step-parameter-renamed", "file": _A + "td7.py", "edits": [("    target_delay,\n    lap_alpha,", "    sync_period,\n    lap_alpha,"), ("    if epoch % target_delay == 0:\n        hard_target_net_update(policy.actor", "    if epoch % sync_period == 0:\n        hard_target_net_update(policy.actor")]},
    {"id": "c06-b-td3-keywords-reordered", "file": _A + "td3.py", "find": "soft_target_net_update(q, q_target, tau)", "replace": "soft_target_net_update(tau=tau, target_net=q_target, net=q)"},
    {"id": "c06-b-td7-logging-between", "file": _A + "td7.py", "find": "        hard_target_net_update(critic, critic_target)\n", "replace": "        hard_target_net_update(critic, critic_target)\n        metrics[\"target update\"] = epoch\n"},
    {"id": "c06-b-hard-split", "file": _T, "find": "    nnx.update(target_net, nnx.state(net))", "replace": "    graphdef, online_state = nnx.split(net)\n    del graphdef\n    nnx.update(target_net, online_state)"},
    {"id": "c06-b-soft-split-incremental", "file": _T, "find": "    params = nnx.state(net)\n    target_params = nnx.state(target_net)\n", "replace": "    params = nnx.split(net)[1]\n    _graph, target_params = nnx.split(target_net)\n"},
    {"id": "c06-b-soft-split-treemap", "file": _T, "edits": [("import optax\n", "import optax\nimport jax\n"), ("    params = nnx.state(net)\n    target_params = nnx.state(target_net)\n    target_params = optax.incremental_update(params, target_params, tau)\n", "    graphdef, params = nnx.split(net)\n    target_params = nnx.split(target_net)[1]\n    rest = 1 - tau\n    target_params = jax.tree.map(lambda new, old: tau * new + rest * old, params, target_params)\n")]},
    {"id": "c06-b-td7-delays-in-a-record", "file": _A + "td7.py", "edits": [("from .td3 import make_sample_target_actions\n", "from .td3 import make_sample_target_actions\n\n\nDelays = namedtuple(\"Delays\", [\"policy\", \"target\"])\n"), ("    policy_delay,\n    target_delay,\n    lap_alpha,\n    lap_min_priority,\n):", "    delays,\n    lap_alpha,\n    lap_min_priority,\n):"), ("    if epoch % policy_delay == 0:\n        actor_loss_value", "    if epoch % delays.policy == 0:\n        actor_loss_value"), ("                    policy_delay,\n                    target_delay,\n                    lap_alpha,", "                    Delays(policy_delay, target_delay),\n                    lap_alpha,"), ("    if epoch % target_delay == 0:\n        hard_target_net_update(policy.actor", "    if epoch % delays.target == 0:\n        hard_target_net_update(policy.actor")]},
    {"id": "c06-b-td7-delays-in-a-named-record-with-period-alias", "file": _A + "td7.py", "edits": [("from .td3 import make_sample_target_actions\n", "from .td3 import make_sample_target_actions\n\n\nDelays = namedtuple(\"Delays\", [\"policy\", \"target\"])\n"), ("    policy_delay,\n    target_delay,\n    lap_alpha,\n    lap_min_priority,\n):", "    delays,\n    lap_alpha,\n    lap_min_priority,\n):"), ("    if epoch % policy_delay == 0:\n        actor_loss_value", "    if epoch % delays.policy == 0:\n        actor_loss_value"), ("            for delayed_train_step_idx in range(1, training_steps + 1):\n", "            delays = Delays(target=target_delay, policy=policy_delay)\n            for delayed_train_step_idx in range(1, training_steps + 1):\n"), ("                    policy_delay,\n                    target_delay,\n                    lap_alpha,", "                    delays,\n                    lap_alpha,"), ("    if epoch % target_delay == 0:\n        hard_target_net_update(policy.actor", "    sync_every = delays.target\n    if epoch % sync_every == 0:\n        hard_target_net_update(policy.actor")]},
    {"id": "c06-b-td3-bool-flag", "file": _A + "td3.py", "find": "                if step % policy_delay == 0:", "replace": "                due = bool(step % policy_delay == 0)\n                if due:"},
    {"id": "c06-b-sac-bool-inline", "file": _A + "sac.py", "find": "            if step % target_network_delay == 0:", "replace": "            if bool(step % target_network_delay == 0):"},
    {"id": "c06-b-td7-episode-over-flag", "file": _A + "td7.py", "edits": [("        next_obs, reward, termination, truncated, info = env.step(action)\n", "        next_obs, reward, termination, truncated, info = env.step(action)\n        finished = bool(truncated or termination)\n"), ("            if (termination or truncated) and use_checkpoints:", "            if use_checkpoints and finished:")]},
]
