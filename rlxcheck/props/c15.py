"""C15 - deferred training releases exactly the collected steps; checkpoints only improve."""
from __future__ import annotations

import ast

from ..loops import dotted, find_env_loop
from ..nf import NF, Scope, Poly, parse_expr
from ..repo import Repo, loc, short, AnalysisError, positional_params, param_names, bind_call
from ..sympath import enumerate_paths, PathEval

EXPLANATION = (
    "assess_performance_and_checkpoint is loop free: all its acyclic paths are enumerated and evaluated with polynomial values for the "
    "CheckpointState fields (per-path abstract interpretation). On every path the returned number of training steps is 0 or the window's "
    "accumulated step counter (old + steps_per_episode) - none lost, none duplicated -, the three window counters are reset exactly on the "
    "paths that release steps, the checkpoint flag is set exactly on the path `not (min_return < best) and episodes == max_episodes` together "
    "with best := min, the early cut is exactly `min_return < best`, and the window switch sits inside the reset block under the chained "
    "comparison evaluated with the pre-reset counter. In train_td7 the release loop runs exactly `training_steps` times with one epoch "
    "increment each, the assessment is called at episode ends only, and the checkpoint copy is guarded by the returned flag."
)
TRUSTED = ["Python chained comparison semantics", "the epoch counter only grows (needed for `the switch happens once`, not decided)"]
RULES = {
    "R1-conservation": "returned training_steps is 0 or timesteps_since_upate (after adding this episode's steps) on every path; the counter is written only by `+= steps_per_episode` and the reset",
    "R2-reset-set": "episodes_since_udpate, timesteps_since_upate and min_return are reset together, exactly on the paths that release training steps",
    "R3-checkpoint-guard": "update_checkpoint is True exactly on the path not(min_return < best_min_return) and episodes_since_udpate == max_episodes_before_update, where best_min_return := min_return; "
                           "early cut exactly when min_return < best_min_return; min_return folded with min(.., episode_return) first",
    "R4-window-switch": "max_episodes_before_update and best_min_return*=reset_weight are written only under epoch < steps_before_checkpointing <= epoch + timesteps (pre-reset value), inside the release block",
    "R5-release-loop": "train_td7: assessment called iff (terminated or truncated) and use_checkpoints (after warm-up); release loop has exactly training_steps iterations with epoch += 1 each; checkpoint copy guarded by the flag, (source, destination) order",
}

AQ = "rl_blox.blox.checkpointing.assess_performance_and_checkpoint"
S = "checkpoint_state"


def _const_under(cfg, e, assume, at):
    """Value of a constant / conditional-constant expression under branch assumptions; None when not decidable."""
    if isinstance(e, ast.Constant) and isinstance(e.value, (int, float)) and not isinstance(e.value, bool):
        return e.value
    if isinstance(e, ast.IfExp):
        v = cfg.eval3(e.test, dict(assume), at)
        if v is None:
            return None
        return _const_under(cfg, e.body if v else e.orelse, assume, at)
    return None

def run(ck, repo: Repo, tier: str):
    nf = NF(repo, inline_depth=2)
    fn = repo.func(AQ)
    mi = fn._module
    cfg = nf.cfg_of(fn)
    params = param_names(fn)
    ck.need(params[:4] == [S, "steps_per_episode", "episode_return", "epoch"], f"{AQ}: signature changed (anchor vanished)")
    cls = repo.cls("rl_blox.blox.checkpointing.CheckpointState")
    fields = [n.target.id for n in cls.body if isinstance(n, ast.AnnAssign) and isinstance(n.target, ast.Name)]
    need = ["episodes_since_udpate", "timesteps_since_upate", "max_episodes_before_update", "min_return", "best_min_return"]
    ck.need(all(f in fields for f in need), f"CheckpointState fields changed: {fields}")
    E, T, M, MIN, BEST = (f"{S}.{f}" for f in need)
    paths = enumerate_paths(cfg, cfg.entry, {cfg.exit})
    ck.floor("acyclic-paths", len(paths), 5)
    env0 = {p: Poly.atom(p, {p}, {p}) for p in params}
    old = {f"{S}.{f}": Poly.atom(f"old.{f}") for f in need}
    ts_new = old[T] + env0["steps_per_episode"]
    sc0 = Scope(None, mi, {**env0}, AQ)
    min_new = nf.poly(parse_expr(f"min(OLDMIN, episode_return)"), Scope(None, mi, {**env0, "OLDMIN": old[MIN]}, AQ), None)
    seen_kinds = set()
    _mx = [n for n in cfg.nodes if n.kind == "stmt" and isinstance(n.ast, ast.Assign) and dotted(n.ast.targets[0]) == M]
    _deps = [b for b, lab in cfg.control_deps(_mx[0].id) if cfg.nodes[b].kind == "test" and lab is True] if len(_mx) == 1 else []
    SWITCH_NODE = _deps[0] if _deps else -1
    for p in paths:
        pe = PathEval(nf, cfg, mi, AQ, env0)
        pe.store = dict(old)
        pe.run(p)
        # what was returned
        ret_node = [nid for nid, lab in p if isinstance(cfg.nodes[nid].ast, ast.Return)]
        ck.need(len(ret_node) == 1, f"{AQ}: path without return")
        rv = pe.ev(cfg.nodes[ret_node[0]].ast.value)
        ck.need(rv.elems is not None and len(rv.elems) == 2, f"{AQ}: must return (update_checkpoint, training_steps)")
        flag, steps = rv.elems[0].canon(), rv.elems[1]
        conds = []
        for nid, lab in p:
            n = cfg.nodes[nid]
            if n.kind == "test":
                conds.append((" ".join(ast.unparse(n.ast.test).split()), lab))
        cut = next((lab for t, lab in conds if t == f"{MIN} < {BEST}"), None)
        full = next((lab for t, lab in conds if t == f"{E} == {M}"), None)
        rel = next((lab for t, lab in conds if t == "training_steps > 0"), None)
        switch = next((lab for (t, lab), (nid, _l) in zip(conds, [(n_, l_) for n_, l_ in p if cfg.nodes[n_].kind == "test"]) if nid == SWITCH_NODE), None)
        ck.need(cut is not None and rel is not None, f"{AQ}: branch structure changed (unrecognised idiom): {conds}")
        kind = "cut" if cut else ("full" if full else "continue")
        label = f"{kind}/{'release' if rel else 'keep'}{'/switch' if switch else ''}"
        # infeasible: continue-path with training_steps > 0, or cut/full path with steps == 0 is the `ts == 0` corner (accepted)
        if kind == "continue" and rel:
            # training_steps is the literal 0 here, the branch cannot be taken
            ck.ob("R1-conservation", AQ, f"path:{label}:infeasible", steps.canon() == "0", f"training_steps = {steps.canon()} on the no-release path", "" if steps.canon() == "0" else "steps released although the window continues", loc(mi, fn))
            continue
        seen_kinds.add(label)
        where = loc(mi, fn)
        # R1
        want_steps = Poly.const(0) if kind == "continue" else ts_new
        ok = steps == want_steps
        ck.ob("R1-conservation", AQ, f"path:{label}:released", ok, f"training_steps = {steps.canon()}", "" if ok else f"expected {want_steps.canon()} (the environment steps collected in this window, none lost or duplicated)", where)
        # R2 reset
        e_end, t_end, m_end = pe.store.get(E), pe.store.get(T), pe.store.get(MIN)
        if rel:
            ok = e_end.canon() == "0" and t_end.canon() == "0" and m_end.canon() == "100000000"
            ck.ob("R2-reset-set", AQ, f"path:{label}:reset", ok, f"episodes={e_end.canon()}, timesteps={t_end.canon()}, min_return={m_end.canon()}", "" if ok else "all three window counters must be reset when steps are released", where)
        else:
            ok = e_end == old[E] + Poly.const(1) and t_end == ts_new and m_end == min_new
            ck.ob("R2-reset-set", AQ, f"path:{label}:kept", ok, f"episodes={e_end.canon()}, timesteps={t_end.canon()}, min_return={m_end.canon()[:60]}",
                  "" if ok else "without a release the counters must be old+1, old+steps_per_episode and min(old, episode_return)", where)
            if kind != "continue":
                # cut/full path whose `training_steps > 0` test is false: only possible for ts == 0; the released value is still ts
                pass
        # R3
        want_flag = "1" if kind == "full" else "0"  # booleans are 1 / 0 in the polynomial domain
        ok = flag == want_flag
        ck.ob("R3-checkpoint-guard", AQ, f"path:{label}:flag", ok, f"update_checkpoint = {flag}", "" if ok else f"the checkpoint flag must be {want_flag} on this path", where)
        b_end = pe.store.get(BEST)
        if kind == "full":
            want_b = min_new * (env0["reset_weight"] if switch else Poly.const(1))
            ok = b_end == want_b
            ck.ob("R3-checkpoint-guard", AQ, f"path:{label}:best", ok, f"best_min_return = {b_end.canon()[:80]}", "" if ok else "a completed window must record its minimum return as the new best", where)
        else:
            want_b = old[BEST] * (env0["reset_weight"] if switch else Poly.const(1))
            ok = b_end == want_b
            ck.ob("R3-checkpoint-guard", AQ, f"path:{label}:best", ok, f"best_min_return = {b_end.canon()[:80]}", "" if ok else "best_min_return may only change when a window completes (or by the reset weight at the switch)", where)
        # R4
        mx = pe.store.get(M)
        if switch:
            ok = rel and mx.canon() == "max_episodes_when_checkpointing"
            ck.ob("R4-window-switch", AQ, f"path:{label}:switch", ok, f"max_episodes_before_update = {mx.canon()}", "" if ok else "the switch must happen inside the release block and set max_episodes_when_checkpointing", where)
        else:
            ok = mx == old[M]
            ck.ob("R4-window-switch", AQ, f"path:{label}:no-switch", ok, f"max_episodes_before_update = {mx.canon()}", "" if ok else "the window size may only change at the switch", where)
    for want in ("cut/release", "full/release", "continue/keep"):
        ck.ob("R3-checkpoint-guard", AQ, f"has-path:{want}", any(k.startswith(want) for k in seen_kinds), f"paths: {sorted(seen_kinds)}", "" if any(k.startswith(want) for k in seen_kinds) else f"no `{want}` path", loc(mi, fn))
    # the switch condition (the test guarding the write of max_episodes_before_update) and its position before the reset
    mx_writes = [n for n in cfg.nodes if n.kind == "stmt" and isinstance(n.ast, ast.Assign) and dotted(n.ast.targets[0]) == M]
    ck.need(len(mx_writes) == 1, f"{AQ}: expected one write of max_episodes_before_update")
    deps = [b for b, lab in cfg.control_deps(mx_writes[0].id) if cfg.nodes[b].kind == "test" and lab is True]
    ck.need(deps, f"{AQ}: window-size write is unconditional (unrecognised idiom)")
    sw = [cfg.nodes[deps[0]]]
    ssc = Scope(None, mi, {}, AQ)
    got = nf.poly(sw[0].ast.test, ssc, None).canon()
    want = nf.poly(parse_expr(f"epoch < steps_before_checkpointing <= epoch + {T}"), ssc, None).canon()
    ok = got == want
    ck.ob("R4-window-switch", AQ, "condition", ok, f"if {' '.join(ast.unparse(sw[0].ast.test).split())[:120]}",
          "" if ok else f"the switch must happen exactly when the training-iteration count crosses the threshold: epoch < steps_before_checkpointing <= epoch + {T} (normal form `{want}`), got `{got[:120]}`", loc(mi, sw[0].ast))
    resets = [n for n in cfg.nodes if n.kind == "stmt" and isinstance(n.ast, ast.Assign) and dotted(n.ast.targets[0]) == T]
    ok = len(resets) == 1 and cfg.dominates(sw[0].id, resets[0].id)
    ck.ob("R4-window-switch", AQ, "evaluated-before-reset", ok, "switch test precedes the counter reset", "" if ok else "the switch must be evaluated with the window's step count, i.e. before the counter is zeroed", loc(mi, sw[0].ast))
    # writers of the counter
    writers = sorted(" ".join(ast.unparse(n.ast).split()) for n in cfg.nodes if n.kind == "stmt" and isinstance(n.ast, (ast.Assign, ast.AugAssign)) and dotted(n.ast.targets[0] if isinstance(n.ast, ast.Assign) else n.ast.target) == T)
    ok = writers == sorted([f"{T} += steps_per_episode", f"{T} = 0"])
    ck.ob("R1-conservation", AQ, "counter-writers", ok, f"{writers}", "" if ok else "the step counter may only be advanced by steps_per_episode and reset to 0", loc(mi, fn))

    # ---- train_td7 ------------------------------------------------------------------------------------------
    TQ = "rl_blox.algorithm.td7.train_td7"
    L = find_env_loop(repo, TQ)
    cfg, mi = L.cfg, L.mi
    calls = [(n, c) for n in cfg.nodes if n.ast is not None and n.kind == "stmt" for c in ast.walk(n.ast) if isinstance(c, ast.Call) and dotted(c.func) == "assess_performance_and_checkpoint"]
    ck.need(len(calls) == 1, f"{TQ}: assessment call not found")
    n, c = calls[0]
    b = bind_call(fn, c)
    got = {k: dotted(v) for k, v in b.items()}
    want = {S: "checkpoint_state", "steps_per_episode": "steps_per_episode", "episode_return": "accumulated_reward", "epoch": "epoch", "reset_weight": "reset_weight",
            "max_episodes_when_checkpointing": "max_episodes_when_checkpointing", "steps_before_checkpointing": "steps_before_checkpointing"}
    ck.ob("R5-release-loop", TQ, "assessment-arguments", got == want, f"{got}", "" if got == want else f"expected {want}", loc(mi, c))
    tgt = n.ast.targets[0] if isinstance(n.ast, ast.Assign) else None
    ok = isinstance(tgt, ast.Tuple) and [dotted(x) for x in tgt.elts] == ["update_checkpoint", "training_steps"]
    ck.ob("R5-release-loop", TQ, "result-unpacked", ok, f"{short(tgt) if tgt is not None else None} = assess(...)", "" if ok else "results must be unpacked as (update_checkpoint, training_steps)", loc(mi, n.ast))
    lits = []
    for bnode, lab in cfg.control_deps(n.id):
        bn = cfg.nodes[bnode]
        if bn.kind == "test" and isinstance(bn.ast, ast.If):
            lits += [(t, v) for t, v in cfg._lits(bn.ast.test, lab, bnode)]
    tv, uv = L.pos[2], L.pos[3]
    # aliases (`done = terminated or truncated`) are represented by their expansion
    lits = [(t, v) for t, v in lits if not (t.isidentifier() and t != "use_checkpoints" and cfg._expand_name(ast.Name(id=t, ctx=ast.Load()), n.id) is not None)]
    texts = {t for t, v in lits if v}
    neg = {t for t, v in lits if not v}
    has_ckpt = "use_checkpoints" in texts
    has_end = f"{tv} or {uv}" in texts or f"{uv} or {tv}" in texts or f"({tv} or {uv})" in texts
    # a warm-up gate on the step counter is not part of this property (C11 decides it) and is allowed; anything else skips assessments
    extras = sorted(t for t in (texts - {"use_checkpoints", f"{tv} or {uv}", f"{uv} or {tv}"}) if "learning_starts" not in t and "logger" not in t) + sorted(f"not {t}" for t in neg if "logger" not in t)
    ok = has_ckpt and has_end and not extras
    why = ""
    if not has_ckpt or not has_end:
        why = "the assessment must run at every episode end (terminated or truncated) in checkpoint mode: otherwise episodes of the window are not counted"
    elif extras:
        why = f"the assessment is additionally conditioned on {extras}: some episode ends are skipped, so their steps are never released (or the window never closes)"
    ck.ob("R5-release-loop", TQ, "assessment-guard", ok, f"called under {sorted(texts)}{(' and not ' + str(sorted(neg))) if neg else ''}", why, loc(mi, c))
    # release loop
    loops = [m for m in cfg.nodes if m.kind == "for" and "training_steps" in ast.unparse(m.ast.iter)]
    ck.need(len(loops) == 1, f"{TQ}: release loop not found")
    lp = loops[0]
    it = lp.ast.iter
    sc = Scope(None, mi, {}, TQ)
    okr = isinstance(it, ast.Call) and dotted(it.func) == "range"
    trip = None
    if okr:
        a = [nf.poly(x, sc, None) for x in it.args]
        trip = (a[0] if len(a) == 1 else a[1] - a[0])
    ok = trip is not None and trip.canon() == "training_steps" and (len(it.args) < 3)
    ck.ob("R5-release-loop", TQ, "trip-count", ok, f"for ... in {ast.unparse(it)}: {trip.canon() if trip is not None else '?'} iterations", "" if ok else "the release loop must run exactly training_steps times", loc(mi, lp.ast))
    incs = [m for m in cfg.nodes if m.kind == "stmt" and isinstance(m.ast, ast.AugAssign) and dotted(m.ast.target) == "epoch" and lp.id in cfg.enclosing_loops(m.id)]
    ok = len(incs) == 1 and ast.unparse(incs[0].ast) == "epoch += 1" and cfg.enclosing_loops(incs[0].id)[0] == lp.id and len(cfg.control_deps(incs[0].id)) == len(cfg.control_deps(lp.id)) + 1
    ck.ob("R5-release-loop", TQ, "one-epoch-per-iteration", ok, f"{[ast.unparse(m.ast) for m in incs]}", "" if ok else "each released training iteration must advance epoch exactly once", loc(mi, lp.ast))
    ts_calls = [m for m in cfg.nodes if m.ast is not None and m.kind == "stmt" and lp.id in cfg.enclosing_loops(m.id) for x in ast.walk(m.ast) if isinstance(x, ast.Call) and dotted(x.func) == "_train_step"]
    ok = len(ts_calls) == 1 and len(cfg.control_deps(ts_calls[0].id)) == len(cfg.control_deps(lp.id)) + 1
    ck.ob("R5-release-loop", TQ, "one-train-step-per-iteration", ok, f"{len(ts_calls)} _train_step call(s) in the loop body", "" if ok else "each iteration must perform exactly one training step", loc(mi, lp.ast))
    # in checkpoint mode nothing is released unless an assessment says so: every other definition of the trip count that can
    # reach the release loop with use_checkpoints true must be the constant 0 (otherwise steps are released twice)
    n_def = 0
    for d in cfg.defs_of(lp.id, "training_steps"):
        if d.node == n.id:
            continue
        dl = [(t, v) for bnode, lab in cfg.control_deps(d.node) if cfg.nodes[bnode].kind == "test" and isinstance(cfg.nodes[bnode].ast, ast.If) for t, v in cfg._lits(cfg.nodes[bnode].ast.test, lab, bnode)]
        if ("use_checkpoints", False) in dl:
            continue  # plain mode: outside this property
        n_def += 1
        val = _const_under(cfg, d.value, {"use_checkpoints": True}, d.node) if d.kind == "assign" and d.value is not None else None
        if val is None:
            raise AnalysisError(f"{TQ}: `{short(cfg.nodes[d.node].ast, 60)}` - cannot evaluate the number of released steps in checkpoint mode (unrecognised idiom)")
        ck.ob("R5-release-loop", TQ, f"default-release:{short(cfg.nodes[d.node].ast, 40)}", val == 0, f"`{short(cfg.nodes[d.node].ast, 60)}` = {val} when use_checkpoints", "" if val == 0 else "in checkpoint mode only the assessment may release training iterations: this default releases steps that the window will release again", loc(mi, cfg.nodes[d.node].ast))
    ck.ob("R5-release-loop", TQ, "default-release", n_def >= 1, f"{n_def} default definition(s) of training_steps reach the release loop in checkpoint mode", "" if n_def else "no default for steps without an assessment (previous trip count would be reused)", loc(mi, lp.ast))
    # checkpoint copy
    cps = [(m, x) for m in cfg.nodes if m.ast is not None and m.kind == "stmt" for x in ast.walk(m.ast) if isinstance(x, ast.Call) and dotted(x.func) == "hard_target_net_update" and len(x.args) == 2 and dotted(x.args[1]) == "checkpoint"]
    ck.need(len(cps) == 1, f"{TQ}: checkpoint copy not found")
    m, x = cps[0]
    g = [t for bnode, lab in cfg.control_deps(m.id)[:1] for t, v in cfg._lits(cfg.nodes[bnode].ast.test, lab, bnode) if v]
    ok = g == ["update_checkpoint"] and dotted(x.args[0]) == "policy"
    ck.ob("R5-release-loop", TQ, "checkpoint-copy", ok, f"`{short(x)}` under {g}", "" if ok else "the checkpoint must be overwritten with the current policy, and only when the assessment returned the flag", loc(mi, x))
    flag_defs = cfg.defs_of(m.id, "update_checkpoint")
    fresh = len(flag_defs) == 1 and flag_defs[0].node == n.id and cfg.dominates(n.id, m.id)
    ck.ob("R5-release-loop", TQ, "flag-from-this-assessment", fresh, f"update_checkpoint read at the copy is defined at line(s) {sorted(cfg.nodes[d.node].lineno for d in flag_defs)}",
          "" if fresh else "the flag read at the copy is not (only) the result of the assessment of this step: a stale True from an earlier window overwrites the checkpoint with an unassessed policy", loc(mi, x))


_C, _T = "rl_blox/blox/checkpointing.py", "rl_blox/algorithm/td7.py"
MUTANTS = [
    {"id": "c15-switch-condition-ge-only", "file": _C, "rule": "R4", "find": "            epoch\n            < steps_before_checkpointing\n            <= epoch + checkpoint_state.timesteps_since_upate\n", "replace": "            steps_before_checkpointing\n            <= epoch + checkpoint_state.timesteps_since_upate\n"},
    {"id": "c15-td7-stale-flag", "file": _T, "rule": "R5", "edits": [("    checkpoint_state = CheckpointState()\n", "    checkpoint_state = CheckpointState()\n    update_checkpoint = False\n"),
        ("                if update_checkpoint:\n                    hard_target_net_update(policy, checkpoint)\n                    epochs = {\n                        \"actor_checkpoint\": checkpoint.actor,\n                        \"fixed_embedding_checkpoint\": checkpoint.embedding,\n                    }\n                    if logger is not None:\n                        for k, v in epochs.items():\n                            logger.record_epoch(k, v, step=step + 1)\n                if logger is not None:\n                    for k, v in checkpoint_state.__dict__.items():\n                        logger.record_stat(k, v, step=step + 1)\n",
         "                if logger is not None:\n                    for k, v in checkpoint_state.__dict__.items():\n                        logger.record_stat(k, v, step=step + 1)\n\n            if update_checkpoint:\n                hard_target_net_update(policy, checkpoint)\n")]},
    {"id": "c15-release-minus-one", "file": _C, "rule": "R1", "nth": 0, "find": "        training_steps = checkpoint_state.timesteps_since_upate\n", "replace": "        training_steps = checkpoint_state.timesteps_since_upate - 1\n"},
    {"id": "c15-release-episode-steps", "file": _C, "rule": "R1", "nth": 1, "find": "        training_steps = checkpoint_state.timesteps_since_upate\n", "replace": "        training_steps = steps_per_episode\n"},
    {"id": "c15-counter-not-reset", "file": _C, "rule": "R2", "find": "        checkpoint_state.timesteps_since_upate = 0\n", "replace": ""},
    {"id": "c15-min-not-reset", "file": _C, "rule": "R2", "find": "        checkpoint_state.min_return = 1e8\n", "replace": ""},
    {"id": "c15-flag-in-cut", "file": _C, "rule": "R3", "find": "        # checkpoint. End evaluation of current actor early.\n        training_steps", "replace": "        # checkpoint. End evaluation of current actor early.\n        update_checkpoint = True\n        training_steps"},
    {"id": "c15-cut-le", "file": _C, "rule": "R", "find": "    if checkpoint_state.min_return < checkpoint_state.best_min_return:", "replace": "    if checkpoint_state.min_return <= checkpoint_state.best_min_return:", "accept_error": True},
    {"id": "c15-best-not-recorded", "file": _C, "rule": "R3", "find": "        checkpoint_state.best_min_return = checkpoint_state.min_return\n", "replace": ""},
    {"id": "c15-min-is-last", "file": _C, "rule": "R", "find": "    checkpoint_state.min_return = min(\n        checkpoint_state.min_return, episode_return\n    )", "replace": "    checkpoint_state.min_return = episode_return"},
    {"id": "c15-switch-after-reset", "file": _C, "rule": "R4", "find": "        # Reset checkpoint monitoring.\n        checkpoint_state.episodes_since_udpate = 0\n        checkpoint_state.timesteps_since_upate = 0\n        checkpoint_state.min_return = 1e8\n",
     "replace": ""},
    {"id": "c15-switch-outside-release", "file": _C, "rule": "R4", "find": "    if training_steps > 0:\n        # Switch to full checkpointing.\n        if (", "replace": "    if True:\n        # Switch to full checkpointing.\n        if (", "accept_error": True},
    {"id": "c15-td7-range-off", "file": _T, "rule": "R5", "find": "            for delayed_train_step_idx in range(1, training_steps + 1):", "replace": "            for delayed_train_step_idx in range(1, training_steps):"},
    {"id": "c15-td7-epoch-twice", "file": _T, "rule": "R5", "find": "                epoch += 1\n                key, sampling_key = jax.random.split(key, 2)\n                metrics, epochs = _train_step(", "replace": "                epoch += 1\n                key, sampling_key = jax.random.split(key, 2)\n                if termination:\n                    epoch += 1\n                metrics, epochs = _train_step("},
    {"id": "c15-td7-assess-on-termination-only", "file": _T, "rule": "R5", "find": "            if (termination or truncated) and use_checkpoints:", "replace": "            if termination and use_checkpoints:"},
    {"id": "c15-td7-checkpoint-unguarded", "file": _T, "rule": "R5", "find": "                if update_checkpoint:\n                    hard_target_net_update(policy, checkpoint)", "replace": "                if training_steps:\n                    hard_target_net_update(policy, checkpoint)"},
    {"id": "c15-td7-return-for-length", "file": _T, "rule": "R5", "find": "                        steps_per_episode,\n                        accumulated_reward,\n                        epoch,", "replace": "                        accumulated_reward,\n                        steps_per_episode,\n                        epoch,"},
]
BENIGN = [
    {"id": "c15-b-switch-unchained", "file": _C, "find": "            epoch\n            < steps_before_checkpointing\n            <= epoch + checkpoint_state.timesteps_since_upate\n", "replace": "            epoch < steps_before_checkpointing\n            and epoch + checkpoint_state.timesteps_since_upate >= steps_before_checkpointing\n"},
    {"id": "c15-b-local-ts", "file": _C, "nth": 0, "find": "        training_steps = checkpoint_state.timesteps_since_upate\n", "replace": "        collected = checkpoint_state.timesteps_since_upate\n        training_steps = collected\n"},
    {"id": "c15-b-reset-order", "file": _C, "find": "        checkpoint_state.episodes_since_udpate = 0\n        checkpoint_state.timesteps_since_upate = 0\n", "replace": "        checkpoint_state.timesteps_since_upate = 0\n        checkpoint_state.episodes_since_udpate = 0\n"},
    {"id": "c15-b-td7-range0", "file": _T, "find": "            for delayed_train_step_idx in range(1, training_steps + 1):", "replace": "            for delayed_train_step_idx in range(2, training_steps + 2):"},
]
