"""C15 - deferred training releases exactly the collected steps; checkpoints only improve."""
from __future__ import annotations

import ast

from ..loops import dotted, find_env_loop, strip_wrappers
from ..nf import NF, Scope, Poly, parse_expr
from ..repo import Repo, loc, short, AnalysisError, positional_params, param_names, bind_call
from ..sem import OrderModel, Unknown, order_formula, eval_order_formula, guard_literals, result_position, result_position_def, whole_result, _split2
from ..specialise import load_signatures
from ..sympath import enumerate_paths, PathEval

EXPLANATION = (
    "assess_performance_and_checkpoint is loop free and only compares its numeric quantities, so its behaviour is a finite table: all "
    "acyclic paths are evaluated symbolically (polynomial values of the CheckpointState fields, branch conditions as comparisons of "
    "polynomials in the state at the test), and in every world of a finite order model (one weak ordering per cluster "
    "{episode_return, old min_return, best_min_return}, {episodes+1, max_episodes}, {epoch, threshold, epoch+window steps}; min() "
    "resolved per world; window steps > 0) the path whose conditions hold must return and store exactly what the documented table says: "
    "released steps = window steps on cut/complete and 0 otherwise, the three counters reset exactly on release, flag exactly on a "
    "completed window with best := min, the switch exactly under release and epoch < threshold <= epoch + window steps.  In train_td7 the "
    "assessment is reached after a step exactly when the episode ended (truth table over terminated/truncated) with the step / return / "
    "epoch counters in their roles (identified by their update statements), the release loop runs exactly as many iterations as the "
    "assessment returned (position 1 of its result) with one epoch increment and one training step each, nothing else releases steps in "
    "checkpoint mode, and the checkpoint copy is guarded by position 0 of the result of the assessment of this step.  Forms that are read like the "
    "plain ones: comparisons spelled as functions of the operator module; isnan() of a quantity of the order model (False in every world: the "
    "worlds order real numbers, the NaN world is outside the documented table and not decided); boolean locals bound in tuple assignments; stages "
    "of the assessment moved into new methods / read-only properties / static methods of the window-state class (expanded at their use on the state "
    "parameter); the assessment applied through a single functools.partial (arguments written out; a configured parameter that is not passed at "
    "all is the literal default of the assessment's signature); the result returned as a typing.NamedTuple record of the repository (the tuple of its fields in declaration "
    "order); in train_td7 a value carried through an expanded local helper (`t = v` ... `v = t` with v untouched in between: t is v), a counting loop whose "
    "target is the counter it advances (`for v in range(v + 1, b)` is `v += 1` at the head of every iteration) and truth locals wrapped in bool().  When the order "
    "worlds do not decide the assessment (a comparison with a product such as best * reset_weight), a small grid of concrete reachable entry states is evaluated exactly: "
    "a state whose outcome differs from the documented table is a witness (violation), finding none leaves the form undecided."
)
TRUSTED = ["Python comparison semantics", "steps_per_episode >= 1 at an episode end (the window's step count is positive when steps are released)",
           "the epoch counter only grows (needed for `the switch happens once`, not decided)"]
RULES = {
    "R1-conservation": "in every order world the active path returns training_steps = old timesteps + steps_per_episode on cut / completed window and 0 otherwise",
    "R2-reset-set": "episodes, timesteps and min_return are (0, 0, 1e8) exactly in the worlds that release steps, else (old+1, old+steps, min(old, return))",
    "R3-checkpoint-guard": "update_checkpoint is True exactly in the worlds not(min < best) and episodes+1 == max_episodes, where best_min_return := min; cut exactly when min < best",
    "R4-window-switch": "max_episodes_before_update := max_episodes_when_checkpointing and best *= reset_weight exactly in releasing worlds with epoch < threshold <= epoch + window steps",
    "R5-release-loop": "train_td7: assessment reached iff (terminated or truncated) in checkpoint mode (after warm-up) with the counters in their roles; release loop has exactly result[1] iterations with one epoch increment and one training step each; "
                       "no other release in checkpoint mode; checkpoint copy guarded by result[0] of this step's assessment, source = trained policy",
}

AQ = "rl_blox.blox.checkpointing.assess_performance_and_checkpoint"
TQ = "rl_blox.algorithm.td7.train_td7"
FIELDS = ["episodes_since_udpate", "timesteps_since_upate", "max_episodes_before_update", "min_return", "best_min_return"]


def _const_under(cfg, e, assume, at):
    """Value of a constant / conditional-constant expression under branch assumptions; None when not decidable."""
    if isinstance(e, ast.Constant) and isinstance(e.value, (int, float)) and not isinstance(e.value, bool):
        return e.value
    if isinstance(e, ast.IfExp):
        v = cfg.eval3(e.test, dict(assume), at)
        if v is None:
            return None
        return _const_under(cfg, e.body if v else e.orelse, assume, at)
    return None


_CMP_FUNCS = {"operator.lt": "lt", "operator.le": "le", "operator.gt": "gt", "operator.ge": "ge", "operator.eq": "eq", "operator.ne": "ne",
              "operator.__lt__": "lt", "operator.__le__": "le", "operator.__gt__": "gt", "operator.__ge__": "ge", "operator.__eq__": "eq", "operator.__ne__": "ne"}
_NOT_FUNCS = {"operator.not_", "operator.__not__"}
_TRUTH_FUNCS = {"operator.truth", "bool"}
_ISNAN_FUNCS = {"math.isnan", "numpy.isnan", "jax.numpy.isnan", "cmath.isnan"}


def _refine_formula(repo, nf, mi, f, ordered):
    """Read the function spellings of the comparison operators inside an order formula: a truth-valued call atom `operator.lt(a, b)` (resolved
    through the module's imports, whatever the alias) is the comparison a < b, `operator.not_(x)` the negation.  `isnan(x)` of a quantity of
    the order model is False: the model's worlds are weak orderings of ordered reals (``ordered(p)`` says that p is such a quantity); the
    NaN world is outside the documented table and is not decided here."""
    k = f[0]
    if k == "not":
        return ("not", _refine_formula(repo, nf, mi, f[1], ordered))
    if k in ("and", "or"):
        return (k, tuple(_refine_formula(repo, nf, mi, g, ordered) for g in f[1]))
    if k != "truth":
        return f
    a = f[1].single_atom()
    m = nf.meta.get(a) if a else None
    if not m or m.get("kws") or not isinstance(m.get("fn"), str):
        return f
    try:
        q = repo.resolve_expr(mi, parse_expr(m["fn"])) or m["fn"]      # the normal form already names a module function by its resolved dotted name
    except Exception:
        q = m["fn"]
    if m["fn"] in ("bool", "isnan"):
        q = {"bool": "bool", "isnan": "math.isnan"}[m["fn"]]      # the normal form names a resolved library function (math / numpy / jax.numpy) by its short name
    args = m.get("args", [])
    if q in _CMP_FUNCS and len(args) == 2:
        x, y = args
        return {"lt": ("cmp", "lt", x, y), "gt": ("cmp", "lt", y, x), "le": ("not", ("cmp", "lt", y, x)), "ge": ("not", ("cmp", "lt", x, y)),
                "eq": ("cmp", "eq", x, y), "ne": ("not", ("cmp", "eq", x, y))}[_CMP_FUNCS[q]]
    if q in _NOT_FUNCS and len(args) == 1:
        return ("not", _refine_formula(repo, nf, mi, ("truth", args[0]), ordered))
    if q in _TRUTH_FUNCS and len(args) == 1:
        return _refine_formula(repo, nf, mi, ("truth", args[0]), ordered)
    if q in _ISNAN_FUNCS and len(args) == 1 and ordered(args[0]):
        return ("const", False)
    return f


def _is_property(fn) -> bool:
    return any(dotted(d) in ("property", "builtins.property") for d in fn.decorator_list)


def _with_object_methods_inlined(repo, fn, qual: str, default_types: dict | None = None):
    """Copy of ``fn`` in which the methods (and read-only properties) that a later change gave to the class of one of its parameters are
    expanded at their calls / reads on that parameter, as the repository-wide helper expansion does for functions and `self` methods: the
    receiver's class is read from the parameter's annotation (``default_types``: parameter -> class where the public signature fixes the
    role), single-definition aliases of such a parameter are followed.  Methods of the recorded surface are left alone.  Returns None when
    there is nothing to expand; raises AnalysisError when a call of such a method could not be expanded.  The original tree is not touched."""
    from ..expand import Expander, clone, load_known
    mi = fn._module
    known = load_known()
    a = fn.args
    typed = {}
    for p_ in a.posonlyargs + a.args + a.kwonlyargs:
        ann, q = p_.annotation, None
        if isinstance(ann, ast.Constant) and isinstance(ann.value, str):
            try:
                ann = parse_expr(ann.value)
            except SyntaxError:
                ann = None
        if isinstance(ann, (ast.Name, ast.Attribute)):
            try:
                q = repo.resolve_expr(mi, ann)
            except Exception:
                q = None
        if ann is None and default_types and p_.arg in default_types:
            q = default_types[p_.arg]
        if q:
            try:
                typed[p_.arg] = repo.canonical(q, repo.cls(q))
            except Exception:
                continue
    stores = {}
    for x in ast.walk(fn):
        if isinstance(x, ast.Name) and isinstance(x.ctx, (ast.Store, ast.Del)):
            stores[x.id] = stores.get(x.id, 0) + 1
    typed = {k: v for k, v in typed.items() if k not in stores}
    for x in ast.walk(fn):       # `state = checkpoint_state`: one definition, a plain copy of a typed parameter
        if isinstance(x, ast.Assign) and len(x.targets) == 1 and isinstance(x.targets[0], ast.Name) and stores.get(x.targets[0].id) == 1 \
                and isinstance(x.value, ast.Name) and x.value.id in typed and x in fn.body:
            typed[x.targets[0].id] = typed[x.value.id]

    def new_method(cq, attr):
        try:
            m = repo.method(cq, attr)
        except Exception:
            return None
        if m is None or not isinstance(m[1], ast.FunctionDef) or f"{m[0]}.{attr}" in known:
            return None
        return m
    if not any(isinstance(x, ast.Attribute) and isinstance(x.value, ast.Name) and x.value.id in typed and new_method(typed[x.value.id], x.attr) for x in ast.walk(fn)):
        return None

    class ObjectExpander(Expander):
        def resolve(self, call, mi_, cls_qual, owner_qual):
            f = call.func
            if isinstance(f, ast.Attribute) and isinstance(f.value, ast.Name) and f.value.id in typed:
                m = new_method(typed[f.value.id], f.attr)
                if m is not None:
                    if self._is_classmethod(m[1]) or _is_property(m[1]) != bool(getattr(call, "_property_read", False)) \
                            or any(dotted(d) not in ("property", "builtins.property", "staticmethod", "builtins.staticmethod") for d in m[1].decorator_list):
                        self.failed.append((owner_qual, f"{m[0]}.{f.attr}"))
                        return None
                    return f"{m[0]}.{f.attr}", m[1], repo.cls(m[0])._module, (None if self._is_static(m[1]) else f.value)
            return super().resolve(call, mi_, cls_qual, owner_qual)

        def _find_call(self, s, mi_, cls_qual, qual_, stack, own_only=True):
            # a read of a property is a call of its getter without arguments
            class P(ast.NodeTransformer):
                def visit_Attribute(self_inner, n):
                    self_inner.generic_visit(n)
                    if isinstance(n.ctx, ast.Load) and isinstance(n.value, ast.Name) and n.value.id in typed:
                        m = new_method(typed[n.value.id], n.attr)
                        if m is not None and _is_property(m[1]):
                            c = ast.copy_location(ast.Call(func=n, args=[], keywords=[]), n)
                            c._property_read = True
                            return c
                    return n

                def visit_Call(self_inner, n):
                    if getattr(n, "_property_read", False):
                        return n
                    return self_inner.generic_visit(n)
            for f_, v in ast.iter_fields(s):
                if f_ in ("body", "orelse", "finalbody", "handlers"):
                    continue
                if isinstance(v, ast.AST):
                    setattr(s, f_, P().visit(v))
                elif isinstance(v, list):
                    setattr(s, f_, [P().visit(x) if isinstance(x, ast.AST) and not isinstance(x, ast.stmt) else x for x in v])
            return super()._find_call(s, mi_, cls_qual, qual_, stack, own_only)

    new = clone(fn)
    new._module = mi
    new._parent = getattr(fn, "_parent", None)
    ex = ObjectExpander(repo, known, max_depth=3)
    try:
        changed = ex.expand_function(new, mi, None, qual)
    except RecursionError:
        raise AnalysisError(f"{qual}: methods of the parameter's class could not be expanded (unrecognised form)")
    left = [x for x in ast.walk(new) if isinstance(x, ast.Call) and (getattr(x, "_property_read", False) or (getattr(x, "_no_inline", False) and isinstance(x.func, ast.Attribute)
            and isinstance(x.func.value, ast.Name) and x.func.value.id in typed and new_method(typed[x.func.value.id], x.func.attr)))]
    if ex.failed or left or not changed:
        what = ex.failed[0][1] if ex.failed else (short(left[0], 50) if left else "nothing")
        raise AnalysisError(f"{qual}: the method `{what}` of the parameter's class could not be expanded at its call (unrecognised form)")
    for parent in ast.walk(new):
        for child in ast.iter_child_nodes(parent):
            child._parent = parent
    return new


def _record_as_tuple(repo, mi, e):
    """`Record(a, field2=b)` where Record is a typing.NamedTuple class of the repository (a tuple with named positions, no constructor of its
    own): the tuple of its fields in declaration order, arguments bound by position / field name, omitted fields at their declared defaults.
    Anything else is returned as it is."""
    if not (isinstance(e, ast.Call) and isinstance(e.func, (ast.Name, ast.Attribute))):
        return e
    try:
        q = repo.resolve_expr(mi, e.func)
        c = repo.cls(q) if q else None
    except Exception:
        return e
    if not isinstance(c, ast.ClassDef) or len(c.bases) != 1 or c.keywords or c.decorator_list:
        return e
    try:
        base = repo.resolve_expr(c._module, c.bases[0])
    except Exception:
        base = None
    if base != "typing.NamedTuple":
        return e
    fields = [(s_.target.id, s_.value) for s_ in c.body if isinstance(s_, ast.AnnAssign) and isinstance(s_.target, ast.Name)]
    if any(isinstance(s_, ast.FunctionDef) and s_.name in ("__new__", "__init__") for s_ in c.body) or not fields:
        return e
    if any(isinstance(a_, ast.Starred) for a_ in e.args) or any(k.arg is None for k in e.keywords) or len(e.args) > len(fields):
        return e
    vals = dict(zip([f_ for f_, _ in fields], e.args))
    for k in e.keywords:
        if k.arg in vals or k.arg not in dict(fields):
            return e
        vals[k.arg] = k.value
    elts = []
    for f_, d_ in fields:
        v_ = vals.get(f_, d_)
        if v_ is None:
            return e
        elts.append(v_)
    return ast.copy_location(ast.Tuple(elts=elts, ctx=ast.Load()), e)


class _NotNumeric(Exception):
    pass


def _concrete_counterexample(summaries, m1, old, env0, fields, roles):
    """Search a small grid of concrete entry states (exact rationals; the entry invariants of the order model: min_return >= best_min_return,
    episodes + 1 <= window size, episode steps >= 1) for one in which the outcome of the single enabled path differs from the documented table.
    Returns {obligation key: (detail with the state as witness, why)} for the first such state, None when there is none on the grid or the
    paths cannot be evaluated numerically (nothing is concluded then)."""
    import itertools
    from fractions import Fraction as Fr
    E, T, M, MIN, BEST = fields
    SPE, RET, EPOCH, RW, MEWC, SBC = roles
    min_atom = m1.single_atom()

    def nval(p_, mp):
        q = p_.subst(mp)
        if not q.is_const():
            raise _NotNumeric()
        return q.const_value()

    def holds(f, mp):
        k = f[0]
        if k == "const":
            return bool(f[1])
        if k == "not":
            return not holds(f[1], mp)
        if k == "and":
            return all(holds(g, mp) for g in f[1])
        if k == "or":
            return any(holds(g, mp) for g in f[1])
        if k == "truth":
            return nval(f[1], mp) != 0
        if k == "cmp":
            d_ = nval(f[2] - f[3], mp)
            return d_ < 0 if f[1] == "lt" else d_ == 0
        raise _NotNumeric()

    # window states that a run reaches: a fresh window (no episode, no step, the sentinel as minimum) or one episode into a window of two
    windows = ((0, 1, 0, Fr(10 ** 8)), (0, 2, 0, Fr(10 ** 8)), (1, 2, 3, Fr(4)), (1, 2, 3, Fr(10)))
    grid = itertools.product((Fr(-3), Fr(3), Fr(5)), windows, (Fr(-2), Fr(4)), (Fr(1, 2), Fr(1), Fr(2)), (1, 2), (0, 10), (0, 2, 12, 50))
    for ret, (e0, msz, t0, omin), best, w, spe, epoch, sbc in grid:
        if omin < best:
            continue
        mewc = 7
        mn = min(omin, ret)
        mp = {next(iter(env0[RET].atoms())): Poly.const(ret), next(iter(old[MIN].atoms())): Poly.const(omin), next(iter(old[BEST].atoms())): Poly.const(best),
              next(iter(env0[RW].atoms())): Poly.const(w), next(iter(old[E].atoms())): Poly.const(e0), next(iter(old[M].atoms())): Poly.const(msz),
              next(iter(old[T].atoms())): Poly.const(t0), next(iter(env0[SPE].atoms())): Poly.const(spe), next(iter(env0[EPOCH].atoms())): Poly.const(epoch),
              next(iter(env0[SBC].atoms())): Poly.const(sbc), next(iter(env0[MEWC].atoms())): Poly.const(mewc), min_atom: Poly.const(mn)}
        try:
            active = [sm for sm in summaries if all(holds(f, mp) for f in sm[1])]
            if len(active) != 1:
                continue
            _p, _conds, (flag_f, steps), store = active[0]
            got = {"R1-conservation:released": nval(steps, mp), "R2-reset-set:episodes": nval(store[E], mp), "R2-reset-set:timesteps": nval(store[T], mp),
                   "R3-checkpoint-guard:best": nval(store[BEST], mp), "R4-window-switch:window-size": nval(store[M], mp), "R2-reset-set:min_return": nval(store[MIN], mp),
                   "R3-checkpoint-guard:flag": holds(flag_f, mp)}
        except (_NotNumeric, KeyError):
            continue
        e1, t1 = e0 + 1, t0 + spe
        cut = mn < best
        full = (not cut) and e1 == msz
        release = cut or full
        sw = release and epoch < sbc <= epoch + t1
        want = {"R1-conservation:released": (t1 if release else 0, "the released training iterations must equal the environment steps collected in this window (old counter + this episode), 0 while the window continues"),
                "R2-reset-set:episodes": (0 if release else e1, "the episode counter is reset exactly when steps are released, else advanced by one"),
                "R2-reset-set:timesteps": (0 if release else t1, "the step counter is reset exactly when steps are released, else advanced by the episode's steps"),
                "R3-checkpoint-guard:best": ((mn if full else best) * (w if sw else 1), "best_min_return changes only when a window completes (to the window's minimum return) and by the reset weight at the switch"),
                "R4-window-switch:window-size": (mewc if sw else msz, "the window size changes exactly at the switch, to max_episodes_when_checkpointing"),
                "R3-checkpoint-guard:flag": (full, "the checkpoint may be replaced exactly when a complete window finished with every return at least the best minimum so far")}
        state = (f"episode_return={ret}, min_return={omin}, best_min_return={best}, reset_weight={w}, episodes={e0}, window size={msz}, timesteps={t0}, "
                 f"steps_per_episode={spe}, epoch={epoch}, steps_before_checkpointing={sbc}")
        kind = ("cut" if cut else "full" if full else "continue") + ("/switch" if sw else "")
        out = {}
        for key, (wv, why) in want.items():
            if got[key] != wv:
                out[key] = (f"{key.split(':')[1]} = {got[key]}, documented {wv} in the entry state [{state}] ({kind})", why)
        gm = got["R2-reset-set:min_return"]
        if (gm < 10 ** 6) if release else (gm != mn):
            out["R2-reset-set:min_return"] = (f"min_return = {gm} in the entry state [{state}] ({kind})", "min_return must be min(old, episode_return) while the window continues and reset to its large initial value on release")
        if out:
            return out
    return None


def _records_as_tuples(repo, fn):
    """Copy of ``fn`` in which every construction of a NamedTuple record of the repository is written as the plain tuple it is (see
    _record_as_tuple); None when the routine constructs none."""
    from ..expand import clone
    mi = fn._module
    if not any(isinstance(x, ast.Call) and _record_as_tuple(repo, mi, x) is not x for x in ast.walk(fn)):
        return None

    class T(ast.NodeTransformer):
        def visit_Call(self, node):
            self.generic_visit(node)
            return _record_as_tuple(repo, mi, node)
    new = clone(fn)
    new._module = mi
    new._parent = getattr(fn, "_parent", None)
    new = T().visit(new)
    for parent in ast.walk(new):
        for child in ast.iter_child_nodes(parent):
            child._parent = parent
    return new


def _assess_table(ck, repo, nf):
    fn = repo.func(AQ)
    mi = fn._module
    params = param_names(fn)
    ck.need(len(params) >= 7, f"{AQ}: signature changed (anchor vanished)")
    # stages that a later change moved into methods / properties of the window-state class are read at their calls on the state parameter
    fn = _with_object_methods_inlined(repo, fn, AQ, {params[0]: "rl_blox.blox.checkpointing.CheckpointState"}) or fn
    fn = _records_as_tuples(repo, fn) or fn
    cfg = nf.cfg_of(fn)
    S, SPE, RET, EPOCH, RW, MEWC, SBC = params[:7]     # roles by position (public signature)
    cls = repo.cls("rl_blox.blox.checkpointing.CheckpointState")
    fields = [n.target.id for n in cls.body if isinstance(n, ast.AnnAssign) and isinstance(n.target, ast.Name)]
    ck.need(all(f in fields for f in FIELDS), f"CheckpointState fields changed: {fields}")
    E, T, M, MIN, BEST = (f"{S}.{f}" for f in FIELDS)
    env0 = {p: Poly.atom(p, {p}, {p}) for p in params}
    # parameters added after the documented seven are options the table does not mention: the table documents their defaults
    a_ = fn.args
    defaults_ = dict(zip([x.arg for x in (a_.posonlyargs + a_.args)][len(a_.posonlyargs + a_.args) - len(a_.defaults):], a_.defaults))
    defaults_.update({x.arg: d for x, d in zip(a_.kwonlyargs, a_.kw_defaults) if d is not None})
    for p in params[7:]:
        d_ = defaults_.get(p)
        if isinstance(d_, ast.Constant) and isinstance(d_.value, (bool, int, float)):
            env0[p] = Poly.const(int(d_.value) if isinstance(d_.value, bool) else d_.value)
        elif not (isinstance(d_, ast.Constant) and d_.value is None):
            raise AnalysisError(f"{AQ}: new parameter `{p}` has no constant default: the documented table cannot be compared (unrecognised form)")
    old = {f"{S}.{f}": Poly.atom(f"old.{f}") for f in FIELDS}
    e1, t1 = old[E] + Poly.const(1), old[T] + env0[SPE]
    m1 = nf.poly(parse_expr("min(OLDMIN, RETURN)"), Scope(None, mi, {"OLDMIN": old[MIN], "RETURN": env0[RET]}, AQ), None)
    ck.need(m1.single_atom() is not None, f"min() has no atomic normal form: {m1.canon()}")
    base_atoms = {a for v in list(env0.values()) + list(old.values()) for a in v.atoms()}
    # ---- the order model ---------------------------------------------------------------------------------------------------------
    model = OrderModel()
    # entry invariant: min_return >= best_min_return (a window whose minimum fell below the best is cut at once and min_return is reset
    # to its large sentinel, which the table below checks; the sentinel is trusted to exceed every return)
    c1 = model.cluster([env0[RET], old[MIN], old[BEST]], constraint=lambda r: r[1] >= r[2])
    model.derive(m1.single_atom(), "min", c1, 0, 1)
    # entry invariant of the documented behaviour: episodes_since_update < max_episodes_before_update (the counter is reset when it reaches
    # the window size, and the window size only changes together with a reset): worlds with e + 1 > M are not reachable
    model.cluster([e1, old[M]], constraint=lambda r: r[0] <= r[1])
    # 1 <= episode steps <= window steps, and the distance to the switch (steps_before_checkpointing - epoch) anywhere among them: every
    # comparison of epoch (+ steps) with the threshold is a comparison inside this one cluster (differences are matched, not operands)
    model.cluster([Poly.const(0), Poly.const(1), env0[SPE], t1, env0[SBC] - env0[EPOCH]], constraint=lambda r: r[0] < r[1] <= r[2] <= r[3])
    CUT = ("cmp", "lt", m1, old[BEST])
    FULLEQ = ("cmp", "eq", e1, old[M])
    SWC = ("and", (("cmp", "lt", env0[EPOCH], env0[SBC]), ("not", ("cmp", "lt", env0[EPOCH] + t1, env0[SBC]))))
    RESET_MIN = None
    # ---- paths ---------------------------------------------------------------------------------------------------------------------
    ordered_atoms = base_atoms | set(model.derived)

    def formula(e, sc, names):
        return _refine_formula(repo, nf, mi, order_formula(nf, e, sc, names), lambda p_: bool(p_.atoms()) and p_.atoms() <= ordered_atoms)

    # every acyclic path: the syntactic pruning of the enumerator equates textually equal tests, which is wrong here when the state object is
    # updated in place between them (`min < best` before and after `best *= reset_weight`); an infeasible path is simply enabled in no world
    paths = enumerate_paths(cfg, cfg.entry, {cfg.exit}, feasible=False)
    ck.floor("acyclic-paths", len(paths), 5)
    summaries = []
    for p in paths:
        pe = PathEval(nf, cfg, mi, AQ, env0)
        pe.store = dict(old)
        names, conds = {}, []
        ret = None
        for nid, lab in p:
            n = cfg.nodes[nid]
            if n.kind == "test" and hasattr(n.ast, "test") and lab in (True, False):
                f = formula(n.ast.test, pe.scope(), names)
                conds.append(f if lab else ("not", f))
            if n.kind == "stmt" and isinstance(n.ast, ast.Assign) and len(n.ast.targets) == 1:
                # boolean locals carry their formula (evaluated in the state at the assignment); `a, b = e1, e2` is read element by element
                tg, v = n.ast.targets[0], n.ast.value
                pairs = [(tg, v)] if isinstance(tg, ast.Name) else \
                    list(zip(tg.elts, v.elts)) if isinstance(tg, (ast.Tuple, ast.List)) and isinstance(v, (ast.Tuple, ast.List)) and len(tg.elts) == len(v.elts) else []
                upd = {}
                for tg_, v_ in pairs:
                    if not isinstance(tg_, ast.Name):
                        continue
                    f_ = None
                    if isinstance(v_, (ast.Compare, ast.BoolOp)) or (isinstance(v_, ast.UnaryOp) and isinstance(v_.op, ast.Not)) or (isinstance(v_, ast.Constant) and isinstance(v_.value, bool)) \
                            or (isinstance(v_, ast.Name) and v_.id in names):
                        f_ = formula(v_, pe.scope(), names)
                    elif isinstance(v_, ast.Call):
                        # a predicate written as a call (`operator.lt(a, b)`, `math.isnan(x)`): kept only when it was read as a formula
                        f_ = formula(v_, pe.scope(), names)
                        f_ = None if f_[0] == "truth" else f_
                    upd[tg_.id] = f_
                for k_, f_ in upd.items():
                    if f_ is None:
                        names.pop(k_, None)
                    else:
                        names[k_] = f_
            if n.kind == "stmt" and isinstance(n.ast, ast.Return):
                ck.need(n.ast.value is not None, f"{AQ}: bare return")
                rv = _record_as_tuple(repo, mi, n.ast.value)
                if isinstance(rv, ast.Tuple) and len(rv.elts) == 2:
                    flag_f = formula(strip_wrappers(rv.elts[0]), pe.scope(), names)      # `bool(flag)` is the flag
                    ret = (flag_f, pe.ev(rv.elts[1]))
                else:
                    val = pe.ev(rv)
                    ck.need(val.elems is not None and len(val.elems) == 2, f"{AQ}: must return (update_checkpoint, training_steps)")
                    ret = (("truth", val.elems[0]), val.elems[1])
            pe.step(nid, lab)
        ck.need(ret is not None, f"{AQ}: path without return")
        summaries.append((p, conds, ret, dict(pe.store)))
    # ---- worlds -------------------------------------------------------------------------------------------------------------------------
    where = loc(mi, fn)
    n_worlds = 0
    seen_kinds = set()
    viol = {}     # (rule, key) -> (detail, why)
    checked = set()

    def understood(pv: Poly):
        return pv.atoms() <= base_atoms

    def sweep():
        nonlocal n_worlds
        n_worlds = 0
        seen_kinds.clear(); viol.clear(); checked.clear()
        for w in model.worlds():
            n_worlds += 1
            try:
                active = [sm for sm in summaries if all(eval_order_formula(model, w, f) for f in sm[1])]
                cut = eval_order_formula(model, w, CUT)
                full = (not cut) and eval_order_formula(model, w, FULLEQ)
                release = cut or full
                sw = release and eval_order_formula(model, w, SWC)
            except Unknown:
                raise
            if len(active) != 1:
                raise AnalysisError(f"{AQ}: {len(active)} paths are enabled in the world [{model.describe(w)}] (path conditions not exclusive: unrecognised form)")
            p, conds, (flag_f, steps), store = active[0]
            kind = "cut" if cut else ("full" if full else "continue")
            label = f"{kind}{'/switch' if sw else ''}"
            seen_kinds.add(label)
            m1w = model.resolve(w, m1)
            want = {
                "R1-conservation:released": (t1 if release else Poly.const(0), "the released training iterations must equal the environment steps collected in this window (old counter + this episode), 0 while the window continues"),
                "R2-reset-set:episodes": (Poly.const(0) if release else e1, "the episode counter is reset exactly when steps are released, else advanced by one"),
                "R2-reset-set:timesteps": (Poly.const(0) if release else t1, "the step counter is reset exactly when steps are released, else advanced by the episode's steps"),
                "R3-checkpoint-guard:best": ((m1w if full else old[BEST]) * (env0[RW] if sw else Poly.const(1)), "best_min_return changes only when a window completes (to the window's minimum return) and by the reset weight at the switch"),
                "R4-window-switch:window-size": (env0[MEWC] if sw else old[M], "the window size changes exactly at the switch, to max_episodes_when_checkpointing"),
            }
            got = {
                "R1-conservation:released": steps,
                "R2-reset-set:episodes": store.get(E),
                "R2-reset-set:timesteps": store.get(T),
                "R3-checkpoint-guard:best": store.get(BEST),
                "R4-window-switch:window-size": store.get(M),
            }
            # min_return: the fold value while the window continues, the (large) reset constant on release
            mg = model.resolve(w, store.get(MIN))
            if release:
                ok_m = mg.is_const() and mg.const_value() >= 10 ** 6
                if not ok_m and not understood(mg):
                    raise AnalysisError(f"{AQ}: min_return after a release is `{mg.canon()[:80]}` (unrecognised form)")
            else:
                ok_m = mg == model.resolve(w, m1w)
                if not ok_m and not understood(mg):
                    raise AnalysisError(f"{AQ}: min_return is `{mg.canon()[:80]}` (unrecognised form)")
            checked.add("R2-reset-set:min_return")
            if not ok_m:
                viol.setdefault("R2-reset-set:min_return", (f"min_return = {mg.canon()[:60]} in the world [{model.describe(w)}] ({label})",
                                                              "min_return must be min(old, episode_return) while the window continues and reset to its large initial value on release"))
            for key, (wv, why) in want.items():
                gv = model.resolve(w, got[key])
                wv = model.resolve(w, wv)
                checked.add(key)
                if gv == wv:
                    continue
                if not understood(gv):
                    raise AnalysisError(f"{AQ}: value `{gv.canon()[:80]}` for {key} is not a polynomial of the entry state (unrecognised form)")
                viol.setdefault(key, (f"{key.split(':')[1]} = {gv.canon()[:60]}, documented {wv.canon()[:60]} in the world [{model.describe(w)}] ({label})", why))
            try:
                flag = eval_order_formula(model, w, flag_f)
            except Unknown as u:
                raise AnalysisError(f"{AQ}: returned flag depends on `{str(u)[:80]}` (unrecognised form)")
            checked.add("R3-checkpoint-guard:flag")
            if flag != full:
                viol.setdefault("R3-checkpoint-guard:flag", (f"update_checkpoint = {flag} in the world [{model.describe(w)}] ({label})",
                                                               "the checkpoint may be replaced exactly when a complete window finished with every return at least the best minimum so far"))

    def decide():
        for _attempt in range(4):
            try:
                sweep()
                return
            except Unknown as u:
                # a comparison outside the documented table: if it relates entry-state quantities through a free atom it becomes an
                # independent relation of the model (the code's dependence on it is then compared with the table, which ignores it)
                if not model.extend_free(u.poly, base_atoms):
                    raise AnalysisError(f"{AQ}: a branch compares `{str(u)[:100]}`, which is outside the order model of the documented table (unrecognised form)")
        raise AnalysisError(f"{AQ}: too many comparisons outside the documented table")

    try:
        decide()
    except AnalysisError:
        # the order worlds do not decide this form.  A concrete entry state in which the code's outcome differs from the documented table is
        # still a witness (numbers for every quantity, the one enabled path evaluated exactly); finding none decides nothing
        cex = _concrete_counterexample(summaries, m1, old, env0, (E, T, M, MIN, BEST), (SPE, RET, EPOCH, RW, MEWC, SBC))
        if cex is None:
            raise
        for key, (detail, why) in sorted(cex.items()):
            rule, k = key.split(":")
            ck.ob(rule, AQ, f"state:{k}", False, detail, why, where)
        return fn
    for key in sorted(checked):
        rule, k = key.split(":")
        v = viol.get(key)
        ck.ob(rule, AQ, f"table:{k}", v is None, f"{n_worlds} order worlds, {len(summaries)} paths" if v is None else v[0], "" if v is None else v[1], where)
    for wantk in ("cut", "full", "continue", "cut/switch", "full/switch"):
        ck.ob("R3-checkpoint-guard", AQ, f"world-kind:{wantk}", wantk in seen_kinds, f"kinds: {sorted(seen_kinds)}", "" if wantk in seen_kinds else f"no world of kind `{wantk}` (model degenerate)", where)
    ck.floor("order-worlds", n_worlds, 100)
    return fn


def _origin_def(cfg, d, call, depth: int = 0):
    """Position of the result of ``call`` that the definition ``d`` stores, or None."""
    r = result_position_def(cfg, d, depth)
    return r[1] if r is not None and r[0] is call else None


def _origin(cfg, name: str, at: int, call, depth: int = 0):
    """Position in the result of ``call`` a variable holds at ``at`` (single definition, through copies), or None."""
    r = result_position(cfg, name, at, depth)
    return r[1] if r is not None and r[0] is call else None


def _trip_count(cfg, nf, mi, lp, qual):
    """Number of iterations of a counting loop as a polynomial: `for _ in range(a, b)` -> b - a; `i = c; while i < N: ...; i += 1` -> N - c."""
    sc = Scope(None, mi, {}, qual)
    if lp.kind == "for":
        it = lp.ast.iter
        if not (isinstance(it, ast.Call) and dotted(it.func) == "range" and not it.keywords and 1 <= len(it.args) <= 3):
            raise AnalysisError(f"{qual}: release loop iterates over `{short(it, 50)}` (unrecognised form)")
        a = [nf.poly(x, sc, None) for x in it.args]
        if len(a) == 3:
            # counting up or down by one; another stride is not a form whose trip count is read
            if not (a[2].is_const() and abs(a[2].const_value()) == 1):
                raise AnalysisError(f"{qual}: release loop iterates over `{short(it, 50)}` with a stride other than +-1 (unrecognised form)")
            return a[1] - a[0] if a[2].const_value() == 1 else a[0] - a[1]
        return a[0] if len(a) == 1 else a[1] - a[0]
    t = lp.ast.test
    if not (isinstance(lp.ast, ast.While) and isinstance(t, ast.Compare) and len(t.ops) == 1 and isinstance(t.ops[0], (ast.Lt, ast.Gt, ast.LtE, ast.GtE))):
        raise AnalysisError(f"{qual}: release loop condition `{short(t, 50)}` (unrecognised form)")
    lbody = cfg.loop_body_nodes(lp.id)
    sides = (t.left, t.comparators[0])
    # the counter is the side of the comparison that the loop body updates; the other side is the bound
    cnt = [x for x in sides if isinstance(x, ast.Name) and any(d.name == x.id for m in cfg.nodes if m.id in lbody for d in m.defs)]
    if len(cnt) != 1:
        raise AnalysisError(f"{qual}: release loop condition `{short(t, 50)}` (unrecognised form)")
    l = cnt[0]
    r = sides[1] if l is sides[0] else sides[0]
    up = isinstance(t.ops[0], (ast.Lt, ast.LtE)) == (l is sides[0])       # counter < bound (counting up) or counter > bound (counting down)
    inside, outside = [], []
    for d in cfg.defs_of(lp.id, l.id):
        (inside if d.node in lbody else outside).append(d)
    ok_in = inside and all(_delta(cfg.nodes[d.node].ast, d, l.id) == (1 if up else -1) for d in inside)
    ok_out = len(outside) == 1 and outside[0].kind == "assign" and outside[0].value is not None
    fixed = {x.id for e in ((r, outside[0].value) if ok_out else (r,)) for x in ast.walk(e) if isinstance(x, ast.Name)}
    rebinds = any(d.name in fixed for m in cfg.nodes if m.id in lbody for d in m.defs)
    # the start value is read where the counter is initialised: its variables must still hold the same values at the loop
    rd = cfg.reaching()
    moved = ok_out and any(rd[outside[0].node].get(x) != rd[lp.id].get(x) for x in fixed if x != l.id)
    if not (ok_in and ok_out) or rebinds or moved or l.id in fixed or not _once_per_iteration(cfg, lp.id, [d.node for d in inside]):
        raise AnalysisError(f"{qual}: counting loop `while {short(t, 50)}` (unrecognised form)")
    start, bound = nf.poly(outside[0].value, sc, None), nf.poly(r, sc, None)
    n_ = bound - start if up else start - bound
    return n_ + Poly.const(1) if isinstance(t.ops[0], (ast.LtE, ast.GtE)) else n_


def _delta(s, d, name: str):
    """The number a definition adds to the old value of ``name`` (`name += 1`, `name = name - 1`, ...), None when it is not such an update."""
    inc = _increment(s, d, name)
    if inc is not None:
        return _num(strip_wrappers(inc))
    sub = None
    if d.kind == "aug" and isinstance(s.op, ast.Sub):
        sub = s.value
    elif d.kind == "assign" and isinstance(d.value, ast.BinOp) and isinstance(d.value.op, ast.Sub) and isinstance(d.value.left, ast.Name) and d.value.left.id == name:
        sub = d.value.right
    v = _num(strip_wrappers(sub)) if sub is not None else None
    return None if v is None else -v


def _current_param(fn, qual: str, recorded: str):
    """Present name of the parameter that the recorded signature of ``qual`` calls ``recorded``: that name while it exists, else the name
    now standing at its recorded position (a renamed parameter, the recorded prefix before it unchanged); None when the signature was reshaped."""
    cur = param_names(fn)
    if recorded in cur:
        return recorded
    rec = load_signatures().get(qual) or []
    if recorded in rec:
        i = rec.index(recorded)
        if i < len(cur) and cur[i] not in rec and all(cur[j] == rec[j] or cur[j] not in rec for j in range(i)):
            return cur[i]
    return None


def _same_number(text, value) -> bool:
    """The source text of a literal denotes the number ``value``."""
    try:
        return float(ast.literal_eval(str(text))) == float(value)
    except (ValueError, SyntaxError, TypeError):
        return False


def _param_source(cfg, e, at: int, depth: int = 0):
    """('param', name) when the expression hands a parameter of the routine through unchanged (value-transparent wrappers and
    single-definition copies followed), ('const', value) for a numeric literal, else None (not read)."""
    e = strip_wrappers(e)
    if isinstance(e, ast.Constant) and isinstance(e.value, (int, float)) and not isinstance(e.value, bool):
        return ("const", e.value)
    if not isinstance(e, ast.Name) or depth > 4:
        return None
    ds = cfg.defs_of(at, e.id)
    if len(ds) != 1:
        return None
    if ds[0].kind == "param":
        return ("param", e.id)
    if ds[0].kind == "assign" and ds[0].value is not None:
        return _param_source(cfg, ds[0].value, ds[0].node, depth + 1)
    return None


def _increment(s, d, name: str):
    """The expression a definition adds to the old value of ``name`` (`name += e`, `name = name + e`, `name = e + name`), or None."""
    if d.kind == "aug":
        return s.value if isinstance(s.op, ast.Add) else None
    if d.kind == "assign" and isinstance(d.value, ast.BinOp) and isinstance(d.value.op, ast.Add):
        l, r = d.value.left, d.value.right
        if isinstance(l, ast.Name) and l.id == name:
            return r
        if isinstance(r, ast.Name) and r.id == name:
            return l
    return None


def _stored_value(d):
    """The expression a plain definition stores (`x = e`, `x, y = e1, e2`), or None."""
    if d.kind == "assign":
        return d.value
    if d.kind == "unpack" and isinstance(d.value, (ast.Tuple, ast.List)) and len(d.path) == 1 and isinstance(d.path[0], int) and d.path[0] < len(d.value.elts):
        return d.value.elts[d.path[0]]
    return None


def _num(e):
    """Value of a numeric literal (also negated), else None."""
    if isinstance(e, ast.UnaryOp) and isinstance(e.op, ast.USub):
        v = _num(e.operand)
        return None if v is None else -v
    if isinstance(e, ast.Constant) and isinstance(e.value, (int, float)) and not isinstance(e.value, bool):
        return e.value
    return None


def _role_of_counter(cfg, L, name: str, body: set):
    """Classify a loop variable by its update statements inside the loop: 'steps' (old + 1 / = 0), 'return' (old + reward / = 0), else None."""
    kinds = set()
    for n in cfg.nodes:
        if n.id not in body:
            continue
        for d in n.defs:
            if d.name != name:
                continue
            inc = _increment(n.ast, d, name)
            if inc is not None:
                inc = strip_wrappers(inc)
                if _num(inc) == 1:
                    kinds.add("inc1")
                elif isinstance(inc, ast.Name) and inc.id == L.pos.get(1):
                    kinds.add("addreward")
                else:
                    kinds.add("other")
                continue
            v = _stored_value(d)
            kinds.add("zero" if v is not None and _num(v) == 0 else "other")
    if kinds == {"inc1", "zero"}:
        return "steps"
    if kinds == {"addreward", "zero"}:
        return "return"
    return None


def _depends_on(cfg, e, at: int, names: set, depth: int = 0) -> bool:
    """The expression reads one of ``names``, directly or through the definitions of the variables it reads."""
    for x in ast.walk(e):
        if isinstance(x, ast.Name):
            if x.id in names:
                return True
            if depth < 3:
                for d in cfg.defs_of(at, x.id):
                    if d.value is not None and d.node != at and _depends_on(cfg, d.value, d.node, names, depth + 1):
                        return True
    return False


def _reads_call(cfg, e, at: int, call, state_names: set, depth: int = 0) -> bool:
    """The expression depends on the result of ``call`` or reads the object the call updates in place."""
    for x in ast.walk(e):
        if x is call:
            return True
        if isinstance(x, ast.Name):
            if x.id in state_names:
                return True
            if depth < 4:
                for d in cfg.defs_of(at, x.id):
                    if d.value is not None and d.node != at and _reads_call(cfg, d.value, d.node, call, state_names, depth + 1):
                        return True
    return False


def _strip_truth(e):
    """`x is True`, `x == True`, `x is not False`, `x != False`, `bool(x)` -> x."""
    while True:
        e = strip_wrappers(e)
        if isinstance(e, ast.Compare) and len(e.ops) == 1 and isinstance(e.comparators[0], ast.Constant) and isinstance(e.comparators[0].value, bool):
            op, k = e.ops[0], e.comparators[0].value
            if (isinstance(op, (ast.Is, ast.Eq)) and k is True) or (isinstance(op, (ast.IsNot, ast.NotEq)) and k is False):
                e = e.left
                continue
        return e


def _provenance(cfg, e, at: int, call):
    """How a guard operand relates to the result of ``call``: (positions of the result its definitions hold, all other definitions are
    falsy constants?, CFG nodes of its definitions); None when the operand is not a variable / constant subscript of a variable."""
    idx = None
    if isinstance(e, ast.Subscript) and isinstance(e.value, ast.Name) and isinstance(e.slice, ast.Constant) and isinstance(e.slice.value, int):
        e, idx = e.value, e.slice.value
    if not isinstance(e, ast.Name):
        return None
    positions, plain, nodes = set(), True, set()
    for d in cfg.defs_of(at, e.id):
        nodes.add(d.node)
        if idx is None:
            pos = _origin_def(cfg, d, call)
        else:
            whole = d.kind == "assign" and (d.value is call or (isinstance(d.value, ast.Name) and whole_result(cfg, d.value.id, d.node) is call))
            pos = idx if whole else None
        if pos is not None:
            positions.add(pos)
        elif not (idx is None and isinstance(_stored_value(d), ast.Constant) and _stored_value(d).value in (False, None, 0)):
            plain = False
    return positions, plain, nodes


def _sign_for_positive(op, diff: Poly, atom: str):
    """Truth value of `diff <op> 0` for every integer value >= 1 of ``atom`` when diff == +-atom + constant; None when it depends on the value."""
    a = Poly.atom(atom)
    if (diff - a).is_const():
        c = (diff - a).const_value()
    elif (diff + a).is_const():
        c, diff = -(diff + a).const_value(), None
        op = {ast.Lt: ast.Gt, ast.Gt: ast.Lt, ast.LtE: ast.GtE, ast.GtE: ast.LtE}.get(type(op), type(op))()
    else:
        return None
    lo = 1 + c       # smallest value of atom + c; unbounded above
    if isinstance(op, ast.Gt):
        return True if lo > 0 else None
    if isinstance(op, ast.GtE):
        return True if lo >= 0 else None
    if isinstance(op, ast.Lt):
        return False if lo >= 0 else None
    if isinstance(op, ast.LtE):
        return False if lo > 0 else None
    if isinstance(op, ast.Eq):
        return False if lo > 0 else None
    if isinstance(op, ast.NotEq):
        return True if lo > 0 else None
    return None


def _trip_leaves(cfg, name: str, at: int, call, aliases: dict, depth: int = 0):
    """Definitions that decide the value of the trip variable at ``at``: plain copies of another variable (also through int()) are followed to
    the definitions of that variable.  Yields (definition, variable it defines, node where that variable is read)."""
    out = []
    aliases.setdefault(name, at)
    for d in cfg.defs_of(at, name):
        src = strip_wrappers(d.value) if d.kind == "assign" and d.value is not None else None
        if isinstance(src, ast.Name) and depth < 4 and src.id != name and result_position_def(cfg, d) is None:
            out += _trip_leaves(cfg, src.id, d.node, call, aliases, depth + 1)
        else:
            out.append((d, name, at))
    return out


def _callee_default(fn, param: str):
    """Default expression of a parameter of ``fn``, or None."""
    a = fn.args
    pos = a.posonlyargs + a.args
    d = dict(zip([x.arg for x in pos][len(pos) - len(a.defaults):], a.defaults))
    d.update({x.arg: v for x, v in zip(a.kwonlyargs, a.kw_defaults) if v is not None})
    return d.get(param)


def _assessment_application(repo, cfg, mi, n, c):
    """When the call ``c`` (in CFG node ``n``) applies the assessment function: (the application with all its arguments written out, {id(argument
    expression): node where it was evaluated earlier}); None otherwise.  Read: the direct call, and the call of a local whose one reaching
    definition is `functools.partial(assessment, *leading, **fixed)` - partial(f, a, k=v)(x, k2=w) is f(a, x, k=v, k2=w), keywords given at the
    call override the fixed ones; the leading / fixed arguments were evaluated where the partial was created."""
    if not isinstance(c.func, (ast.Name, ast.Attribute)):
        return None
    try:
        if repo.resolve_expr(mi, c.func) == AQ:
            return c, {}
    except Exception:
        return None
    if not isinstance(c.func, ast.Name):
        return None
    ds = cfg.defs_of(n.id, c.func.id)
    if len(ds) != 1 or ds[0].kind != "assign" or not isinstance(ds[0].value, ast.Call):
        return None
    pc = ds[0].value
    try:
        if not (isinstance(pc.func, (ast.Name, ast.Attribute)) and repo.resolve_expr(mi, pc.func) == "functools.partial" and pc.args
                and isinstance(pc.args[0], (ast.Name, ast.Attribute)) and repo.resolve_expr(mi, pc.args[0]) == AQ):
            return None
    except Exception:
        return None
    if any(isinstance(x, ast.Starred) for x in pc.args + c.args) or any(k.arg is None for k in pc.keywords + c.keywords):
        raise AnalysisError(f"{TQ}: the assessment is applied through a partial with star arguments (unrecognised form)")
    at_call = {k.arg for k in c.keywords}
    merged = ast.copy_location(ast.Call(func=pc.args[0], args=list(pc.args[1:]) + list(c.args), keywords=[k for k in pc.keywords if k.arg not in at_call] + list(c.keywords)), c)
    early = {id(x): ds[0].node for x in list(pc.args[1:]) + [k.value for k in pc.keywords]}
    return merged, early


def _mentions(node, name: str) -> bool:
    return any(isinstance(x, ast.Name) and x.id == name for x in ast.walk(node))


def _blocks(fn):
    """Every statement list of the routine (not those of nested function / class definitions)."""
    out = []

    def visit(stmts):
        out.append(stmts)
        for s in stmts:
            if isinstance(s, (ast.FunctionDef, ast.AsyncFunctionDef, ast.ClassDef)):
                continue
            for f_ in ("body", "orelse", "finalbody"):
                v = getattr(s, f_, None)
                if isinstance(v, list) and v and isinstance(v[0], ast.stmt):
                    visit(v)
            for h in getattr(s, "handlers", []) or []:
                visit(h.body)
            for cs in getattr(s, "cases", []) or []:
                visit(cs.body)
    visit(fn.body)
    return out


def _leaves_early(stmts, in_loop: bool = False) -> bool:
    """The statements can be left other than by falling off their end: return / try (handlers) / yield, or break / continue of a loop around them."""
    for s in stmts:
        if isinstance(s, (ast.Return, ast.Try, ast.Raise)) or any(isinstance(x, (ast.Yield, ast.YieldFrom, ast.Await)) for x in ast.walk(s)):
            return True
        if isinstance(s, (ast.Break, ast.Continue)) and not in_loop:
            return True
        if isinstance(s, (ast.For, ast.While, ast.AsyncFor)):
            if _leaves_early(s.body, True) or _leaves_early(s.orelse, in_loop):
                return True
        elif isinstance(s, (ast.FunctionDef, ast.AsyncFunctionDef, ast.ClassDef)):
            continue
        else:
            for f_ in ("body", "orelse", "finalbody"):
                v = getattr(s, f_, None)
                if isinstance(v, list) and v and isinstance(v[0], ast.stmt) and _leaves_early(v, in_loop):
                    return True
            for cs in getattr(s, "cases", []) or []:
                if _leaves_early(cs.body, in_loop):
                    return True
    return False


def _coalesce_carried(fn) -> bool:
    """`t = v` ... `v = t` in one statement list (the value a helper received and handed back, as the helper expansion writes it): when `v` is not
    mentioned between the two copies (nor elsewhere in the copy-out statement) and `t` is not mentioned outside them, `t` is `v` under another
    name: the statements in between are read with `v` for `t`, both copies disappear.  Exactly equivalent; one pair per call."""
    n_mentions = {}
    for x in ast.walk(fn):
        if isinstance(x, ast.Name):
            n_mentions[x.id] = n_mentions.get(x.id, 0) + 1
    for stmts in _blocks(fn):
        for i, s in enumerate(stmts):
            if not (isinstance(s, ast.Assign) and len(s.targets) == 1 and isinstance(s.targets[0], ast.Name) and isinstance(s.value, ast.Name) and s.targets[0].id != s.value.id):
                continue
            t, v = s.targets[0].id, s.value.id
            for j in range(i + 1, len(stmts)):
                o = stmts[j]
                pair = None
                if isinstance(o, ast.Assign) and len(o.targets) == 1:
                    tg, val = o.targets[0], o.value
                    if isinstance(tg, ast.Name) and isinstance(val, ast.Name) and (tg.id, val.id) == (v, t):
                        pair = -1
                    elif isinstance(tg, (ast.Tuple, ast.List)) and isinstance(val, (ast.Tuple, ast.List)) and len(tg.elts) == len(val.elts) \
                            and all(isinstance(e, ast.Name) for e in list(tg.elts) + list(val.elts)):
                        ks = [k for k, (a_, b_) in enumerate(zip(tg.elts, val.elts)) if (a_.id, b_.id) == (v, t)]
                        if len(ks) == 1 and len(tg.elts) >= 2:
                            pair = ks[0]
                if pair is None:
                    if _mentions(o, v):
                        break
                    continue
                between = stmts[i + 1:j]
                inside = sum(1 for b_ in between for x in ast.walk(b_) if isinstance(x, ast.Name) and x.id == t)
                in_out = sum(1 for x in ast.walk(o) if isinstance(x, ast.Name) and x.id == t)
                v_out = sum(1 for x in ast.walk(o) if isinstance(x, ast.Name) and x.id == v)
                if any(_mentions(b_, v) for b_ in between) or in_out != 1 or v_out != 1 or n_mentions.get(t, 0) != 1 + inside + in_out:
                    break
                if any(isinstance(x, (ast.FunctionDef, ast.AsyncFunctionDef, ast.Lambda, ast.ClassDef, ast.Global, ast.Nonlocal)) for b_ in between for x in ast.walk(b_)):
                    break
                if _leaves_early(between):
                    break     # a way out that skips the copy back: `v` would keep its old value there
                for b_ in between:
                    for x in ast.walk(b_):
                        if isinstance(x, ast.Name) and x.id == t:
                            x.id = v
                if pair == -1:
                    del stmts[j]
                else:
                    del o.targets[0].elts[pair]
                    del o.value.elts[pair]
                    if len(o.targets[0].elts) == 1:
                        o.targets[0], o.value = o.targets[0].elts[0], o.value.elts[0]
                del stmts[i]
                return True
    return False


def _counting_target_as_increment(fn, nf, mi) -> bool:
    """`for v in range(v + 1, b): body` (stride 1, `v` not assigned in the body): in iteration k the loop variable is old v + k, after the loop it is
    the last of these (old v when nothing ran) - what `v += 1` at the head of every iteration gives.  The range is evaluated once, before the first
    iteration, so it may keep reading the old `v`.  Read as: `for <fresh> in range(v + 1, b): v += 1; body`."""
    sc = Scope(None, mi, {}, TQ)
    for x in ast.walk(fn):
        if not (isinstance(x, ast.For) and isinstance(x.target, ast.Name) and not x.orelse):
            continue
        it, v = x.iter, x.target.id
        if not (isinstance(it, ast.Call) and dotted(it.func) == "range" and not it.keywords and len(it.args) in (2, 3) and not any(isinstance(a_, ast.Starred) for a_ in it.args)):
            continue
        try:
            if not (nf.poly(it.args[0], sc, None) - Poly.atom(v) == Poly.const(1)):
                continue
            if len(it.args) == 3 and not nf.poly(it.args[2], sc, None) == Poly.const(1):
                continue
        except AnalysisError:
            continue
        if any(isinstance(y, ast.Name) and y.id == v and isinstance(y.ctx, (ast.Store, ast.Del)) for b_ in x.body for y in ast.walk(b_)) \
                or any(isinstance(y, (ast.FunctionDef, ast.AsyncFunctionDef, ast.Lambda, ast.ClassDef)) for b_ in x.body for y in ast.walk(b_)):
            continue
        names = {y.id for y in ast.walk(fn) if isinstance(y, ast.Name)}
        k = 0
        while f"{v}__it{k}" in names:
            k += 1
        x.target = ast.copy_location(ast.Name(id=f"{v}__it{k}", ctx=ast.Store()), x.target)
        inc = ast.AugAssign(target=ast.Name(id=v, ctx=ast.Store()), op=ast.Add(), value=ast.Constant(value=1))
        ast.copy_location(inc, x.body[0] if x.body else x)
        ast.fix_missing_locations(inc)
        x.body.insert(0, inc)
        return True
    return False


def _truth_locals_unwrapped(fn) -> bool:
    """`done = bool(E)` where every read of `done` is a truth test (condition of if / while / conditional expression, operand of not / and / or
    inside one): the truth value of `bool(E)` is that of `E`; read as `done = E`."""
    truthy = set()

    def mark(e):
        truthy.add(id(e))
        if isinstance(e, ast.BoolOp):
            for v_ in e.values:
                mark(v_)
        elif isinstance(e, ast.UnaryOp) and isinstance(e.op, ast.Not):
            mark(e.operand)
    for x in ast.walk(fn):
        if isinstance(x, (ast.If, ast.While, ast.IfExp, ast.Assert)):
            mark(x.test)
    changed = False
    for x in ast.walk(fn):
        if isinstance(x, ast.Assign) and len(x.targets) == 1 and isinstance(x.targets[0], ast.Name) and isinstance(x.value, ast.Call) and dotted(x.value.func) == "bool" \
                and len(x.value.args) == 1 and not x.value.keywords and isinstance(x.value.args[0], (ast.BoolOp, ast.Compare, ast.UnaryOp, ast.Name)):
            nm = x.targets[0].id
            loads_ = [y for y in ast.walk(fn) if isinstance(y, ast.Name) and y.id == nm and isinstance(y.ctx, ast.Load)]
            stores_ = [y for y in ast.walk(fn) if isinstance(y, ast.Name) and y.id == nm and not isinstance(y.ctx, ast.Load)]
            if loads_ and len(stores_) == 1 and all(id(y) in truthy for y in loads_):
                x.value = x.value.args[0]
                changed = True
    return changed


def _loop_routine_as_read(repo, nf):
    """Copy of train_td7 in which three spellings are written as the plain forms the rules below read (each exactly equivalent, see the helpers):
    a value carried through an expanded helper (`t = v` ... `v = t`), a counting loop whose target is the counter it advances, and truth locals
    wrapped in bool().  None when the routine uses none of them (then it is read as it stands)."""
    from ..expand import clone
    fn = repo.func(TQ)
    mi = fn._module
    new = clone(fn)
    changed = False
    for _ in range(12):
        if not _coalesce_carried(new):
            break
        changed = True
    for _ in range(4):
        if not _counting_target_as_increment(new, nf, mi):
            break
        changed = True
    changed = _truth_locals_unwrapped(new) or changed
    if not changed:
        return None
    new._module = mi
    new._parent = getattr(fn, "_parent", None)
    for parent in ast.walk(new):
        for child in ast.iter_child_nodes(parent):
            child._parent = parent
    return new


def _td7_loop(ck, repo, nf, afn):
    from ..cfg import CFG
    fn_read = _loop_routine_as_read(repo, nf)
    L = find_env_loop(repo, TQ, {TQ: CFG(fn_read)} if fn_read is not None else None)
    if fn_read is not None:
        L.fn = fn_read
    cfg, mi, fn = L.cfg, L.mi, L.fn
    aparams = param_names(afn)
    S, SPE, RET, EPOCH, RW, MEWC, SBC = aparams[:7]
    # a lambda-valued local whose every use was expanded at its call is no longer referenced: the call inside its body is not an application here
    loads = {x.id for x in ast.walk(fn) if isinstance(x, ast.Name) and isinstance(x.ctx, ast.Load)}

    def dead_lambda(st):
        return isinstance(st, ast.Assign) and len(st.targets) == 1 and isinstance(st.targets[0], ast.Name) and isinstance(st.value, ast.Lambda) and st.targets[0].id not in loads
    calls = [(n, c) + m_ for n in cfg.nodes if n.ast is not None and n.kind == "stmt" and not dead_lambda(n.ast) for c in ast.walk(n.ast) if isinstance(c, ast.Call)
             for m_ in [_assessment_application(repo, cfg, mi, n, c)] if m_ is not None]
    ck.need(len(calls) == 1, f"{TQ}: expected one assessment call, found {len(calls)}")
    # c: the call in the loop (its result is what the loop consumes); c_bound: the same application with the arguments a `partial` supplied
    # earlier written out; early: id(argument expression) -> node where it was evaluated (the creation of the partial)
    n, c, c_bound, early = calls[0]
    body = cfg.loop_body_nodes(L.outer_header)
    b = bind_call(afn, c_bound)
    params_t = set(param_names(fn))
    # the documented options of train_td7, by their place in the recorded signature (a renamed parameter keeps its role)
    UC, LS = _current_param(fn, TQ, "use_checkpoints"), _current_param(fn, TQ, "learning_starts")
    uc_true = {UC: True} if UC else {}
    at_default = {p: d for q, p, d in (getattr(repo, "specialised", None) or []) if q == TQ}     # options the specialise pass replaced by their defaults
    # ---- argument roles -------------------------------------------------------------------------------------------------------
    for role in (SPE, RET, EPOCH):
        if b.get(role) is not None and id(b.get(role)) in early:
            raise AnalysisError(f"{TQ}: `{role}` of the assessment is bound when the partial application is created, not at the call (unrecognised form)")
    a_spe, a_ret, a_epoch = (strip_wrappers(x) if x is not None else None for x in (b.get(SPE), b.get(RET), b.get(EPOCH)))
    for role, arg, wantk in (("steps_per_episode", a_spe, "steps"), ("episode_return", a_ret, "return")):
        ck.need(isinstance(arg, ast.Name), f"{TQ}: {role} argument `{short(arg) if arg is not None else None}` is not a variable (unrecognised form)")
        k = _role_of_counter(cfg, L, arg.id, body)
        other = "return" if wantk == "steps" else "steps"
        if k is None:
            raise AnalysisError(f"{TQ}: cannot classify `{arg.id}` (passed as {role}) by its updates (unrecognised form)")
        ck.ob("R5-release-loop", TQ, f"argument:{role}", k == wantk, f"{role} <- `{arg.id}` ({k} counter)", "" if k == wantk else f"the {other} counter is passed as {role}: window steps / returns are mixed up", loc(mi, c))
    ck.need(isinstance(a_epoch, ast.Name), f"{TQ}: epoch argument is not a variable (unrecognised form)")
    epoch_var = a_epoch.id
    # the three configured quantities: the argument must be the option of train_td7 documented for that role, handed through unchanged; another
    # option of the routine or a literal in its place is a different configuration (violation), anything else is not read
    documented = {RW: "reset_weight", MEWC: "max_episodes_when_checkpointing", SBC: "steps_before_checkpointing"}
    for role in (RW, MEWC, SBC):
        arg = b.get(role)
        want_p = _current_param(fn, TQ, documented[role])
        src = _param_source(cfg, arg, early.get(id(arg), n.id)) if arg is not None else None
        if arg is None and role not in b:
            # not passed at all: the assessment runs with the default its own signature gives that parameter
            dflt = _callee_default(afn, role)
            if isinstance(dflt, ast.Constant) and isinstance(dflt.value, (int, float)) and not isinstance(dflt.value, bool):
                arg, src = ast.Name(id=f"<not passed: default {dflt.value!r} of the assessment>", ctx=ast.Load()), ("const", dflt.value)
        if src is not None and src[0] == "const":
            # an option that was added / renamed after the signatures were recorded is read at its default (specialise pass): the literal is that option
            same = [p for p, d in at_default.items() if _same_number(d, src[1])]
            if same == [want_p]:
                src = ("param", want_p)
            elif same:
                raise AnalysisError(f"{TQ}: the literal `{short(arg)}` passed for `{role}` is the default of the option(s) {same}, which are read at their defaults (unrecognised form)")
        if arg is None or src is None or want_p is None:
            raise AnalysisError(f"{TQ}: argument `{short(arg) if arg is not None else None}` for `{role}` of the assessment cannot be traced to an option of the routine (unrecognised form)")
        ok = src == ("param", want_p)
        ck.ob("R5-release-loop", TQ, f"argument:{documented[role]}", ok, f"{role} <- `{short(arg)}` ({'option `' + src[1] + '`' if src[0] == 'param' else 'literal ' + repr(src[1])})",
              "" if ok else f"the configured `{want_p}` must be passed through", loc(mi, c))
    st_arg = b.get(S)
    ck.need(isinstance(st_arg, ast.Name), f"{TQ}: window state argument `{short(st_arg) if st_arg is not None else None}` is not a variable (unrecognised form)")
    st_defs = cfg.defs_of(early.get(id(st_arg), n.id), st_arg.id)
    ck.need(len(st_defs) >= 1, f"{TQ}: no definition of the window state `{st_arg.id}` reaches the assessment (unrecognised form)")
    st_in = [d for d in st_defs if d.node in body]
    # evidence of a forgotten window: a definition inside the loop that constructs a fresh state; any other rebinding is not read
    state_cls = "rl_blox.blox.checkpointing.CheckpointState"
    if st_in and not all(d.kind == "assign" and isinstance(d.value, ast.Call) and isinstance(d.value.func, (ast.Name, ast.Attribute)) and repo.resolve_expr(mi, d.value.func) == state_cls for d in st_in):
        raise AnalysisError(f"{TQ}: `{short(cfg.nodes[st_in[0].node].ast, 60)}` rebinds the window state inside the loop (unrecognised form)")
    ck.ob("R5-release-loop", TQ, "argument:state", not st_in, f"state <- `{short(st_arg)}` ({len(st_defs)} definition(s), {len(st_in)} inside the loop)",
          "" if not st_in else f"`{short(cfg.nodes[st_in[0].node].ast, 60)}` inside the loop reaches the assessment: the window state must be one object that lives across iterations (re-creating it forgets the collected steps)", loc(mi, c))
    # ---- result positions ---------------------------------------------------------------------------------------------------
    ck.need(isinstance(n.ast, ast.Assign) and n.ast.value is c, f"{TQ}: the assessment result is not assigned (unrecognised form)")
    # ---- the assessment runs exactly at episode ends in checkpoint mode ----------------------------------
    tv, uv = L.pos.get(2), L.pos.get(3)
    ck.need(tv and uv, f"{TQ}: terminated / truncated are discarded")
    for x, y in ((True, False), (False, True), (True, True), (False, False)):
        assume = {tv: x, uv: y, **uc_true}
        p = cfg.paths_avoiding(L.step_node, n.id, {L.step_node}, assume=assume)
        want_reach = x or y
        ok = (p is not None) == want_reach
        if p is not None and not want_reach:
            # the witness counts only when every test on it that reads the episode-end flags was decided (an unread test is followed on both arms)
            for q in p[:-1]:
                qn = cfg.nodes[q]
                if qn.kind == "test" and hasattr(qn.ast, "test") and cfg.eval3(qn.ast.test, dict(assume), q) is None and _depends_on(cfg, qn.ast.test, q, {tv, uv}):
                    raise AnalysisError(f"{TQ}: the test `{short(qn.ast.test, 60)}` on the way to the assessment reads the episode-end flags in a form that is not evaluated (unrecognised form)")
        ck.ob("R5-release-loop", TQ, f"assessment-at-episode-end:{x},{y}", ok, f"terminated={x}, truncated={y}: assessment {'reachable' if p is not None else 'not reachable'}",
              "" if ok else ("episode ends of this kind are not assessed: their steps are never released" if want_reach else "the assessment also runs inside an episode: the episode is counted several times"), loc(mi, c),
              cfg.describe_path(p) if (p is not None and not want_reach) else None)
    lits = guard_literals(nf, cfg, mi, n.id)
    extras = []
    for g in lits:
        names_g = set(_names_in(g))
        if names_g <= {tv, uv}:
            continue
        if UC is not None and g == UC:
            continue
        if LS is not None and LS in names_g and g.startswith(("Lt(", "LtE(")):
            continue      # warm-up gate (C11 decides it)
        if LS is not None and LS in at_default and g.startswith(("Lt(", "LtE(")) and _same_number(at_default[LS], _split2(g[g.index("(") + 1:-1])[0]):
            continue      # the same gate with the (renamed) option read at its default
        extras.append(g)
    definite = [g for g in extras if g.startswith("IsNot(") and (set(_names_in(g)) - {"None"}) <= params_t]
    if extras and not definite:
        raise AnalysisError(f"{TQ}: the assessment is additionally conditioned on {extras} (cannot decide whether episode ends are skipped)")
    ck.ob("R5-release-loop", TQ, "assessment-guard", not definite, f"called under {lits}", "" if not definite else f"the assessment is additionally conditioned on {definite}: with that option unset the episode ends are not assessed and their steps never released", loc(mi, c))
    # ---- release loop --------------------------------------------------------------------------------------------------------------
    ts_nodes = [m for m in cfg.nodes if m.ast is not None and m.kind == "stmt" for x in ast.walk(m.ast)
                if isinstance(x, ast.Call) and isinstance(x.func, (ast.Name, ast.Attribute)) and repo.resolve_expr(mi, x.func) == "rl_blox.algorithm.td7._train_step"]
    ck.need(len(ts_nodes) >= 1, f"{TQ}: no call of _train_step (anchor vanished)")
    loops_of = {tuple(l for l in cfg.enclosing_loops(m.id) if l != L.outer_header and l in body) for m in ts_nodes}
    ck.need(len(loops_of) == 1 and len(next(iter(loops_of))) == 1, f"{TQ}: the training step is not inside exactly one release loop (unrecognised form)")
    lp = cfg.nodes[next(iter(loops_of))[0]]
    trip = _trip_count(cfg, nf, mi, lp, TQ)
    hdr_txt = f"for ... in {ast.unparse(lp.ast.iter)}" if lp.kind == "for" else f"while {ast.unparse(lp.ast.test)}"
    tvar = trip.single_atom()
    if tvar is None or not tvar.isidentifier():
        ok_trip = False
        # a violation needs a trip count that is read completely: a polynomial of plain variables other than one variable itself
        if not (trip.atoms() and all(x.isidentifier() for x in trip.atoms())):
            raise AnalysisError(f"{TQ}: trip count `{trip.canon()[:60]}` of the release loop not understood (unrecognised form)")
    else:
        ok_trip = True
    ck.ob("R5-release-loop", TQ, "trip-count", ok_trip, f"{hdr_txt}: {trip.canon()} iterations", "" if ok_trip else "the release loop must run exactly as many times as the assessment released", loc(mi, lp.ast))
    if ok_trip:
        # every definition that decides the trip variable at the loop: position 1 of this step's assessment, or a default that is 0 in checkpoint mode
        n_def = n_res = 0
        aliases: dict = {}
        for d, dname, read_at in _trip_leaves(cfg, tvar, lp.id, c, aliases):
            pos = _origin_def(cfg, d, c)
            d_ast = cfg.nodes[d.node].ast
            if pos is not None:
                n_res += 1
                ck.ob("R5-release-loop", TQ, "trip-from-result", pos == 1, f"`{dname}` holds position {pos} of the assessment result", "" if pos == 1 else "the release loop is driven by the checkpoint flag, not by the number of released steps", loc(mi, d_ast))
                continue
            dl = [(t, v) for bnode, lab in cfg.control_deps(d.node) if cfg.nodes[bnode].kind == "test" and isinstance(cfg.nodes[bnode].ast, ast.If) for t, v in cfg._lits(cfg.nodes[bnode].ast.test, lab, bnode)]
            if UC is not None and (UC, False) in dl:
                continue  # plain mode: outside this property
            sv = _stored_value(d)
            val = _const_under(cfg, sv, uc_true, d.node) if sv is not None else None
            if val is None:
                raise AnalysisError(f"{TQ}: `{short(d_ast, 60)}` - cannot evaluate the number of released steps in checkpoint mode (unrecognised idiom)")
            witness = None
            if val != 0:
                # a non-zero default releases steps only if it survives until the loop in checkpoint mode (`n = 1` / `if use_checkpoints: n = 0` does not)
                others = {o.node for o in cfg.defs_of(read_at, dname)} - {d.node}
                witness = cfg.paths_avoiding(d.node, read_at, others, assume=uc_true)
                if witness is None:
                    continue
            n_def += 1
            # a constant that is assigned *after* this step's assessment and still reaches the loop replaces what the assessment released
            # (the window's counters were already reset by the assessment: those iterations are lost)
            after = cfg.paths_avoiding(n.id, d.node, {lp.id, L.step_node})
            onward = cfg.paths_avoiding(d.node, lp.id, {n.id, L.step_node}) if after is not None else None
            if after is not None and onward is not None:
                ck.ob("R5-release-loop", TQ, f"release-not-overwritten:{short(d_ast, 40)}", False, f"`{short(d_ast, 60)}` lies between the assessment and the release loop",
                      "the number of iterations released by the assessment is overwritten before the release loop runs: the assessment has already reset the window counters, so the collected steps are never trained on",
                      loc(mi, d_ast), cfg.describe_path(after + onward[1:]))
                continue
            ck.ob("R5-release-loop", TQ, f"default-release:{short(d_ast, 40)}", val == 0, f"`{short(d_ast, 60)}` = {val} when use_checkpoints", "" if val == 0 else "in checkpoint mode only the assessment may release training iterations: this default releases steps that the window will release again", loc(mi, d_ast),
                  cfg.describe_path(witness) if witness else None)
        ck.ob("R5-release-loop", TQ, "trip-from-result", n_res >= 1, f"{n_res} definition(s) of `{tvar}` come from the assessment", "" if n_res else "every definition of the trip count that reaches the release loop in checkpoint mode is a constant: the assessment's released step count never reaches the loop", loc(mi, lp.ast))
        # a step without an assessment needs a value of its own, unless the loop is only ever reached through the assessment
        no_default = n_def == 0 and not cfg.dominates(n.id, lp.id)
        ck.ob("R5-release-loop", TQ, "default-release", not no_default, f"{n_def} default definition(s) of {tvar} reach the release loop in checkpoint mode" + ("" if n_def else " (the loop is only reached through the assessment)"),
              "" if not no_default else "the release loop is reached without an assessment, but only the assessment defines its trip count: the previous trip count would be reused", loc(mi, lp.ast))
        # the loop is reached from the assessment without the trip variable being rebound (checked by the reaching definitions above) and on every
        # path along which steps were released: a branch that skips the loop only when the trip count is not positive skips nothing
        rd = cfg.reaching()
        sc0 = Scope(None, mi, {}, TQ)

        def released_facts(x):
            xn, facts = cfg.nodes[x], {}
            if not (xn.kind == "test" and hasattr(xn.ast, "test")):
                return facts
            for e in ast.walk(xn.ast.test):
                for nm, read_at in aliases.items():
                    if rd[x].get(nm) != rd[read_at].get(nm):
                        continue
                    if isinstance(e, ast.Name) and e.id == nm:
                        facts[nm] = True
                    elif isinstance(e, ast.Compare) and len(e.ops) == 1 and any(isinstance(y, ast.Name) and y.id == nm for y in ast.walk(e)):
                        try:
                            v = _sign_for_positive(e.ops[0], nf.poly(e.left, sc0, None) - nf.poly(e.comparators[0], sc0, None), nm)
                        except AnalysisError:
                            v = None
                        if v is not None:
                            facts[ast.unparse(e)] = v
            return facts
        skip = cfg.paths_avoiding(n.id, L.step_node, {lp.id}, at_node=released_facts) or cfg.paths_avoiding(n.id, cfg.exit, {lp.id, L.step_node}, at_node=released_facts)
        if skip is not None:
            # leaving through the episode limit / end of the run is not a skipped release only if nothing was released: cannot be decided structurally
            ck.ob("R5-release-loop", TQ, "release-not-skipped", False, "a path from the assessment to the next step / the exit avoids the release loop", "released training iterations are dropped on this path", loc(mi, lp.ast), cfg.describe_path(skip))
        else:
            ck.ob("R5-release-loop", TQ, "release-not-skipped", True, "every path from the assessment with released steps reaches the release loop", "", loc(mi, lp.ast))
    # one epoch increment and one training step per iteration
    lbody = cfg.loop_body_nodes(lp.id)

    def amount(m):
        """What the statement adds to the epoch counter: a number, or None (not an update by a literal)."""
        return _delta(m.ast, next(d for d in m.defs if d.name == epoch_var), epoch_var)
    incs = [m for m in cfg.nodes if m.id in lbody for d in m.defs if d.name == epoch_var]
    other_incs = [m for m in cfg.nodes if m.id in body and m.id not in lbody for d in m.defs if d.name == epoch_var]
    for m in incs + other_incs:
        if amount(m) is None:
            raise AnalysisError(f"{TQ}: `{short(m.ast, 50)}` - update of the epoch counter not understood (unrecognised form)")
    if not incs and other_incs:
        raise AnalysisError(f"{TQ}: the epoch counter `{epoch_var}` is advanced by `{short(other_incs[0].ast, 50)}` outside the release loop and not inside it (unrecognised form)")
    once = bool(incs) and all(amount(m) == 1 for m in incs) and _once_per_iteration(cfg, lp.id, [m.id for m in incs])
    ck.ob("R5-release-loop", TQ, "one-epoch-per-iteration", once, f"{[ast.unparse(m.ast) for m in incs]}" if incs else f"`{epoch_var}` is not written anywhere in the main loop",
          "" if once else "each released training iteration must advance the epoch counter exactly once (the window switch compares it with the threshold)", loc(mi, lp.ast))
    once_t = _once_per_iteration(cfg, lp.id, [m.id for m in ts_nodes])
    ck.ob("R5-release-loop", TQ, "one-train-step-per-iteration", once_t, f"{len(ts_nodes)} _train_step call(s) in the loop body", "" if once_t else "each iteration must perform exactly one training step", loc(mi, lp.ast))
    # epoch increments elsewhere in the loop would shift the window switch
    shifting = [m for m in other_incs if amount(m) != 0]
    ck.ob("R5-release-loop", TQ, "epoch-only-in-release-loop", not shifting, f"{len(shifting)} other update(s) of `{epoch_var}` in the main loop" + (f": `{short(shifting[0].ast, 40)}`" if shifting else ""), "" if not shifting else "the epoch counter counts training iterations only", loc(mi, lp.ast))
    # ---- checkpoint copy -------------------------------------------------------------------------------------------------------------
    from .c06 import _helper_calls
    from ..resolve import Resolver
    res = Resolver(repo)
    hcalls = _helper_calls(repo, res, fn, cfg)
    ck.need(len(hcalls) >= 1, f"{TQ}: checkpoint copy not found (anchor vanished)")
    tsq = "rl_blox.algorithm.td7._train_step"
    tsfn = repo.func(tsq)
    tcall = next(x for m in ts_nodes[:1] for x in ast.walk(m.ast) if isinstance(x, ast.Call) and isinstance(x.func, (ast.Name, ast.Attribute)) and repo.resolve_expr(mi, x.func) == tsq)
    pol_p = _current_param(tsfn, tsq, "policy")
    trained = bind_call(tsfn, tcall).get(pol_p) if pol_p is not None else None
    # the checkpoint copy is the hard copy whose source is the trained policy as a whole (other target updates of the loop are C06's)
    cps = [h for h in hcalls if trained is not None and ast.dump(h[3][0]) == ast.dump(trained)]
    if not cps:
        raise AnalysisError(f"{TQ}: no copy of the trained policy `{short(trained) if trained is not None else None}` found among the target updates (unrecognised form)")
    for hn, hc, hkind, (oe, te), hkey in cps:
        gl = []
        for bnode, lab in cfg.control_deps(hn):
            bn = cfg.nodes[bnode]
            if bn.kind == "test" and isinstance(bn.ast, ast.If):
                gl += [(t, v, bnode) for t, v in cfg._lits(bn.ast.test, lab, bnode)]
        # every guard literal is read by the provenance of its operand: position 0 of this step's assessment (the flag), another position, data that
        # has nothing to do with the assessment, or something that is not read
        flag_ok, evidence, witness, unread = False, "", None, []
        for t, v, bnode in gl:
            try:
                e = _strip_truth(ast.parse(t, mode="eval").body)
            except SyntaxError:
                unread.append(t)
                continue
            pv = _provenance(cfg, e, bnode, c)
            if pv is None or (not pv[0] and not pv[1]):
                if _reads_call(cfg, e, bnode, c, {st_arg.id}):
                    unread.append(t)
                continue
            positions, plain, dnodes = pv
            if not positions:
                continue      # constants only
            if not plain:
                unread.append(t)
            elif positions == {0} and v:
                # the value read is this step's: no way from the loop header to the test that avoids every definition of the variable
                stale = cfg.paths_avoiding(L.outer_header, bnode, dnodes)
                if stale is None:
                    flag_ok = True
                elif not evidence:
                    evidence, witness = f"the flag `{t}` read at the copy is not only the result of this step's assessment: a stale True from an earlier window overwrites the checkpoint with an unassessed policy", stale
            elif 0 not in positions or not v:
                evidence = evidence or f"the copy is conditioned on `{'' if v else 'not '}{t}`, which holds position {sorted(positions)} of the assessment result"
            else:
                unread.append(t)
        if not flag_ok and not evidence:
            if unread:
                raise AnalysisError(f"{TQ}: the guard `{unread[0][:60]}` of the checkpoint copy cannot be related to the result of the assessment (unrecognised form)")
            evidence = "none of the conditions of the copy depends on the result of the assessment"
        why = "" if flag_ok else f"the checkpoint must be overwritten only when the assessment of this step returned the flag (position 0 of its result): {evidence}"
        ck.ob("R5-release-loop", TQ, "checkpoint-copy-guard", flag_ok, f"`{short(hc)}` under {[t if v else 'not ' + t for t, v, _ in gl]}", why, loc(mi, hc), cfg.describe_path(witness) if (witness and not flag_ok) else None)
        src_ok = trained is not None and ast.dump(oe) == ast.dump(trained)
        if not src_ok and not (isinstance(oe, ast.Name) and isinstance(trained, ast.Name)):
            raise AnalysisError(f"{TQ}: source of the checkpoint copy `{short(oe)}` not comparable with the trained policy")
        ck.ob("R5-release-loop", TQ, "checkpoint-copy-source", src_ok, f"copy source `{short(oe)}`, trained policy `{short(trained) if trained is not None else None}`", "" if src_ok else "the checkpoint must receive the policy that was just assessed", loc(mi, hc))


def _names_in(canon: str):
    import re
    return [x for x in re.findall(r"[A-Za-z_][A-Za-z_0-9]*", canon) if x not in ("Lt", "LtE", "Eq", "NotEq", "Is", "IsNot", "and", "or", "not", "mod")]


def _once_per_iteration(cfg, header: int, ids) -> bool:
    """Exactly one of ``ids`` runs in every iteration of the loop ``header`` (every header -> header path passes exactly one)."""
    ids = set(ids)
    if not ids:
        return False
    # some iteration avoids all of them
    if cfg.paths_avoiding(header, header, ids, first_label=True) is not None:
        return False
    for a in ids:
        if cfg.enclosing_loops(a)[0] != header:
            return False      # inside a nested loop: several per iteration
        for b2 in ids:
            if cfg.paths_avoiding(a, b2, {header}) is not None:
                return False  # two of them in one iteration
    return True


def run(ck, repo: Repo, tier: str):
    nf = NF(repo, inline_depth=2)
    afn = None

    afn = ck.guard(_assess_table, ck, repo, nf) or repo.func(AQ)
    ck.guard(_td7_loop, ck, repo, nf, afn)


_C, _T = "rl_blox/blox/checkpointing.py", "rl_blox/algorithm/td7.py"
_ASSESS_CALL = '                update_checkpoint, training_steps = (\n                    assess_performance_and_checkpoint(\n                        checkpoint_state,\n                        steps_per_episode,\n                        accumulated_reward,\n                        epoch,\n                        reset_weight,\n                        max_episodes_when_checkpointing,\n                        steps_before_checkpointing,\n                    )\n                )\n'
# a decomposition of the assessment into methods / a property of the window-state class (used by the overlays below)
_STATE_METHODS = (
    ("import dataclasses\n", "import dataclasses\nimport typing\n"),
    ('    """Best minimum return observed for any previous actor."""\n',
     '    """Best minimum return observed for any previous actor."""\n\n'
     '    def fold(self, n_steps: int, ret: float) -> None:\n        self.episodes_since_udpate = self.episodes_since_udpate + 1\n        self.timesteps_since_upate = self.timesteps_since_upate + n_steps\n'
     '        if ret < self.min_return:\n            self.min_return = ret\n\n'
     '    @property\n    def below_best(self) -> bool:\n        return self.best_min_return > self.min_return\n\n'
     '    def rearm(self) -> None:\n        self.min_return = 1e8\n        self.timesteps_since_upate = 0\n        self.episodes_since_udpate = 0\n'),
    ("    checkpoint_state.episodes_since_udpate += 1\n    checkpoint_state.timesteps_since_upate += steps_per_episode\n    checkpoint_state.min_return = min(\n        checkpoint_state.min_return, episode_return\n    )\n",
     "    checkpoint_state.fold(steps_per_episode, episode_return)\n"),
    ("        # Reset checkpoint monitoring.\n        checkpoint_state.episodes_since_udpate = 0\n        checkpoint_state.timesteps_since_upate = 0\n        checkpoint_state.min_return = 1e8\n",
     "        checkpoint_state.rearm()\n"),
    ("    if checkpoint_state.min_return < checkpoint_state.best_min_return:", "    if checkpoint_state.below_best:"),
)
# a record type for the assessment's result, a helper of train_td7 that carries the epoch counter, a counting loop over the epoch counter itself (used by the overlays below)
_RECORD = ("import dataclasses\n", "import dataclasses\nimport typing\n\n\nclass Verdict(typing.NamedTuple):\n    replace_checkpoint: bool = False\n    n_release: int = 0\n")
_TICK_DEF = ("    checkpoint_state = CheckpointState()\n", "    checkpoint_state = CheckpointState()\n\n    def _tick(count, rng_key):\n        count += 1\n        rng_key, sub_key = jax.random.split(rng_key, 2)\n        return count, rng_key, sub_key\n")
_TICK_OLD = "                epoch += 1\n                key, sampling_key = jax.random.split(key, 2)\n"
_FOR_OLD = "            for delayed_train_step_idx in range(1, training_steps + 1):\n                epoch += 1\n"
_LOGSTEP_OLD = "                        step + 1 - training_steps + delayed_train_step_idx\n"
_EP_END_OLD = "            if (termination or truncated) and use_checkpoints:"
_GUARD_CLAUSE = ("    update_checkpoint = False\n    training_steps = 0\n\n    if checkpoint_state.min_return < checkpoint_state.best_min_return:",
                 "    update_checkpoint = False\n    training_steps = 0\n\n    if (checkpoint_state.min_return >= checkpoint_state.best_min_return\n            and checkpoint_state.episodes_since_udpate < checkpoint_state.max_episodes_before_update):\n        return False, 0\n"
                 "    if checkpoint_state.min_return < checkpoint_state.best_min_return:")
MUTANTS = [
    {"id": "c15-td7-release-overwritten-after-assessment", "file": "rl_blox/algorithm/td7.py", "rule": "R5", "find": '            if logger is not None and training_steps > 0:\n', "replace": '            if epoch < 0:\n                training_steps = 0\n            if logger is not None and training_steps > 0:\n'},
    {"id": "c15-branchy-max", "file": _C, "rule": "R", "find": "    checkpoint_state.min_return = min(\n        checkpoint_state.min_return, episode_return\n    )", "replace": "    if episode_return > checkpoint_state.min_return:\n        checkpoint_state.min_return = episode_return"},
    {"id": "c15-td7-result-swapped", "file": _T, "rule": "R5", "find": "                update_checkpoint, training_steps = (\n                    assess_performance_and_checkpoint(", "replace": "                training_steps, update_checkpoint = (\n                    assess_performance_and_checkpoint("},
    {"id": "c15-td7-while-off-by-one", "file": _T, "rule": "R5", "edits": [("            for delayed_train_step_idx in range(1, training_steps + 1):\n                epoch += 1\n", "            delayed_train_step_idx = 1\n            while delayed_train_step_idx < training_steps:\n                delayed_train_step_idx += 1\n                epoch += 1\n")]},
    {"id": "c15-switch-by-flag", "file": _C, "rule": "R", "find": "            epoch\n            < steps_before_checkpointing\n            <= epoch + checkpoint_state.timesteps_since_upate\n", "replace": "            checkpoint_state.max_episodes_before_update != max_episodes_when_checkpointing\n            and epoch + training_steps >= steps_before_checkpointing\n"},
    {"id": "c15-td7-return-steps-swapped", "file": _T, "rule": "R5", "find": "                        steps_per_episode,\n                        accumulated_reward,\n                        epoch,", "replace": "                        accumulated_reward,\n                        steps_per_episode,\n                        epoch,"},
    {"id": "c15-switch-condition-ge-only", "file": _C, "rule": "R4", "find": "            epoch\n            < steps_before_checkpointing\n            <= epoch + checkpoint_state.timesteps_since_upate\n", "replace": "            steps_before_checkpointing\n            <= epoch + checkpoint_state.timesteps_since_upate\n"},
    {"id": "c15-td7-stale-flag", "file": _T, "rule": "R5", "edits": [("    checkpoint_state = CheckpointState()\n", "    checkpoint_state = CheckpointState()\n    update_checkpoint = False\n"),
        ("                if update_checkpoint:\n                    hard_target_net_update(policy, checkpoint)\n                    epochs = {\n                        \"actor_checkpoint\": checkpoint.actor,\n                        \"fixed_embedding_checkpoint\": checkpoint.embedding,\n                    }\n                    if logger is not None:\n                        for k, v in epochs.items():\n                            logger.record_epoch(k, v, step=step + 1)\n                if logger is not None:\n                    for k, v in checkpoint_state.__dict__.items():\n                        logger.record_stat(k, v, step=step + 1)\n",
         "                if logger is not None:\n                    for k, v in checkpoint_state.__dict__.items():\n                        logger.record_stat(k, v, step=step + 1)\n\n            if update_checkpoint:\n                hard_target_net_update(policy, checkpoint)\n")]},
    {"id": "c15-release-minus-one", "file": _C, "rule": "R1", "nth": 0, "find": "        training_steps = checkpoint_state.timesteps_since_upate\n", "replace": "        training_steps = checkpoint_state.timesteps_since_upate - 1\n"},
    {"id": "c15-release-episode-steps", "file": _C, "rule": "R1", "nth": 1, "find": "        training_steps = checkpoint_state.timesteps_since_upate\n", "replace": "        training_steps = steps_per_episode\n"},
    {"id": "c15-counter-not-reset", "file": _C, "rule": "R2", "find": "        checkpoint_state.timesteps_since_upate = 0\n", "replace": ""},
    {"id": "c15-min-not-reset", "file": _C, "rule": "R2", "find": "        checkpoint_state.min_return = 1e8\n", "replace": ""},
    {"id": "c15-flag-in-cut", "file": _C, "rule": "R3", "find": "        # checkpoint. End evaluation of current actor early.\n        training_steps", "replace": "        # checkpoint. End evaluation of current actor early.\n        update_checkpoint = True\n        training_steps"},
    {"id": "c15-cut-le", "file": _C, "rule": "R", "find": "    if checkpoint_state.min_return < checkpoint_state.best_min_return:", "replace": "    if checkpoint_state.min_return <= checkpoint_state.best_min_return:", "accept_error": True},
    {"id": "c15-best-not-recorded", "file": _C, "rule": "R3", "find": "        checkpoint_state.best_min_return = checkpoint_state.min_return\n", "replace": ""},
    {"id": "c15-min-is-last", "file": _C, "rule": "R", "find": "    checkpoint_state.min_return = min(\n        checkpoint_state.min_return, episode_return\n    )", "replace": "    checkpoint_state.min_return = episode_return"},
    {"id": "c15-switch-after-reset", "file": _C, "rule": "R4", "edits": [("        # Reset checkpoint monitoring.\n        checkpoint_state.episodes_since_udpate = 0\n        checkpoint_state.timesteps_since_upate = 0\n        checkpoint_state.min_return = 1e8\n", ""),
        ("    if training_steps > 0:\n        # Switch to full checkpointing.\n", "    if training_steps > 0:\n        checkpoint_state.episodes_since_udpate = 0\n        checkpoint_state.timesteps_since_upate = 0\n        checkpoint_state.min_return = 1e8\n")]},
    {"id": "c15-no-reset", "file": _C, "rule": "R2", "find": "        # Reset checkpoint monitoring.\n        checkpoint_state.episodes_since_udpate = 0\n        checkpoint_state.timesteps_since_upate = 0\n        checkpoint_state.min_return = 1e8\n",
     "replace": ""},
    {"id": "c15-switch-outside-release", "file": _C, "rule": "R4", "find": "    if training_steps > 0:\n        # Switch to full checkpointing.\n        if (", "replace": "    if True:\n        # Switch to full checkpointing.\n        if (", "accept_error": True},
    {"id": "c15-td7-range-off", "file": _T, "rule": "R5", "find": "            for delayed_train_step_idx in range(1, training_steps + 1):", "replace": "            for delayed_train_step_idx in range(1, training_steps):"},
    {"id": "c15-td7-epoch-twice", "file": _T, "rule": "R5", "find": "                epoch += 1\n                key, sampling_key = jax.random.split(key, 2)\n                metrics, epochs = _train_step(", "replace": "                epoch += 1\n                key, sampling_key = jax.random.split(key, 2)\n                if termination:\n                    epoch += 1\n                metrics, epochs = _train_step("},
    {"id": "c15-td7-assess-on-termination-only", "file": _T, "rule": "R5", "find": "            if (termination or truncated) and use_checkpoints:", "replace": "            if termination and use_checkpoints:"},
    {"id": "c15-td7-checkpoint-unguarded", "file": _T, "rule": "R5", "find": "                if update_checkpoint:\n                    hard_target_net_update(policy, checkpoint)", "replace": "                if training_steps:\n                    hard_target_net_update(policy, checkpoint)"},
    {"id": "c15-td7-return-for-length", "file": _T, "rule": "R5", "find": "                        steps_per_episode,\n                        accumulated_reward,\n                        epoch,", "replace": "                        accumulated_reward,\n                        steps_per_episode,\n                        epoch,"},
    {"id": "c15-td7-config-swapped", "file": _T, "rule": "R5", "find": "                        max_episodes_when_checkpointing,\n                        steps_before_checkpointing,\n                    )\n                )\n", "replace": "                        steps_before_checkpointing,\n                        max_episodes_when_checkpointing,\n                    )\n                )\n"},
    {"id": "c15-td7-state-recreated", "file": _T, "rule": "R5", "find": "            if (termination or truncated) and use_checkpoints:\n", "replace": "            if (termination or truncated) and use_checkpoints:\n                checkpoint_state = CheckpointState()\n"},
    {"id": "c15-td7-epoch-per-env-step", "file": _T, "rule": "R5", "find": "        steps_per_episode += 1\n", "replace": "        steps_per_episode += 1\n        epoch += 1\n"},
    {"id": "c15-td7-default-one", "file": _T, "rule": "R5", "find": "            training_steps = 0 if use_checkpoints else 1\n", "replace": "            training_steps = 1\n"},
    {"id": "c15-td7-no-default", "file": _T, "rule": "R5", "find": "            training_steps = 0 if use_checkpoints else 1\n", "replace": ""},
    {"id": "c15-td7-release-skipped-for-one", "file": _T, "rule": "R5", "find": "            for delayed_train_step_idx in range(1, training_steps + 1):\n", "replace": "            if training_steps > 1:\n              for delayed_train_step_idx in range(1, training_steps + 1):\n"},
    {"id": "c15-td7-flag-inverted", "file": _T, "rule": "R5", "find": "                if update_checkpoint:\n                    hard_target_net_update(policy, checkpoint)", "replace": "                if not update_checkpoint:\n                    hard_target_net_update(policy, checkpoint)"},
    {"id": "c15-td7-copy-unconditional", "file": _T, "rule": "R5", "find": "                if update_checkpoint:\n                    hard_target_net_update(policy, checkpoint)", "replace": "                if True:\n                    hard_target_net_update(policy, checkpoint)"},
    {"id": "c15-td7-countdown-off", "file": _T, "rule": "R5", "find": "            for delayed_train_step_idx in range(1, training_steps + 1):", "replace": "            for delayed_train_step_idx in range(training_steps, 1, -1):"},
    {"id": "c15-td7-assess-every-step", "file": _T, "rule": "R5", "find": "            if (termination or truncated) and use_checkpoints:", "replace": "            if use_checkpoints:"},
    # --- function spellings of comparisons, NaN guards, boolean locals in tuple assignments, stages moved into methods of the state class ---
    {"id": "c15-operator-le-cut", "file": _C, "rule": "R", "edits": [("import dataclasses\n", "import dataclasses\nimport operator as op\n"),
        ("    if checkpoint_state.min_return < checkpoint_state.best_min_return:", "    if op.le(checkpoint_state.min_return, checkpoint_state.best_min_return):")]},
    {"id": "c15-operator-ne-window", "file": _C, "rule": "R", "edits": [("import dataclasses\n", "import dataclasses\nfrom operator import ne\n"),
        ("    elif (\n        checkpoint_state.episodes_since_udpate\n        == checkpoint_state.max_episodes_before_update\n    ):", "    elif ne(checkpoint_state.episodes_since_udpate, checkpoint_state.max_episodes_before_update):")]},
    {"id": "c15-nan-guard-cuts-ties", "file": _C, "rule": "R", "edits": [("import dataclasses\n", "import dataclasses\nimport math\n"),
        ("    if checkpoint_state.min_return < checkpoint_state.best_min_return:", "    if math.isnan(episode_return) or not (checkpoint_state.min_return > checkpoint_state.best_min_return):")]},
    {"id": "c15-nan-flag-local-cuts-ties", "file": _C, "rule": "R", "edits": [("import dataclasses\n", "import dataclasses\nfrom math import isnan\n"),
        ("    if checkpoint_state.min_return < checkpoint_state.best_min_return:", "    broken = isnan(episode_return)\n    if broken or checkpoint_state.min_return <= checkpoint_state.best_min_return:")]},
    {"id": "c15-tuple-flags-le", "file": _C, "rule": "R", "edits": [("    update_checkpoint = False\n    training_steps = 0\n", "    stop_early, update_checkpoint, training_steps = (checkpoint_state.min_return <= checkpoint_state.best_min_return), False, 0\n"),
        ("    if checkpoint_state.min_return < checkpoint_state.best_min_return:", "    if stop_early:")]},
    {"id": "c15-state-methods-rearm-keeps-steps", "file": _C, "rule": "R2", "edits": [_STATE_METHODS[0], (_STATE_METHODS[1][0], _STATE_METHODS[1][1].replace("        self.timesteps_since_upate = 0\n", "")), _STATE_METHODS[2], _STATE_METHODS[3], _STATE_METHODS[4]]},
    {"id": "c15-state-methods-property-le", "file": _C, "rule": "R", "edits": [_STATE_METHODS[0], (_STATE_METHODS[1][0], _STATE_METHODS[1][1].replace("return self.best_min_return > self.min_return", "return self.best_min_return >= self.min_return")), _STATE_METHODS[2], _STATE_METHODS[3], _STATE_METHODS[4]]},
    {"id": "c15-state-methods-fold-last-episode-only", "file": _C, "rule": "R", "edits": [_STATE_METHODS[0], (_STATE_METHODS[1][0], _STATE_METHODS[1][1].replace("self.timesteps_since_upate = self.timesteps_since_upate + n_steps", "self.timesteps_since_upate = n_steps")), _STATE_METHODS[2], _STATE_METHODS[3], _STATE_METHODS[4]]},
    {"id": "c15-td7-partial-config-swapped", "file": _T, "rule": "R5", "edits": [("    checkpoint_state = CheckpointState()\n", "    checkpoint_state = CheckpointState()\n    assess_window = partial(assess_performance_and_checkpoint, checkpoint_state, steps_before_checkpointing=max_episodes_when_checkpointing, "
        "max_episodes_when_checkpointing=steps_before_checkpointing, reset_weight=reset_weight)\n"), (_ASSESS_CALL, "                update_checkpoint, training_steps = assess_window(steps_per_episode, accumulated_reward, epoch)\n")]},
    {"id": "c15-td7-partial-threshold-literal", "file": _T, "rule": "R5", "edits": [("    checkpoint_state = CheckpointState()\n", "    checkpoint_state = CheckpointState()\n    assess_window = partial(assess_performance_and_checkpoint, checkpoint_state, steps_before_checkpointing=750_000, "
        "max_episodes_when_checkpointing=max_episodes_when_checkpointing, reset_weight=reset_weight)\n"), (_ASSESS_CALL, "                update_checkpoint, training_steps = assess_window(steps_per_episode, accumulated_reward, epoch)\n")]},
    {"id": "c15-td7-partial-state-per-episode", "file": _T, "rule": "R5", "edits": [(_ASSESS_CALL, "                checkpoint_state = CheckpointState()\n                assess_window = partial(assess_performance_and_checkpoint, checkpoint_state)\n"
        "                update_checkpoint, training_steps = assess_window(steps_per_episode, accumulated_reward, epoch, reset_weight, max_episodes_when_checkpointing, steps_before_checkpointing)\n")]},
    # --- result returned as a NamedTuple record, epoch counter carried through a local helper, counting loop over the epoch counter, bool() truth locals ---
    {"id": "c15-record-steps-left-at-default", "file": _C, "rule": "R1", "edits": [_RECORD, ("    return update_checkpoint, training_steps\n", "    return Verdict(replace_checkpoint=update_checkpoint)\n")]},
    {"id": "c15-record-flag-from-steps", "file": _C, "rule": "R3", "edits": [_RECORD, ("    return update_checkpoint, training_steps\n", "    return Verdict(training_steps > 0, n_release=training_steps)\n")]},
    {"id": "c15-td7-helper-epoch-dropped", "file": _T, "rule": "R5", "edits": [_TICK_DEF, (_TICK_OLD, "                _unused, key, sampling_key = _tick(epoch, key)\n")]},
    {"id": "c15-td7-helper-epoch-by-two", "file": _T, "rule": "R5", "edits": [(_TICK_DEF[0], _TICK_DEF[1].replace("count += 1", "count += 2")), (_TICK_OLD, "                epoch, key, sampling_key = _tick(epoch, key)\n")]},
    {"id": "c15-td7-for-epoch-one-short", "file": _T, "rule": "R5", "edits": [(_FOR_OLD, "            epoch_before = epoch\n            for epoch in range(epoch + 1, epoch + training_steps):\n"), (_LOGSTEP_OLD, "                        step + 1 - training_steps + epoch - epoch_before\n")]},
    {"id": "c15-td7-bool-local-both-flags", "file": _T, "rule": "R5", "edits": [("        steps_per_episode += 1\n", "        steps_per_episode += 1\n        episode_closed = bool(termination and truncated)\n"), (_EP_END_OLD, "            if episode_closed and use_checkpoints:")]},
    # --- a decision taken after the window switch compares with the reset-weighted value (outside the order model): decided by a concrete entry state ---
    {"id": "c15-flag-revoked-after-switch", "file": _C, "rule": "R3", "edits": [_GUARD_CLAUSE, ("        # Reset checkpoint monitoring.\n", "        if checkpoint_state.min_return < checkpoint_state.best_min_return:\n            update_checkpoint = False\n        # Reset checkpoint monitoring.\n")]},
    {"id": "c15-best-recorded-after-switch", "file": _C, "rule": "R3", "edits": [("        checkpoint_state.best_min_return = checkpoint_state.min_return\n        update_checkpoint = True\n", "        update_checkpoint = True\n"),
        ("        # Reset checkpoint monitoring.\n", "        if update_checkpoint and checkpoint_state.min_return > checkpoint_state.best_min_return:\n            checkpoint_state.best_min_return = checkpoint_state.min_return\n        # Reset checkpoint monitoring.\n")]},
]
BENIGN = [
    {"id": "c15-b-branchy-min", "file": _C, "find": "    checkpoint_state.min_return = min(\n        checkpoint_state.min_return, episode_return\n    )", "replace": "    if episode_return < checkpoint_state.min_return:\n        checkpoint_state.min_return = episode_return"},
    {"id": "c15-b-truthy-steps", "file": _C, "find": "    if training_steps > 0:", "replace": "    if training_steps:"},
    {"id": "c15-b-steps-ge-1", "file": _C, "find": "    if training_steps > 0:", "replace": "    if training_steps >= 1:"},
    {"id": "c15-b-td7-result-var", "file": _T, "find": "                update_checkpoint, training_steps = (\n                    assess_performance_and_checkpoint(", "replace": "                assessment = (\n                    assess_performance_and_checkpoint(",
     "edits": [("                update_checkpoint, training_steps = (\n                    assess_performance_and_checkpoint(", "                assessment = (\n                    assess_performance_and_checkpoint("),
               ("                if update_checkpoint:\n                    hard_target_net_update(policy, checkpoint)", "                update_checkpoint, training_steps = assessment\n                if update_checkpoint:\n                    hard_target_net_update(policy, checkpoint)")]},
    {"id": "c15-b-td7-while", "file": _T, "edits": [("            for delayed_train_step_idx in range(1, training_steps + 1):\n                epoch += 1\n", "            delayed_train_step_idx = 0\n            while delayed_train_step_idx < training_steps:\n                delayed_train_step_idx += 1\n                epoch += 1\n")]},
    {"id": "c15-b-switch-unchained", "file": _C, "find": "            epoch\n            < steps_before_checkpointing\n            <= epoch + checkpoint_state.timesteps_since_upate\n", "replace": "            epoch < steps_before_checkpointing\n            and epoch + checkpoint_state.timesteps_since_upate >= steps_before_checkpointing\n"},
    {"id": "c15-b-local-ts", "file": _C, "nth": 0, "find": "        training_steps = checkpoint_state.timesteps_since_upate\n", "replace": "        collected = checkpoint_state.timesteps_since_upate\n        training_steps = collected\n"},
    {"id": "c15-b-reset-order", "file": _C, "find": "        checkpoint_state.episodes_since_udpate = 0\n        checkpoint_state.timesteps_since_upate = 0\n", "replace": "        checkpoint_state.timesteps_since_upate = 0\n        checkpoint_state.episodes_since_udpate = 0\n"},
    {"id": "c15-b-td7-range0", "file": _T, "find": "            for delayed_train_step_idx in range(1, training_steps + 1):", "replace": "            for delayed_train_step_idx in range(2, training_steps + 2):"},
    # --- refactoring kinds the train_td7 rules were made tolerant to (audit) ---
    {"id": "c15-b-td7-zero-trip-guard", "file": _T, "find": "            for delayed_train_step_idx in range(1, training_steps + 1):\n", "replace": "            if training_steps > 0:\n              for delayed_train_step_idx in range(1, training_steps + 1):\n"},
    {"id": "c15-b-td7-flag-subscript", "file": _T, "edits": [("                update_checkpoint, training_steps = (\n                    assess_performance_and_checkpoint(", "                assessment = (\n                    assess_performance_and_checkpoint("),
        ("                if update_checkpoint:\n                    hard_target_net_update(policy, checkpoint)", "                training_steps = assessment[1]\n                if assessment[0] is True:\n                    hard_target_net_update(policy, checkpoint)")]},
    {"id": "c15-b-td7-flag-default-each-step", "file": _T, "edits": [("            training_steps = 0 if use_checkpoints else 1\n", "            update_checkpoint, training_steps = False, (0 if use_checkpoints else 1)\n"),
        ("                if update_checkpoint:\n                    hard_target_net_update(policy, checkpoint)\n                    epochs = {\n                        \"actor_checkpoint\": checkpoint.actor,\n                        \"fixed_embedding_checkpoint\": checkpoint.embedding,\n                    }\n                    if logger is not None:\n                        for k, v in epochs.items():\n                            logger.record_epoch(k, v, step=step + 1)\n                if logger is not None:\n                    for k, v in checkpoint_state.__dict__.items():\n                        logger.record_stat(k, v, step=step + 1)\n",
         "                if logger is not None:\n                    for k, v in checkpoint_state.__dict__.items():\n                        logger.record_stat(k, v, step=step + 1)\n            if update_checkpoint:\n                hard_target_net_update(policy, checkpoint)\n                if logger is not None:\n                    logger.record_epoch(\"actor_checkpoint\", checkpoint.actor, step=step + 1)\n                    logger.record_epoch(\"fixed_embedding_checkpoint\", checkpoint.embedding, step=step + 1)\n")]},
    {"id": "c15-b-td7-default-then-override", "file": _T, "find": "            training_steps = 0 if use_checkpoints else 1\n", "replace": "            training_steps = 1\n            if use_checkpoints:\n                training_steps = 0\n"},
    {"id": "c15-b-td7-config-through-locals", "file": _T, "edits": [("    step = global_step\n", "    step = global_step\n    decay = float(reset_weight)\n    window = max_episodes_when_checkpointing\n"),
        ("                        reset_weight,\n                        max_episodes_when_checkpointing,\n                        steps_before_checkpointing,\n", "                        steps_before_checkpointing=int(steps_before_checkpointing),\n                        max_episodes_when_checkpointing=window,\n                        reset_weight=decay,\n")]},
    {"id": "c15-b-td7-counter-forms", "file": _T, "edits": [("        steps_per_episode += 1\n        accumulated_reward += reward\n", "        steps_per_episode = steps_per_episode + 1\n        accumulated_reward += float(reward)\n"),
        ("            steps_per_episode = 0\n            accumulated_reward = 0.0\n", "            steps_per_episode, accumulated_reward = 0, 0.0\n"),
        ("                        steps_per_episode,\n                        accumulated_reward,\n                        epoch,", "                        int(steps_per_episode),\n                        float(accumulated_reward),\n                        epoch,"),
        ("                epoch += 1\n                key, sampling_key = jax.random.split(key, 2)\n", "                epoch = epoch + 1\n                key, sampling_key = jax.random.split(key, 2)\n")]},
    {"id": "c15-b-td7-state-two-branches", "file": _T, "find": "    checkpoint_state = CheckpointState()\n", "replace": "    if use_checkpoints:\n        checkpoint_state = CheckpointState()\n    else:\n        checkpoint_state = None\n"},
    {"id": "c15-b-td7-countdown", "file": _T, "edits": [("            for delayed_train_step_idx in range(1, training_steps + 1):\n", "            for delayed_train_step_idx in range(training_steps, 0, -1):\n"), ("                        step + 1 - training_steps + delayed_train_step_idx\n", "                        step + 2 - delayed_train_step_idx\n")]},
    {"id": "c15-b-td7-countdown-while", "file": _T, "edits": [("            for delayed_train_step_idx in range(1, training_steps + 1):\n                epoch += 1\n", "            pending = training_steps\n            while pending > 0:\n                pending -= 1\n                delayed_train_step_idx = training_steps - pending\n                epoch += 1\n")]},
    {"id": "c15-b-return-bool-int", "file": _C, "find": "    return update_checkpoint, training_steps\n", "replace": "    return bool(update_checkpoint), int(training_steps)\n"},
    # --- function spellings of comparisons, NaN guards, boolean locals in tuple assignments, stages moved into methods of the state class ---
    {"id": "c15-b-operator-gt-cut", "file": _C, "edits": [("import dataclasses\n", "import dataclasses\nimport operator as op\n"),
        ("    if checkpoint_state.min_return < checkpoint_state.best_min_return:", "    if op.gt(checkpoint_state.best_min_return, checkpoint_state.min_return):")]},
    {"id": "c15-b-operator-eq-not", "file": _C, "edits": [("import dataclasses\n", "import dataclasses\nfrom operator import eq, not_, ge\n"),
        ("    elif (\n        checkpoint_state.episodes_since_udpate\n        == checkpoint_state.max_episodes_before_update\n    ):", "    elif not_(not_(eq(checkpoint_state.max_episodes_before_update, checkpoint_state.episodes_since_udpate))):"),
        ("    if training_steps > 0:", "    if ge(training_steps, 1):")]},
    {"id": "c15-b-nan-guard-strict", "file": _C, "edits": [("import dataclasses\n", "import dataclasses\nimport math\n"),
        ("    if checkpoint_state.min_return < checkpoint_state.best_min_return:", "    if not math.isnan(checkpoint_state.min_return) and checkpoint_state.min_return < checkpoint_state.best_min_return:")]},
    {"id": "c15-b-nan-flag-local-strict", "file": _C, "edits": [("import dataclasses\n", "import dataclasses\nfrom math import isnan\n"),
        ("    if checkpoint_state.min_return < checkpoint_state.best_min_return:", "    finite_window = not isnan(checkpoint_state.min_return)\n    if finite_window and not (checkpoint_state.min_return >= checkpoint_state.best_min_return):")]},
    {"id": "c15-b-tuple-flags", "file": _C, "edits": [("    update_checkpoint = False\n    training_steps = 0\n", "    stop_early, update_checkpoint, training_steps = (checkpoint_state.min_return < checkpoint_state.best_min_return), False, 0\n"),
        ("    if checkpoint_state.min_return < checkpoint_state.best_min_return:", "    if stop_early:")]},
    {"id": "c15-b-state-methods", "file": _C, "edits": list(_STATE_METHODS)},
    {"id": "c15-b-state-methods-untyped-alias", "file": _C, "edits": [_STATE_METHODS[0], _STATE_METHODS[1], (_STATE_METHODS[2][0], "    window = checkpoint_state\n    window.fold(ret=episode_return, n_steps=steps_per_episode)\n"),
        (_STATE_METHODS[3][0], _STATE_METHODS[3][1].replace("checkpoint_state.rearm()", "window.rearm()")), ("    checkpoint_state: CheckpointState,\n", "    checkpoint_state,\n"),
        (_STATE_METHODS[4][0], "    if window.below_best:")]},
    {"id": "c15-b-td7-partial-config", "file": _T, "edits": [("    checkpoint_state = CheckpointState()\n", "    checkpoint_state = CheckpointState()\n    assess_window = partial(assess_performance_and_checkpoint, checkpoint_state, steps_before_checkpointing=steps_before_checkpointing, "
        "max_episodes_when_checkpointing=max_episodes_when_checkpointing, reset_weight=reset_weight)\n"), (_ASSESS_CALL, "                update_checkpoint, training_steps = assess_window(steps_per_episode, accumulated_reward, epoch)\n")]},
    {"id": "c15-b-td7-partial-state-only", "file": _T, "edits": [("    checkpoint_state = CheckpointState()\n", "    checkpoint_state = CheckpointState()\n    assess_window = partial(assess_performance_and_checkpoint, checkpoint_state)\n"),
        (_ASSESS_CALL, "                outcome = assess_window(steps_per_episode, accumulated_reward, epoch, steps_before_checkpointing=steps_before_checkpointing, reset_weight=reset_weight, max_episodes_when_checkpointing=max_episodes_when_checkpointing)\n"
                       "                update_checkpoint, training_steps = outcome\n")]},
    # --- result returned as a NamedTuple record, epoch counter carried through a local helper, counting loop over the epoch counter, bool() truth locals ---
    {"id": "c15-b-record-keywords", "file": _C, "edits": [_RECORD, ("    return update_checkpoint, training_steps\n", "    return Verdict(n_release=training_steps, replace_checkpoint=update_checkpoint)\n")]},
    {"id": "c15-b-record-positional", "file": _C, "edits": [_RECORD, ("    return update_checkpoint, training_steps\n", "    verdict = Verdict(update_checkpoint, training_steps)\n    return verdict\n")]},
    {"id": "c15-b-td7-helper-carries-epoch", "file": _T, "edits": [_TICK_DEF, (_TICK_OLD, "                epoch, key, sampling_key = _tick(epoch, key)\n")]},
    {"id": "c15-b-td7-helper-carries-epoch-keywords", "file": _T, "edits": [_TICK_DEF, (_TICK_OLD, "                epoch, key, sampling_key = _tick(rng_key=key, count=epoch)\n")]},
    {"id": "c15-b-td7-for-epoch", "file": _T, "edits": [(_FOR_OLD, "            epoch_before = epoch\n            for epoch in range(epoch + 1, epoch + training_steps + 1):\n"), (_LOGSTEP_OLD, "                        step + 1 - training_steps + epoch - epoch_before\n")]},
    {"id": "c15-b-td7-for-epoch-stride", "file": _T, "edits": [(_FOR_OLD, "            epoch_before = epoch\n            for epoch in range(1 + epoch, training_steps + epoch + 1, 1):\n"), (_LOGSTEP_OLD, "                        step + 1 - training_steps + epoch - epoch_before\n")]},
    {"id": "c15-b-td7-bool-local", "file": _T, "edits": [("        steps_per_episode += 1\n", "        steps_per_episode += 1\n        episode_closed = bool(truncated or termination)\n"), (_EP_END_OLD, "            if use_checkpoints and episode_closed:"),
        ("        if termination or truncated:\n            if logger is not None:\n                logger.record_stat(\"return\"", "        if episode_closed:\n            if logger is not None:\n                logger.record_stat(\"return\"")]},
    {"id": "c15-b-continue-guard-clause", "file": _C, "edits": [_GUARD_CLAUSE]},
]
