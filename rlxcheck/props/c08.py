"""C08 - prioritised replay: field ownership, init order, sampler form, bookkeeping, formulas, call-site protocol."""
from __future__ import annotations

import ast
import re

from ..loops import dotted
from ..nf import NF, Scope, Poly, parse_expr
from ..repo import Repo, loc, short, AnalysisError, positional_params, param_names, bind_call
from ..resolve import Resolver
from ..sem import guard_literals, spec as sem_spec, stmt_calls, on_every_path_once, recv_canon, field_gathers, split_conditional_assignments, _negate, _flatten_and
from ..sympath import enumerate_paths, PathEval

EXPLANATION = (
    "Ownership analysis of the `last sampled batch` field: every write of an attribute is attributed to the class of its receiver "
    "(`self.x` -> enclosing class, `self.priority.x` -> the class assigned to self.priority in __init__); the field that "
    "PriorityBuffer.update_priority reads must be written, on a PriorityBuffer, by every sampler that can feed sample_batch of a buffer "
    "whose update_priority delegates to it. Init order: the priority slot initialised is the slot the transition is written to (before "
    "the ring advances in LAP; the returned `inserted_at` slots in the subtrajectory buffer) and receives max_priority. Sampler form: "
    "inverse-CDF searchsorted(cumsum(p[:len] * mask[:len]), u * total) with u ~ U(0,1) (stratified: per-segment bounds k*total/B, (k+1)*total/B). "
    "Spellings with one meaning are read the same way: A.searchsorted(v) / np.searchsorted(A, v), len(self) / what __len__ returns, np.f(x, out=X) into a freshly "
    "allocated local / X = np.f(x), a sampler that forwards to its sibling / the sibling's body with the arguments passed, an added flag parameter / its default. "
    "Reset of the tracked maximum: the maximum over a selection of the filled priorities chosen by other data (a mask) is below a stored priority. Derived state: a "
    "distribution computed from the priorities and kept in an attribute between calls must be refreshed (or its reuse test be affected) by every method that writes a priority. "
    "Bookkeeping and priority / importance-weight formulas are normal-form identities. Call-site protocol: in the four training loops the "
    "argument of update_priority derives from the update that consumed the batch of the most recent sample_batch on that buffer, with no "
    "other sample_batch on the buffer in between (typestate over the CFG). Read alike at the call sites: a field of a record result (NamedTuple / namedtuple / dataclass "
    "built by every return of the update) / the position of that field; a local holding the bound method buffer.sample_batch (also through functools.partial or a "
    "conditional expression of those) / the method call; a batch sampled by the caller and handed to the updating routine together with the buffer / the protocol read "
    "across that call (at every call of the routine). Stratified bounds: the two length-B views [:-1] and [1:] of one grid arange(B + 1) * scalar / arange(B) * scalar and (arange(B) + 1) * scalar."
)
TRUSTED = ["numpy cumsum/searchsorted: searchsorted(cumsum(p), u*sum(p)) selects i with probability p_i/sum(p) for u ~ U[0,1)", "rng.uniform(0, 1) draws from [0, 1)"]
RULES = {
    "R1-field-agreement": "the attribute update_priority reads for the last sampled indices is written on the same receiver class by every sampler feeding sample_batch",
    "R2-init-order": "new samples get max_priority at the slot they are written to: LAP initialises self.insert_idx before super().add_sample advances it; the subtrajectory PER initialises the returned inserted_at slots",
    "R3-sampler-form": "indices == searchsorted(cumsum(priority[:len] * mask[:len]), uniform(0,1,B) * total); stratified: uniform(k*total/B, (k+1)*total/B)",
    "R4-bookkeeping": "update_priority: priority[sampled_indices] = new, max_priority = max(max(new), max_priority); reset: max(priority[:len]); buffers delegate to their PriorityBuffer with current_len",
    "R5-formulas": "LAP: max(|d|, p_min)^alpha; PER: |d|^alpha + eps; importance ratio (len * p / sum)^(-beta) normalised by its max",
    "R7-store-writers": "the stored priority array (PriorityBuffer.priority) is written only by __init__, initialize_priority and update_priority: no other function writes it through a subscript store, an augmented assignment or an in-place numpy call, directly or through a view (basic slice, np.asarray, reshape, ravel) held in a local",
    "R8-multitask-routing": "MultiTaskReplayBuffer.update_priority forwards to the member buffer that the last sample_batch sampled from (same index expression, recorded by sample_batch); reset_max_priority reaches every member",
    "R9-derived-state": "a distribution computed from the stored priorities and kept in an attribute between calls is refreshed by every write: each method that stores into the priority array also assigns the kept attribute or something the reuse test reads",
    "R6-call-protocol": "update_priority(<priority of the errors returned by the update that consumed the last sampled batch>) with no sample_batch on that buffer in between",
}

RB = "rl_blox.blox.replay_buffer."
_TEMP = re.compile(r"__i\d+\b")
_IDENT = re.compile(r"[A-Za-z_][A-Za-z_0-9]*")
_SELF_ATTR = re.compile(r"self\.([A-Za-z_]\w*)")


def _unread(*vals) -> bool:
    """A value the engine did not read completely: a merge of definitions (φ), an opaque expression (⟦..⟧), a temporary of the helper
    expander that was left unresolved.  A comparison made on such a value is no evidence."""
    for v in vals:
        if v is None:
            continue
        t = v if isinstance(v, str) else v.canon()
        if "φ(" in t or "⟦" in t or _TEMP.search(t):
            return True
    return False


def _tok(v) -> set:
    return set(_IDENT.findall(v if isinstance(v, str) else v.canon()))


def _ops(nf, p: Poly, depth: int = 0) -> set:
    """The constructs a value is made of: function names, attribute names, leaf names and the index texts of slices.  Constant element
    indices are not recorded (another constant is a wrong constant, not another construct); coefficients and exponents are not either
    (the same constructs combined differently)."""
    out = set()
    if depth > 12:
        return {"<deep>"}
    if p.elems is not None:
        for e in p.elems:
            out |= _ops(nf, e, depth + 1)
        return out
    for a in p.atoms():
        m_ = nf.meta.get(a)
        if m_ is None or not m_.get("fn"):
            out.add(a)
            continue
        fn_ = m_["fn"].split(".")[-1]
        args = list(m_.get("args", []))
        if fn_ == "subscript" and args:
            ix_ = a[len(args[0].canon()):]
            out.add("proj" if re.fullmatch(r"\[-?\d+\]", ix_) else "subscript" + ix_)
        elif fn_ == "attr":
            out.add("attr:" + a.rsplit(".", 1)[-1])
        else:
            out.add(fn_)
        for x in args + list(m_.get("kws", {}).values()):
            if isinstance(x, Poly):
                out |= _ops(nf, x, depth + 1)
    return out


def _evidence(nf, got: Poly, wants, extra=()) -> bool:
    """A value that differs from the documented one is evidence of a different behaviour only when it was read completely and is built
    from the documented ingredients and constructs (only combined differently, or with another constant); anything else is a form the
    rule does not read."""
    wants = list(wants) if isinstance(wants, (list, tuple, set)) else [wants]
    if got is None or _unread(got):
        return False
    ops = set(extra) | {"attr:" + x for x in extra}
    toks = set(extra)
    for w in wants:      # the documented ingredients, in every accepted spelling
        ops |= _ops(nf, w)
        toks |= _tok(w)
    return _tok(got) <= toks and _ops(nf, got) <= ops


def _decide(ck, nf, rule, site, key, got: Poly, wants, shown: str, why: str, where, extra=()):
    """Equal to (one of) the documented value(s) -> holds.  Different -> a violation only with evidence (see _evidence)."""
    wants = list(wants) if isinstance(wants, (list, tuple, set)) else [wants]
    ok = any(got == w for w in wants)
    if not ok and not _evidence(nf, got, wants, extra):
        raise AnalysisError(f"{site}: {key} is `{got.canon()[:110]}` (unrecognised form)")
    ck.ob(rule, site, key, ok, shown, "" if ok else why, where)
    return ok


def _group(ck, fn, *a, **kw):
    """One independent rule group: an unrecognised form inside it leaves the group undecided, the other groups still run (a definite
    violation found elsewhere is still reported)."""
    def run_():
        try:
            return fn(*a, **kw)
        except AnalysisError:
            raise
        except (IndexError, KeyError, ValueError, RuntimeError, AttributeError, TypeError) as e:
            raise AnalysisError(f"{getattr(fn, '__name__', 'rule')}: {type(e).__name__}: {e} (unrecognised form)")
    return ck.guard(run_)


def _top(txt: str) -> str:
    """txt with every bracketed group removed (to look for top-level commas)."""
    out, depth = "", 0
    for ch in txt:
        if ch in "([{":
            depth += 1
        elif ch in ")]}":
            depth -= 1
        elif depth == 0:
            out += ch
    return out


def sem_split_args(inner: str) -> list:
    """Top-level comma split of a canonical argument list."""
    out, depth, cur = [], 0, ""
    for ch in inner:
        if ch in "([{":
            depth += 1
        elif ch in ")]}":
            depth -= 1
        if ch == "," and depth == 0:
            out.append(cur.strip())
            cur = ""
        else:
            cur += ch
    if cur.strip():
        out.append(cur.strip())
    return out


def _m(repo, cq, name):
    """The method the class uses (own or inherited), with the module of the class that defines it."""
    m = repo.method(cq, name)
    if m is None:
        raise AnalysisError(f"{cq}.{name} not found (anchor vanished)")
    fn = m[1]
    fn._module = repo.cls(m[0])._module
    return fn


def _targets(st) -> list:
    """Store targets of an assignment statement, tuple / list / starred targets flattened."""
    if isinstance(st, ast.Assign):
        ts = list(st.targets)
    elif isinstance(st, ast.AugAssign) or (isinstance(st, ast.AnnAssign) and st.value is not None):
        ts = [st.target]
    else:
        ts = []
    out = []

    def flat(t):
        if isinstance(t, (ast.Tuple, ast.List)):
            for e in t.elts:
                flat(e)
        elif isinstance(t, ast.Starred):
            flat(t.value)
        else:
            out.append(t)
    for t in ts:
        flat(t)
    return out


def _bind(fn, call, site, skip_self=True) -> dict:
    """Arguments of a call bound by the callee's signature (positional and keyword spellings are the same call)."""
    if any(isinstance(a, ast.Starred) for a in call.args) or any(k.arg is None for k in call.keywords):
        raise AnalysisError(f"{site}: `{short(call, 80)}` passes arguments through * / ** (unrecognised form)")
    return bind_call(fn, call, skip_self=skip_self)


_WRAPPERS = {"int", "float", "asarray", "array", "asanyarray", "copy", "int64", "int32", "intp", "float32", "float64", "device_get"}


def _origin(cfg, e, at):
    """Follow single-definition local copies and value-transparent wrappers back to the expression that produces the value:
    (expression, CFG node at which it is evaluated)."""
    for _ in range(12):
        if isinstance(e, ast.Call) and len(e.args) == 1 and not e.keywords and ((isinstance(e.func, ast.Name) and e.func.id in _WRAPPERS) or (isinstance(e.func, ast.Attribute) and e.func.attr in _WRAPPERS and isinstance(e.func.value, ast.Name) and not cfg.defs_of(at, e.func.value.id))):
            e = e.args[0]
            continue
        if isinstance(e, ast.Name):
            ds = cfg.defs_of(at, e.id)
            if len(ds) == 1 and ds[0].kind == "assign" and ds[0].value is not None:
                e, at = ds[0].value, ds[0].node
                continue
        break
    return e, at


def _need_no_own_calls(repo, cq, fn, site):
    """State-changing rules evaluate the statements of one method: a call of another method of the object that the helper expander
    left in place hides assignments, so nothing is decided."""
    for c in ast.walk(fn):
        if isinstance(c, ast.Call) and isinstance(c.func, ast.Attribute) and isinstance(c.func.value, ast.Name) and c.func.value.id == "self":
            try:
                m = repo.method(cq, c.func.attr)
            except AnalysisError:
                m = None
            if m is not None:
                raise AnalysisError(f"{site}: calls its own method `{c.func.attr}`, whose effects are not read (unrecognised form)")


def _need_no_local_mutation(cfg, fn, site):
    """Value rules read locals through their assignments: an element store into a local array, an `out=` target or an in-place method
    changes a value without an assignment, so nothing is decided."""
    for n in cfg.nodes:
        for t in (_targets(n.ast) if n.kind == "stmt" else []):
            b = t
            while isinstance(b, ast.Subscript) or (isinstance(b, ast.Attribute) and b is not t):
                b = b.value
            if isinstance(t, ast.Subscript) and isinstance(b, ast.Name) and b.id != "self":
                raise AnalysisError(f"{site}: `{short(n.ast, 60)}` stores into a local array (unrecognised form)")
    for c in ast.walk(fn):
        if isinstance(c, ast.Call) and (any(k.arg == "out" for k in c.keywords) or (isinstance(c.func, ast.Attribute) and c.func.attr in _INPLACE_METHODS | _INPLACE_FUNCS)):
            raise AnalysisError(f"{site}: `{short(c, 60)}` updates an array in place (unrecognised form)")


def _numpy_alias(mi):
    """The local name under which the module imports numpy (needed to write a method call as the library function)."""
    for k_, v_ in sorted(getattr(mi, "imports", {}).items()):
        if v_ == "numpy":
            return k_
    return None


def _is_fresh_array(e) -> bool:
    """An expression that allocates its result (arithmetic, a non-view library call): no other name can refer to the same memory."""
    if isinstance(e, (ast.BinOp, ast.UnaryOp)):
        return True
    if isinstance(e, ast.Call):
        f_ = e.func
        nm_ = f_.attr if isinstance(f_, ast.Attribute) else f_.id if isinstance(f_, ast.Name) else None
        return nm_ is not None and nm_ not in _VIEW_METHODS | _VIEW_FUNCS | {"array"} and not any(k.arg == "out" for k in e.keywords)
    return False


def _refers_to(e, name: str) -> bool:
    """e is the local `name` itself or a view of it (basic slice, .T, reshape / ravel / asarray ...): an alias of its memory."""
    for _ in range(8):
        if isinstance(e, ast.Name):
            return e.id == name
        if isinstance(e, ast.Subscript) and _basic_index(e.slice):
            e = e.value
        elif isinstance(e, ast.Attribute) and e.attr == "T":
            e = e.value
        elif isinstance(e, ast.Call) and isinstance(e.func, ast.Attribute) and e.func.attr in _VIEW_METHODS:
            e = e.func.value
        elif isinstance(e, ast.Call) and isinstance(e.func, ast.Attribute) and e.func.attr in _VIEW_FUNCS and e.args:
            e = e.args[0]
        else:
            return False
    return False


def _read_spellings(repo, nf, fn, cq):
    """Private copy of a method in which three spellings are written the way the value rules read them (the meaning is unchanged; the
    original tree is not touched; None when nothing had to be rewritten):
      * `A.searchsorted(v, ..)` on a value A (not a module)            ->  `np.searchsorted(A, v, ..)`        (numpy: the method *is* the function)
      * `len(self)`                                                    ->  the expression `__len__` of the class returns
      * `np.f(.., out=X)` as a statement / `X = np.f(.., out=X)` where X is a local that holds a freshly allocated array which no other
        name aliases                                                   ->  `X = np.f(..)`                      (the value of X afterwards)
    """
    from ..expand import clone
    mi = fn._module
    new = clone(fn)
    changed = [False]
    params = {a.arg for a in fn.args.posonlyargs + fn.args.args + fn.args.kwonlyargs}
    stored = {x.id for x in ast.walk(fn) if isinstance(x, ast.Name) and isinstance(x.ctx, ast.Store)}
    npn = _numpy_alias(mi)
    len_expr = None
    m_len = repo.method(cq, "__len__") if cq else None
    if m_len is not None:
        body_ = [s for s in m_len[1].body if not (isinstance(s, ast.Expr) and isinstance(s.value, ast.Constant))]
        if len(body_) == 1 and isinstance(body_[0], ast.Return) and body_[0].value is not None and dotted(body_[0].value) and dotted(body_[0].value).startswith("self."):
            len_expr = body_[0].value

    class T(ast.NodeTransformer):
        def visit_Call(self, c):
            self.generic_visit(c)
            f_ = c.func
            if isinstance(f_, ast.Attribute) and f_.attr == "searchsorted" and npn is not None and npn not in stored | params:
                root = f_.value
                while isinstance(root, (ast.Attribute, ast.Subscript, ast.Call)):
                    root = root.func if isinstance(root, ast.Call) else root.value
                if isinstance(root, ast.Name) and (root.id == "self" or root.id in stored | params) and not any(isinstance(a, ast.Starred) for a in c.args):
                    changed[0] = True
                    return ast.copy_location(ast.Call(func=ast.Attribute(value=ast.Name(id=npn, ctx=ast.Load()), attr="searchsorted", ctx=ast.Load()), args=[f_.value] + list(c.args), keywords=list(c.keywords)), c)
            if isinstance(f_, ast.Name) and f_.id == "len" and "len" not in stored | params and len(c.args) == 1 and not c.keywords and isinstance(c.args[0], ast.Name) and c.args[0].id == "self" and len_expr is not None:
                changed[0] = True
                return ast.copy_location(clone(len_expr), c)
            # `np.take(A, i)` / `A.take(i)` without axis / mode / out is `A[i]` for the one-dimensional arrays of this class
            if isinstance(f_, ast.Attribute) and f_.attr == "take" and not c.keywords and not any(isinstance(a, ast.Starred) for a in c.args):
                if isinstance(f_.value, ast.Name) and f_.value.id == npn and npn not in stored | params and len(c.args) == 2:
                    changed[0] = True
                    return ast.copy_location(ast.Subscript(value=c.args[0], slice=c.args[1], ctx=ast.Load()), c)
                root = f_.value
                while isinstance(root, (ast.Attribute, ast.Subscript)):
                    root = root.value
                if isinstance(root, ast.Name) and (root.id == "self" or root.id in stored | params) and len(c.args) == 1 and not (isinstance(f_.value, ast.Name) and f_.value.id == npn):
                    changed[0] = True
                    return ast.copy_location(ast.Subscript(value=f_.value, slice=c.args[0], ctx=ast.Load()), c)
            return c
    new = T().visit(new)
    # in-place accumulation into a fresh local
    defs_of = {}
    for st in ast.walk(new):
        for t in _targets(st) if isinstance(st, (ast.Assign, ast.AnnAssign, ast.AugAssign)) else []:
            if isinstance(t, ast.Name):
                defs_of.setdefault(t.id, []).append(st)

    def out_local(c):
        """X when the call writes its result into the local X that holds a fresh array nobody else refers to"""
        ks = [k for k in c.keywords if k.arg == "out"]
        if len(ks) != 1 or not isinstance(ks[0].value, ast.Name):
            return None
        x = ks[0].value.id
        if x in params or x not in defs_of:
            return None
        for d in defs_of[x]:
            into_itself = isinstance(d, ast.Assign) and isinstance(d.value, ast.Call) and any(k.arg == "out" and isinstance(k.value, ast.Name) and k.value.id == x for k in d.value.keywords)
            if not (isinstance(d, ast.Assign) and len(d.targets) == 1 and isinstance(d.targets[0], ast.Name) and (_is_fresh_array(d.value) or into_itself)):
                return None
        for st in ast.walk(new):
            if isinstance(st, (ast.Assign, ast.AnnAssign)) and st.value is not None and _refers_to(st.value, x):
                return None      # another name for the same memory
            if isinstance(st, ast.Call) and st is not c and any(_refers_to(a, x) for a in st.args) and isinstance(st.func, ast.Attribute) and st.func.attr in ("append", "extend", "setdefault", "update"):
                return None      # stored in a container
        return x

    def block(stmts):
        out = []
        for st in stmts:
            for f in ("body", "orelse", "finalbody"):
                v = getattr(st, f, None)
                if isinstance(v, list) and v and isinstance(v[0], ast.stmt) and not isinstance(st, (ast.FunctionDef, ast.ClassDef)):
                    setattr(st, f, block(v))
            for h in getattr(st, "handlers", []) or []:
                h.body = block(h.body)
            c = st.value if isinstance(st, (ast.Expr, ast.Assign)) and isinstance(st.value, ast.Call) else None
            x = out_local(c) if c is not None and isinstance(c.func, ast.Attribute) and dotted(c.func.value) == npn else None
            if x is not None and (isinstance(st, ast.Expr) or (len(st.targets) == 1 and isinstance(st.targets[0], ast.Name) and st.targets[0].id == x)):
                c2 = ast.Call(func=c.func, args=list(c.args), keywords=[k for k in c.keywords if k.arg != "out"])
                out.append(ast.copy_location(ast.Assign(targets=[ast.Name(id=x, ctx=ast.Store())], value=ast.copy_location(c2, c)), st))
                changed[0] = True
            else:
                out.append(st)
        return out
    new.body = block(new.body)
    if not changed[0]:
        return None
    ast.fix_missing_locations(new)
    for parent in ast.walk(new):
        for child in ast.iter_child_nodes(parent):
            child._parent = parent
    new._module = mi
    new._parent = getattr(fn, "_parent", None)
    nf.__dict__.setdefault("_c08_keep", []).append(new)     # CFGs are cached by object identity: the copy must stay alive
    return new


def _forwarded(repo, nf, fn, cq, qual):
    """A method that only forwards to another sampler of the repository (`return self.priority.prioritized_sampling(.., stratified=True)`)
    is read like the callee's body with the forwarder's arguments: private copy with the direct repository callees expanded in place,
    None when there is nothing to expand."""
    from ..expand import Expander, clone, load_known
    mi = fn._module
    probe = Expander(repo, set(), max_depth=1)
    callees = set()
    for n in ast.walk(fn):
        if isinstance(n, ast.Call):
            r = probe.resolve(n, mi, cq, qual)
            if r is not None and not r[0].startswith("<lambda>"):
                callees.add(r[0])
    callees.discard(qual)
    if not callees:
        return None
    new = clone(fn)
    new._module = mi
    new._parent = getattr(fn, "_parent", None)
    try:
        if not Expander(repo, load_known() - callees, max_depth=1).expand_function(new, mi, cq, qual):
            return None
    except Exception:
        return None
    for parent in ast.walk(new):
        for child in ast.iter_child_nodes(parent):
            child._parent = parent
    new._module = mi
    nf.__dict__.setdefault("_c08_keep", []).append(new)
    return new


def _need_extra_params_unpassed(repo, nf, fn, cq, meth, extra, site):
    """The sampler is read with its additional parameters at their defaults: every call of it in the package must leave them at the
    default, except the calls made by the stratified sampler of the PER buffer, which the rule reads in place with the values passed."""
    read_in_place = {RB + "PrioritizedReplayBuffer.prioritized_sampling_stratified"}
    roles = _roles(fn)
    a_ = fn.args
    dflt = dict(zip([x.arg for x in a_.posonlyargs + a_.args][len(a_.posonlyargs + a_.args) - len(a_.defaults):], a_.defaults))
    dflt.update({x.arg: d for x, d in zip(a_.kwonlyargs, a_.kw_defaults) if d is not None})

    def is_default(k):
        d, v = dflt.get(k.arg), k.value
        return isinstance(d, ast.Constant) and isinstance(v, ast.Constant) and type(d.value) is type(v.value) and d.value == v.value
    for fq, g, _mi in repo.all_functions():
        if not fq.startswith("rl_blox.") or fq in read_in_place:
            continue
        for c in ast.walk(g):
            if isinstance(c, ast.Call) and isinstance(c.func, ast.Attribute) and c.func.attr == meth:
                if any(isinstance(a, ast.Starred) for a in c.args) or any(k.arg is None for k in c.keywords):
                    raise AnalysisError(f"{site}: `{short(c, 60)}` in {fq} passes arguments through * / ** to a sampler with additional parameters (unrecognised form)")
                if len(c.args) > len(roles) - 1 - len(extra) or any(k.arg in extra and not is_default(k) for k in c.keywords):
                    raise AnalysisError(f"{site}: `{short(c, 60)}` in {fq} passes `{extra}`; the sampler is read at the defaults only (unrecognised form)")


def _roles(fn) -> list:
    """Parameter names in signature order, keyword-only ones included (roles are positions of the recorded signature)."""
    a = fn.args
    return [x.arg for x in a.posonlyargs + a.args + a.kwonlyargs]


def _attr_types(repo, cq):
    """attribute -> class qual from `self.x = Cls(...)` in __init__ (through the MRO)."""
    out = {}
    for c in repo.mro(cq)[::-1]:
        m = repo.method(c, "__init__", inherited=False)
        if not m:
            continue
        mi = repo.cls(c)._module
        for n in ast.walk(m[1]):
            if isinstance(n, (ast.Assign, ast.AnnAssign)) and isinstance(n.value, ast.Call) and isinstance(n.value.func, (ast.Name, ast.Attribute)):
                r = repo.resolve_expr(mi, n.value.func)
                if r and r.startswith("rl_blox."):
                    for t in _targets(n):
                        if isinstance(t, ast.Attribute) and dotted(t.value) == "self":
                            out[t.attr] = r
    return out


def _recv_class(repo, nf, cfg, mi, cq, types, at, e):
    """Class of the object an attribute is written on / a method is called on: `self` -> the enclosing class, `self.x` (also through a
    local alias) -> the class assigned to x in __init__; None when the receiver is not one of these."""
    sc = Scope(cfg, mi, {}, cq)
    sc.inline_self_attrs = False
    r = nf.poly(e, sc, at).canon()
    if r == "self":
        return cq
    m = _SELF_ATTR.fullmatch(r)
    return types.get(m.group(1)) if m else None


def _len_of_self(repo, nf, cq, got: Poly) -> Poly:
    """`len(self)` is what the class's __len__ returns."""
    if got.canon() != "len(self)":
        return got
    m = repo.method(cq, "__len__")
    if m is None:
        return got
    fn = m[1]
    fn._module = repo.cls(m[0])._module
    cfg = nf.cfg_of(fn)
    rets = [n for n in cfg.nodes if n.kind == "stmt" and isinstance(n.ast, ast.Return) and n.ast.value is not None]
    if len(rets) != 1:
        return got
    return nf.poly(rets[0].ast.value, Scope(cfg, fn._module, {}, cq), rets[0].id)


def sampled_field(repo, nf, PB):
    """The attribute update_priority indexes the stored priorities with (the `last sampled batch` field)."""
    up = _m(repo, PB, "update_priority")
    cfg = nf.cfg_of(up)
    sc = Scope(cfg, up._module, {}, PB)
    sc.inline_self_attrs = False
    cands = set()
    for n in cfg.nodes:
        if n.kind != "stmt":
            continue
        for t in _targets(n.ast):
            if isinstance(t, ast.Subscript) and nf.poly(t.value, sc, n.id).canon() == "self.priority":
                m = _SELF_ATTR.fullmatch(nf._slice(t.slice, sc, n.id, 0)[0])
                if m:
                    cands.add(m.group(1))
    if not cands:
        cands = {n.attr for n in ast.walk(up) if isinstance(n, ast.Attribute) and isinstance(n.ctx, ast.Load) and dotted(n.value) == "self" and "ind" in n.attr}
    if len(cands) != 1:
        raise AnalysisError(f"{PB}.update_priority: cannot identify the last-sampled-indices field (candidates {sorted(cands)})")
    return cands.pop()


def r1_field_agreement(ck, repo, nf0, field):
    PB = RB + "PriorityBuffer"
    MOD = "rl_blox.blox.replay_buffer"
    classes = [(f"{MOD}.{name}", node, mi0) for name, node, mi0 in repo.module_members(MOD) if isinstance(node, ast.ClassDef)]
    pb_mro = repo.mro(PB)

    def fam(c):
        """c is PriorityBuffer or derives from it"""
        try:
            return c is not None and PB in repo.mro(c)
        except AnalysisError:
            return False
    _deleg = {}

    def delegating(c):
        """update_priority of class c ends in the update_priority of a PriorityBuffer it holds"""
        if c not in _deleg:
            _deleg[c] = False
            try:
                m = repo.method(c, "update_priority")
            except AnalysisError:
                m = None
            if m is not None and not fam(c):
                f_ = m[1]
                mi_ = repo.cls(m[0])._module
                cfg_ = nf0.cfg_of(f_)
                ty_ = _attr_types(repo, c)
                _deleg[c] = any(fam(_recv_class(repo, nf0, cfg_, mi_, c, ty_, n_.id, c_.func.value)) for n_, c_ in stmt_calls(cfg_, lambda c_: isinstance(c_.func, ast.Attribute) and c_.func.attr == "update_priority"))
        return _deleg[c]
    writes = []  # (class, module, method name, stmt, receiver class | None)
    for cq, node, mi0 in classes:
        types = _attr_types(repo, cq)
        for meth in node.body:
            if not isinstance(meth, ast.FunctionDef):
                continue
            cfg = nf0.cfg_of(meth)
            for n in cfg.nodes:
                if n.kind != "stmt":
                    continue
                for t in _targets(n.ast):
                    if isinstance(t, ast.Attribute) and t.attr == field:
                        writes.append((cq, mi0, meth.name, n.ast, _recv_class(repo, nf0, cfg, mi0, cq, types, n.id, t.value)))
    ck.floor("sampled-indices-writes", len(writes), 2)
    pb_writes_outside = [w for w in writes if fam(w[4]) and not fam(w[0]) and w[2] != "__init__"]
    for cq, mi0, mname, st, rc in writes:
        if mname == "__init__":
            continue
        site = f"{cq}.{mname}"
        mine = [w for w in writes if w[0] == cq and w[2] == mname]
        has_good = any(fam(w[4]) for w in mine)
        shown = f"`{short(st, 70)}` (receiver class {rc.rsplit('.', 1)[-1] if rc else '?'})"
        if fam(rc):
            ck.ob("R1-field-agreement", site, f"writes:{field}", True, shown, "", loc(mi0, st))
        elif rc is None:
            if not has_good and (fam(cq) or delegating(cq)):
                raise AnalysisError(f"{site}: receiver of `{short(st, 70)}` not resolved to a class (unrecognised form)")
        elif rc in pb_mro:
            # written in a base class / mixin of PriorityBuffer: the object is a PriorityBuffer unless another class shares that base
            if any(rc in repo.mro(c) and not fam(c) and c != rc and c not in pb_mro for c, _, _ in classes):
                raise AnalysisError(f"{site}: `{field}` is written in {rc}, a base shared by PriorityBuffer and other classes (unrecognised form)")
            ck.ob("R1-field-agreement", site, f"writes:{field}", True, shown, "", loc(mi0, st))
        elif has_good:
            ck.ob("R1-field-agreement", site, f"writes:{field}", True, shown + " - also recorded on the PriorityBuffer in the same method", "", loc(mi0, st))
        elif delegating(rc):
            # the sampler of a buffer whose update_priority ends in PriorityBuffer.update_priority records the batch on the buffer only
            if pb_writes_outside:
                raise AnalysisError(f"{site}: `{field}` is stored on a {rc.rsplit('.', 1)[-1]} here and on the PriorityBuffer by {pb_writes_outside[0][0]}.{pb_writes_outside[0][2]} (unrecognised form)")
            ck.ob("R1-field-agreement", site, f"writes:{field}", False, shown,
                  f"`{field}` is stored on a {rc.rsplit('.', 1)[-1]} but PriorityBuffer.update_priority reads its own `{field}`: the priorities of this batch are never updated (or an empty / stale index set is written)", loc(mi0, st))
        # any other class keeps an attribute of its own with this name: not the field update_priority reads


def r4_delegate(ck, repo, nf0, cq, meth, is_len):
    """A buffer class forwards update_priority / reset_max_priority to the PriorityBuffer it holds: the right value, exactly once."""
    PB = RB + "PriorityBuffer"

    def fam(c):
        try:
            return c is not None and PB in repo.mro(c)
        except AnalysisError:
            return False
    m = repo.method(cq, meth)
    ck.need(m is not None, f"{cq}.{meth} not found")
    fn = m[1]
    fmi = repo.cls(m[0])._module
    fn._module = fmi
    site = f"{cq}.{meth}"
    cfg = nf0.cfg_of(fn)
    types = _attr_types(repo, cq)
    calls = []
    for n, c in stmt_calls(cfg, lambda c: isinstance(c.func, ast.Attribute) and c.func.attr == meth):
        rc = _recv_class(repo, nf0, cfg, fmi, cq, types, n.id, c.func.value)
        if rc is None:
            raise AnalysisError(f"{site}: receiver of `{short(c, 60)}` not resolved to a class (unrecognised form)")
        if fam(rc):
            calls.append((n, c))
    key = "delegates-with-length" if is_len else "delegates"
    why = "the reset must consider exactly the filled region (current_len)" if is_len else "buffers must forward the new priorities, unchanged and exactly once, to their PriorityBuffer"
    if not calls:
        # evidence only when the method does nothing at all; a forwarding this rule does not see is undecided
        if any(isinstance(x, ast.Call) for x in ast.walk(fn)):
            raise AnalysisError(f"{site}: no call of the PriorityBuffer's {meth} recognised (unrecognised form)")
        ck.ob("R4-bookkeeping", site, key, False, "no call at all", why, loc(fmi, fn))
        return
    pm = _m(repo, PB, meth)
    pps = [p_ for p_ in _roles(pm) if p_ != "self"]
    ck.need(len(pps) >= 1, f"{PB}.{meth}: signature changed (anchor vanished)")
    own = [p_ for p_ in _roles(fn) if p_ != "self"]
    if is_len:
        want = nf0.poly(parse_expr("self.current_len"), Scope(None, fmi, {}, cq), None)
    else:
        ck.need(len(own) >= 1, f"{site}: signature changed (anchor vanished)")
        want = Poly.atom(own[0], {own[0]}, {own[0]})
    args_ok = True
    for n, c in calls:
        a = _bind(pm, c, site).get(pps[0])
        if a is None:
            raise AnalysisError(f"{site}: `{short(c, 60)}` does not pass `{pps[0]}` (unrecognised form)")
        got = _len_of_self(repo, nf0, cq, nf0.poly(a, Scope(cfg, fmi, {}, cq), n.id))
        if got != want:
            if not _evidence(nf0, got, want, ("buffer_size", "insert_idx") if is_len else ()):
                raise AnalysisError(f"{site}: forwards `{got.canon()[:80]}` (unrecognised form)")
            args_ok = False
    ok = args_ok and on_every_path_once(cfg, [n.id for n, _ in calls])
    ck.ob("R4-bookkeeping", site, key, ok, "; ".join(short(c, 60) for _, c in calls), "" if ok else why, loc(fmi, fn))


_VIEW_METHODS = {"reshape", "ravel", "view", "squeeze", "transpose", "swapaxes"}
_VIEW_FUNCS = {"asarray", "asanyarray", "ravel", "reshape", "atleast_1d", "squeeze", "transpose"}
_INPLACE_METHODS = {"fill", "sort", "put", "itemset", "partition", "setfield", "resize", "clip_", "__setitem__"}
_INPLACE_FUNCS = {"copyto", "put", "place", "putmask", "put_along_axis", "fill_diagonal"}
_WRITERS_ALLOWED = {"__init__", "initialize_priority", "update_priority"}


def _basic_index(ix):
    """True when the subscript is basic indexing producing a numpy *view* (slices / Ellipsis / None only)."""
    if isinstance(ix, ast.Slice):
        return True
    if isinstance(ix, ast.Constant) and ix.value in (Ellipsis, None):
        return True
    if isinstance(ix, ast.Tuple):
        return all(_basic_index(e) or (isinstance(e, ast.Constant) and isinstance(e.value, int)) for e in ix.elts) and any(isinstance(e, ast.Slice) for e in ix.elts)
    return False
def r7_store_writers(ck, repo, res):
    PB = RB + "PriorityBuffer"
    n_fn = n_alias = 0
    READ_ONLY = {"sample_batch", "_sample_idx", "prioritized_sampling", "prioritized_sampling_stratified", "compute_importance_ratio", "reset_max_priority", "__len__", "reward_scale", "__getstate__"}
    for fq, fn, _mi in repo.all_functions():
        if not fq.startswith("rl_blox."):
            continue
        src_has = any(isinstance(n, ast.Attribute) and n.attr == "priority" for n in ast.walk(fn))
        if not src_has:
            continue
        mi = fn._module
        in_pb = fq.startswith(PB + ".")
        mname = fq.rsplit(".", 1)[-1]
        if in_pb and mname in _WRITERS_ALLOWED:
            continue
        # the rule is about read-only operations: sampling, weights, length, reset of the tracked maximum (which reads the array);
        # additions and priority updates are writers by contract and are decided by R2 / R4
        if fq.startswith(RB) and mname not in READ_ONLY:
            continue
        n_fn += 1
        cfg = res.cfg_of(fn)

        def is_store(e, at, depth=0):
            """does expression e (evaluated at CFG node `at`) denote the stored priority array or a view of it?"""
            if depth > 8:
                return False
            if isinstance(e, ast.Attribute):
                d = dotted(e)
                if d == "self.priority" and in_pb:
                    return True
                if d and d.endswith(".priority.priority"):
                    return True
                if e.attr == "T":
                    return is_store(e.value, at, depth + 1)
                return False
            if isinstance(e, ast.Subscript):
                return _basic_index(e.slice) and is_store(e.value, at, depth + 1)
            if isinstance(e, ast.Name):
                ds = cfg.defs_of(at, e.id)
                return any(d.kind == "assign" and d.value is not None and is_store(d.value, d.node, depth + 1) for d in ds)
            if isinstance(e, ast.Call):
                f = e.func
                if isinstance(f, ast.Attribute) and f.attr in _VIEW_METHODS and is_store(f.value, at, depth + 1):
                    return True
                if isinstance(f, ast.Attribute) and f.attr in _VIEW_FUNCS and dotted(f.value) in ("np", "numpy") and e.args and is_store(e.args[0], at, depth + 1):
                    return True
            return False

        for node in cfg.nodes:
            if node.ast is None or node.kind != "stmt":
                continue
            st = node.ast
            bad = None
            if isinstance(st, ast.Assign):
                for t in st.targets:
                    for tt in (t.elts if isinstance(t, ast.Tuple) else [t]):
                        if isinstance(tt, ast.Subscript) and is_store(tt.value, node.id):
                            bad = f"subscript store `{short(st, 70)}`"
                        if isinstance(tt, ast.Attribute) and is_store(tt, node.id) and not (in_pb and mname == "__init__"):
                            bad = f"rebinding `{short(st, 70)}`"
            elif isinstance(st, ast.AugAssign):
                t = st.target
                if (isinstance(t, ast.Subscript) and is_store(t.value, node.id)) or is_store(t, node.id):
                    bad = f"in-place `{short(st, 70)}`"
            for c in ast.walk(st):
                if not isinstance(c, ast.Call):
                    continue
                f = c.func
                if isinstance(f, ast.Attribute) and f.attr in _INPLACE_METHODS and is_store(f.value, node.id):
                    bad = f"in-place method `{short(c, 70)}`"
                if isinstance(f, ast.Attribute) and f.attr in _INPLACE_FUNCS and dotted(f.value) in ("np", "numpy") and c.args and is_store(c.args[0], node.id):
                    bad = f"in-place numpy call `{short(c, 70)}`"
                for kw in c.keywords:
                    if kw.arg == "out" and is_store(kw.value, node.id):
                        bad = f"`out=` targets the stored priorities in `{short(c, 70)}`"
            # count views held in locals (instance floor: the samplers do take such views)
            if isinstance(st, ast.Assign) and isinstance(st.targets[0], ast.Name) and is_store(st.value, node.id):
                n_alias += 1
            ck.ob("R7-store-writers", fq, f"stmt:{short(st, 50)}", bad is None, "does not write the stored priorities" if bad is None else bad,
                  "" if bad is None else f"{bad} mutates the stored priority array outside initialize_priority / update_priority: sampling (or another read-only operation) permanently changes the sampling distribution", loc(mi, st)) if (bad or (isinstance(st, (ast.Assign, ast.AugAssign)) and any(isinstance(x, ast.Name) and is_store(x, node.id) for x in ast.walk(st)))) else None
    ck.floor("functions-touching-priority", n_fn, 5)
    ck.count("views-of-stored-priorities", n_alias)



def r8_multitask(ck, repo, nf):
    """update_priority reaches the member the last batch came from: both receivers are self.buffers[<same recorded attribute>]."""
    MT = RB + "MultiTaskReplayBuffer"
    sb = _m(repo, MT, "sample_batch")
    up = _m(repo, MT, "update_priority")
    rs = _m(repo, MT, "reset_max_priority")
    mi = sb._module

    def member_calls(fn, meth):
        cfg = nf.cfg_of(fn)
        out = []
        for n, c in stmt_calls(cfg, lambda c: isinstance(c.func, ast.Attribute) and c.func.attr == meth):
            r = recv_canon(nf, cfg, fn._module, n, c)
            if r.startswith("self.buffers[") and r.endswith("]"):
                out.append((cfg, n, c, r[len("self.buffers["):-1]))
        return out
    s_calls = member_calls(sb, "sample_batch")
    u_calls = member_calls(up, "update_priority")
    ck.need(len(s_calls) == 1, f"{MT}.sample_batch: expected exactly one self.buffers[...].sample_batch call")
    ck.need(len(u_calls) >= 1, f"{MT}.update_priority: no self.buffers[...].update_priority call (unrecognised idiom)")
    scfg, sn, sc_, s_ix = s_calls[0]
    if not on_every_path_once(u_calls[0][0], [u[1].id for u in u_calls]):
        # path evidence: some path forwards to no member or to two
        ck.ob("R8-multitask-routing", MT + ".update_priority", "same-member-as-last-sample", False, f"update_priority -> {['self.buffers[' + u[3] + ']' for u in u_calls]}",
              "exactly one member must receive the new priorities on every path", loc(up._module, up))
        return
    ck.need(len({u[3] for u in u_calls}) == 1, f"{MT}.update_priority: different members on different paths (unrecognised form)")
    u_ix = u_calls[0][3]
    ck.need(u_ix.startswith("self.") and u_ix[5:].isidentifier(), f"{MT}.update_priority: member index `{u_ix}` is not a recorded attribute of self (unrecognised idiom)")
    # who writes the attribute update_priority indexes with (all methods the class uses, inherited ones included)
    writers = {}
    for c in repo.mro(MT):
        for meth in repo.cls(c).body:
            if isinstance(meth, ast.FunctionDef) and meth.name not in writers:
                ws = [st for st in ast.walk(meth) if isinstance(st, (ast.Assign, ast.AugAssign, ast.AnnAssign)) and any(dotted(t) == u_ix for t in _targets(st))]
                if ws:
                    writers[meth.name] = ws
    # value identity inside sample_batch, per path: the member sampled from is self.buffers[V] and the recorded attribute holds the same V there
    want_recv = parse_expr(f"self.buffers[{u_ix}]")
    seen, bad = set(), None
    for pth in enumerate_paths(scfg, scfg.entry, {sn.id}):
        pe = PathEval(nf, scfg, mi, MT + ".sample_batch", {}).run(pth[:-1])
        used = pe.ev(sc_.func.value)
        rec = pe.store.get(u_ix)
        recd = pe.ev(want_recv)
        sig = (used.canon(), rec.canon() if rec is not None else None)
        if sig in seen:
            continue
        seen.add(sig)
        if rec is None:
            # not recorded on this path: evidence when the attribute is known to come from elsewhere (another method writes it)
            others = sorted(k for k in writers if k != "sample_batch")
            if not others or "sample_batch" in writers:
                raise AnalysisError(f"{MT}.sample_batch: no assignment of {u_ix} read on a path to the member's sample_batch (unrecognised form)")
            bad = bad or f"sample_batch samples {used.canon()[:60]} and never records {u_ix} (written by {others}); update_priority -> self.buffers[{u_ix}]"
        elif used != recd:
            if _unread(used, recd):
                raise AnalysisError(f"{MT}.sample_batch: sampled member `{used.canon()[:80]}` / recorded `{rec.canon()[:80]}` (unrecognised form)")
            bad = bad or f"sample_batch samples {used.canon()[:70]} and records {u_ix} = {rec.canon()[:60]}; update_priority -> self.buffers[{u_ix}]"
    ck.need(seen, f"{MT}.sample_batch: no path to the member's sample_batch")
    ck.ob("R8-multitask-routing", MT + ".update_priority", "same-member-as-last-sample", bad is None,
          bad or f"sample_batch samples self.buffers[{s_ix[:60]}] and records it in {u_ix}; update_priority -> self.buffers[{u_ix}]",
          "" if bad is None else "the new priorities must go to the member buffer that produced the last batch (its sampled_indices): the index update_priority uses is not the one sample_batch sampled from", loc(up._module, up))
    # evidence: an operation the training loops run between sampling and the priority update overwrites the record
    between = ("add_sample", "select_task", "reset_max_priority", "reward_scale", "environment_terminates", "__len__")
    if any(k not in between + ("sample_batch", "__init__") for k in writers):
        raise AnalysisError(f"{MT}: {u_ix} is also written by {sorted(k for k in writers if k not in between + ('sample_batch', '__init__'))} (unrecognised form)")
    other = [f"{k}: {short(st, 60)}" for k, ws in writers.items() if k in between for st in ws]
    ck.ob("R8-multitask-routing", MT, "sampled-member-single-writer", not other, f"{u_ix} written only by sample_batch", "" if not other else f"{other} overwrites the record of the last sampled member", loc(mi, repo.cls(MT)))
    # every member's maximum is recomputed by reset_max_priority
    rcfg = nf.cfg_of(rs)
    rmi = rs._module
    calls = stmt_calls(rcfg, lambda c: isinstance(c.func, ast.Attribute) and c.func.attr == "reset_max_priority")
    unrec = AnalysisError(f"{MT}.reset_max_priority: iteration over the members not recognised")
    if not calls:
        # evidence only when the method does nothing at all
        if any(isinstance(x, ast.Call) for x in ast.walk(rs)):
            raise unrec
        good = False
    elif len(calls) == 1:
        n_, c_ = calls[0]
        r = recv_canon(nf, rcfg, rmi, n_, c_)
        loops_ = rcfg.enclosing_loops(n_.id)
        if not loops_ and r.startswith("self.buffers[") and not _unread(r):
            good = False    # one fixed member
        elif len(loops_) == 1 and rcfg.nodes[loops_[0]].kind == "for":
            lp_ = rcfg.nodes[loops_[0]]
            isc = Scope(rcfg, rmi, {}, MT)
            isc.inline_self_attrs = False
            it_ = nf.poly(lp_.ast.iter, isc, lp_.id).canon()
            over_all = {"self.buffers": "iter(self.buffers)", "list(self.buffers)": "iter(list(self.buffers))", "tuple(self.buffers)": "iter(tuple(self.buffers))", "enumerate(self.buffers)": "iter(enumerate(self.buffers))[1]",
                        "range(len(self.buffers))": "self.buffers[iter(range(len(self.buffers)))]"}
            if over_all.get(it_) == r and rcfg.control_deps(n_.id) == [(lp_.id, True)]:
                good = True
            else:
                raise unrec
        elif len(loops_) == 1 and isinstance(rcfg.nodes[loops_[0]].ast, ast.While):
            # counting loop  i = 0; while i < len(self.buffers): self.buffers[i].reset_max_priority(); i += 1
            lp_ = rcfg.nodes[loops_[0]]
            rv_, rat_ = _origin(rcfg, c_.func.value, n_.id)
            i_ = rv_.slice.id if isinstance(rv_, ast.Subscript) and dotted(rv_.value) == "self.buffers" and isinstance(rv_.slice, ast.Name) else None
            ds_ = rcfg.defs_of(rat_, i_) if i_ else []
            init_ = [d for d in ds_ if d.kind == "assign" and isinstance(d.value, ast.Constant) and d.value.value == 0 and type(d.value.value) is int and not rcfg.enclosing_loops(d.node)]
            step_ = [d for d in ds_ if d.kind == "aug" and isinstance(d.value, ast.AugAssign) and isinstance(d.value.op, ast.Add) and isinstance(d.value.value, ast.Constant) and d.value.value.value == 1 and rcfg.control_deps(d.node) == [(lp_.id, True)]]
            isc = Scope(rcfg, rmi, {}, MT)
            isc.inline_self_attrs = False
            isc.opaque_names = {i_} if i_ else set()
            simple = not any(isinstance(x, (ast.Break, ast.Continue, ast.Return)) for x in ast.walk(lp_.ast)) and not lp_.ast.orelse
            if i_ and len(ds_) == 2 and len(init_) == 1 and len(step_) == 1 and simple and rcfg.control_deps(n_.id) == [(lp_.id, True)] and rat_ == n_.id \
                    and nf.poly(lp_.ast.test, isc, lp_.id).canon() == f"Lt({i_}, len(self.buffers))" and rcfg.paths_avoiding(step_[0].node, n_.id, {lp_.id}) is None:
                good = True
            else:
                raise unrec
        else:
            raise unrec
    else:
        raise unrec
    ck.ob("R8-multitask-routing", MT + ".reset_max_priority", "all-members", good, "; ".join(short(c, 50) for _, c in calls) or "no member call", "" if good else "every member's maximum must be recomputed", loc(rmi, rs))


def _is_base_call(repo, mi, cq, c, meth) -> bool:
    """`super().meth(...)`, `super(C, self).meth(...)` or `Base.meth(self, ...)` for a base class of cq."""
    f = c.func
    if not (isinstance(f, ast.Attribute) and f.attr == meth):
        return False
    v = f.value
    if isinstance(v, ast.Call) and isinstance(v.func, ast.Name) and v.func.id == "super":
        return True
    if isinstance(v, (ast.Name, ast.Attribute)) and c.args and isinstance(c.args[0], ast.Name) and c.args[0].id == "self":
        r = repo.resolve_expr(mi, v)
        return r is not None and r in repo.mro(cq)[1:]
    return False


def _init_sites(repo, nf, cfg, mi, cq, site):
    """(node, slot expression) of every priority initialisation in a buffer method: calls of initialize_priority (argument bound by
    signature) and the inlined form  <priority store>[IDX] = <max priority>  (also through a local alias of the PriorityBuffer)."""
    pinit = _m(repo, RB + "PriorityBuffer", "initialize_priority")
    ip = [p_ for p_ in positional_params(pinit) if p_ != "self"][0]
    out = [(n, _bind(pinit, c, site).get(ip)) for n, c in stmt_calls(cfg, lambda c: isinstance(c.func, ast.Attribute) and c.func.attr == "initialize_priority")]
    sc_ = Scope(cfg, mi, {}, cq)
    sc_.inline_self_attrs = False
    for n_ in cfg.nodes:
        s_ = n_.ast
        if n_.kind == "stmt" and isinstance(s_, ast.Assign) and len(s_.targets) == 1 and isinstance(s_.targets[0], ast.Subscript) and not isinstance(s_.targets[0].slice, (ast.Slice, ast.Tuple)) \
                and nf.poly(s_.targets[0].value, sc_, n_.id).canon() == "self.priority.priority" and nf.poly(s_.value, sc_, n_.id).canon() == "self.priority.max_priority":
            out.append((n_, s_.targets[0].slice))
    return out


def r2_initialize(ck, repo, nf):
    """PriorityBuffer.initialize_priority: the store into the priority array, per path, is priority[<slot argument>] = max_priority."""
    PB = RB + "PriorityBuffer"
    fn = _m(repo, PB, "initialize_priority")
    mi = fn._module
    site = f"{PB}.initialize_priority"
    _need_no_own_calls(repo, PB, fn, site)
    cfgi = nf.cfg_of(fn)
    ps = [p_ for p_ in positional_params(fn) if p_ != "self"]
    ck.need(len(ps) >= 1, f"{site}: signature changed (anchor vanished)")
    ip = ps[0]
    IP = Poly.atom(ip, {ip}, {ip})
    want = nf.poly(parse_expr("self.max_priority"), Scope(None, mi, {}, PB), None)
    seen = set()
    for pth in enumerate_paths(cfgi, cfgi.entry, {cfgi.exit}):
        pe = PathEval(nf, cfgi, mi, site, {ip: IP})
        stores = []
        for nid, lab in pth[:-1]:
            nd = cfgi.nodes[nid]
            if nd.kind == "stmt" and isinstance(nd.ast, (ast.Assign, ast.AnnAssign)) and nd.ast.value is not None:
                for t in _targets(nd.ast):
                    if isinstance(t, ast.Subscript) and pe.ev(t.value).canon() == "self.priority":
                        ix = pe.ev(t.slice) if not isinstance(t.slice, (ast.Slice, ast.Tuple)) else None
                        stores.append((ix, pe.ev(nd.ast.value), nd.ast))
            elif nd.kind == "stmt" and isinstance(nd.ast, ast.AugAssign) and isinstance(nd.ast.target, ast.Subscript) and pe.ev(nd.ast.target.value).canon() == "self.priority":
                raise AnalysisError(f"{site}: `{short(nd.ast, 60)}` (unrecognised form)")
            pe.step(nid, lab)
        sig = tuple((ix.canon() if ix is not None else None, v.canon()) for ix, v, _ in stores)
        if sig in seen:
            continue
        seen.add(sig)
        if len(stores) != 1 or stores[0][0] is None:
            raise AnalysisError(f"{site}: {len(stores)} stores into the priority array on a path (unrecognised form)")
        ix, val, st = stores[0]
        ok = ix == IP and val == want
        if not ok:
            ev_ix = ix == IP or _evidence(nf, ix, IP)
            ev_val = val == want or (not _unread(val) and val.is_const()) or _evidence(nf, val, want)
            if not (ev_ix and ev_val):
                raise AnalysisError(f"{site}: `{short(st, 70)}` stores {val.canon()[:60]} at [{ix.canon()[:40]}] (unrecognised form)")
        ck.ob("R2-init-order", site, "max-priority", ok, short(st, 60), "" if ok else "a new transition must receive the current maximum priority at the given slot", loc(mi, fn))
    ck.need(seen, f"{site}: no path")
    return ip


def r2_lap(ck, repo, nf):
    """LAP: the slot initialised is the value of insert_idx *before* the base class advances it."""
    cq = RB + "LAP"
    fn = _m(repo, cq, "add_sample")
    mi = fn._module
    cfg = nf.cfg_of(fn)
    site = cq + ".add_sample"
    init = _init_sites(repo, nf, cfg, mi, cq, site)
    sup = stmt_calls(cfg, lambda c: _is_base_call(repo, mi, cq, c, "add_sample"))
    ck.need(len(init) == 1 and len(sup) == 1, f"{site}: expected one priority initialisation and one super().add_sample call (unrecognised idiom)")
    (ni, a), (ns, cs) = init[0], sup[0]
    unrec = AnalysisError(f"{site}: slot argument `{short(a) if a is not None else None}` not recognised")
    if a is None:
        raise unrec
    a0, at0 = _origin(cfg, a, ni.id)
    once = on_every_path_once(cfg, [ni.id])
    if dotted(a0) == "self.insert_idx":
        # the ring position is read at node at0: it must be read before the base add advances it (path evidence otherwise)
        pre = cfg.paths_avoiding(ns.id, at0, set()) is None and once
        how = short(a) if at0 == ni.id else f"{short(a)} = self.insert_idx (read {'before' if pre else 'after'} the base add)"
    elif a0 is cs:
        how = f"{short(a)} = result of super().add_sample"
        # the base class must then return the slot it wrote: decided by its return expression
        base = next((repo.method(b, "add_sample") for b in repo.mro(cq)[1:] if repo.method(b, "add_sample") is not None), None)
        ck.need(base is not None, f"{site}: base add_sample not found")
        bfn = base[1]
        bfn._module = repo.cls(base[0])._module
        bc = nf.cfg_of(bfn)
        rets = [m for m in bc.nodes if m.kind == "stmt" and isinstance(m.ast, ast.Return) and m.ast.value is not None]
        advs = [m for m in bc.nodes if m.kind == "stmt" and any(dotted(t) == "self.insert_idx" for t in _targets(m.ast))]
        pre = bool(rets) and bc.paths_avoiding(bc.entry, bc.exit, {m.id for m in rets}) is None and once
        for r in rets:
            r0, rat = _origin(bc, r.ast.value, r.id)
            if dotted(r0) == "self.insert_idx":
                if any(bc.paths_avoiding(ad.id, rat, set()) is not None for ad in advs):
                    pre = False     # read after the advance: names the next slot
            else:
                sc_ = Scope(bc, bfn._module, {}, base[0])
                sc_.inline_self_attrs = False
                rv = nf.poly(r.ast.value, sc_, r.id)
                if _unread(rv) or "insert_idx" in _tok(rv) or "current_len" not in _tok(rv):
                    raise AnalysisError(f"{site}: base add_sample returns `{rv.canon()[:80]}` (unrecognised form)")
                pre = False     # a function of the fill level only
        how += f" (base returns {[short(r.ast.value) for r in rets]})"
    else:
        sc_ = Scope(cfg, mi, {}, cq)
        sc_.inline_self_attrs = False
        av = nf.poly(a, sc_, ni.id)
        if _unread(av) or "insert_idx" in _tok(av) or "current_len" not in _tok(av):
            raise unrec
        pre = False   # the fill level names the written slot only while the buffer is filling
        how = short(a)
    ck.ob("R2-init-order", site, "init-before-advance", pre, f"initialize_priority({how})",
          "" if pre else "the priority must be initialised at the slot the transition is written to, i.e. the value of insert_idx *before* the ring advances (afterwards it names the next, stale slot; current_len - 1 is that slot only while the buffer is filling)", loc(mi, fn))


def r2_subtraj_per(ck, repo, nf):
    """subtrajectory PER: all slots returned by the base add are initialised."""
    cq = RB + "SubtrajectoryReplayBufferPER"
    fn = _m(repo, cq, "add_sample")
    mi = fn._module
    cfg = nf.cfg_of(fn)
    site = cq + ".add_sample"
    init = _init_sites(repo, nf, cfg, mi, cq, site)
    sup = stmt_calls(cfg, lambda c: _is_base_call(repo, mi, cq, c, "add_sample"))
    ck.need(len(init) == 1 and len(sup) == 1, f"{site}: expected one initialize_priority and one super().add_sample call (unrecognised idiom)")
    (ni, a), (ns, cs) = init[0], sup[0]
    unrec = AnalysisError(f"{site}: slot argument `{short(a) if a is not None else None}` not recognised")
    if a is None:
        raise unrec
    sc = Scope(cfg, mi, {}, cq)
    res = nf.poly(cs, sc, ns.id)
    got = nf.poly(a, sc, ni.id)
    a0, at0 = _origin(cfg, a, ni.id)
    if _unread(got, res):
        raise unrec
    if got == res and (a0 is cs or at0 == ns.id):
        whole = on_every_path_once(cfg, [ni.id])     # path evidence otherwise
        if not whole and cfg.enclosing_loops(ni.id):
            raise unrec
    else:
        whole = None
        # one initialisation per returned slot: `for slot in super().add_sample(..): initialize_priority(slot)`
        lps = [cfg.nodes[h] for h in cfg.enclosing_loops(ni.id)]
        for lp_ in lps[:1]:
            it_ = lp_.ast.iter if lp_.kind == "for" else None
            if it_ is not None and isinstance(lp_.ast.target, ast.Name) and isinstance(a0, ast.Name) and lp_.ast.target.id == a0.id:
                src_ok = _origin(cfg, it_, lp_.id)[0] is cs
                body_ok = cfg.control_deps(ni.id) and len(cfg.control_deps(ni.id)) == len(cfg.control_deps(lp_.id)) + 1
                if src_ok and body_ok:
                    whole = True
        if whole is None:
            # positive evidence: one fixed element of the returned list
            m_ = nf.meta.get(got.single_atom() or "", {})
            if m_.get("fn") in ("proj", "subscript") and m_.get("args") and m_["args"][0] == res and re.fullmatch(r"\[-?\d+\]", got.single_atom()[len(res.canon()):]):
                whole = False
            else:
                raise unrec
    ck.ob("R2-init-order", site, "init-returned-slots", whole, f"initialize_priority({short(a)}) <- {short(cs, 50)}",
          "" if whole else "all slots written by the addition (incl. the extra successor row) must receive the maximum priority", loc(mi, fn))


def r2_subtraj_slots(ck, repo, nf):
    """The list returned by the subtrajectory add names exactly the slots written: per path, the returned elements equal the values
    insert_idx held immediately before each advance (path evaluation over the entry state; aliases and helpers are transparent)."""
    cq = RB + "SubtrajectoryReplayBuffer"
    sfn = _m(repo, cq, "add_sample")
    mi = sfn._module
    site = cq + ".add_sample"
    _need_no_own_calls(repo, cq, sfn, site)
    scfg = nf.cfg_of(sfn)
    srets = [n for n in scfg.nodes if n.kind == "stmt" and isinstance(n.ast, ast.Return)]
    if not srets or any(r.ast.value is None for r in srets):
        raise AnalysisError(f"{site}: expected `return <written slots>` (unrecognised idiom)")
    returned = {x.id for r in srets for x in ast.walk(r.ast.value) if isinstance(x, ast.Name)}
    for n in scfg.nodes:
        for t in (_targets(n.ast) if n.kind == "stmt" else []):
            if isinstance(t, ast.Subscript) and isinstance(t.value, ast.Name) and t.value.id in returned:
                raise AnalysisError(f"{site}: `{short(n.ast, 60)}` changes an element of the returned list (unrecognised form)")
    load_idx = parse_expr("self.insert_idx")
    seen_sig, bad_sig = set(), []
    per_path = []
    for pth in enumerate_paths(scfg, scfg.entry, {r.id for r in srets}, max_paths=20000):
        ret_node = scfg.nodes[pth[-1][0]]
        pe = PathEval(nf, scfg, mi, "subtraj.add", {})
        written = []
        for nid, lab in pth[:-1]:
            nd = scfg.nodes[nid]
            if nd.kind == "stmt" and any(dotted(t) == "self.insert_idx" for t in _targets(nd.ast)):
                written.append(pe.ev(load_idx).canon())
            pe.step(nid, lab)
        # second reading of "the slots written": the ring positions at which the path stores into the storage dict (one advance by two after
        # both rows, a precomputed successor position ... do not matter).  Loops over the fields are enumerated with zero or one iteration,
        # so the positions are collected over all paths that return the same list.
        stored = {str(i_) for (_n, b_, i_, _v) in pe.effects if b_.startswith("self.buffer[") and i_ is not None}
        rv = pe.ev(ret_node.ast.value)
        got = []
        for mono, c in rv.terms.items():
            for a_, e_ in mono:
                if a_.startswith("(") and a_.endswith(")") and e_ == 1 and len(mono) == 1 and c.denominator == 1 and c > 0:
                    got += sem_split_args(a_[1:-1]) * int(c)      # a list display (a, b, ..): its elements
                else:
                    got.append(a_)
        per_path.append((tuple(sorted(got)), tuple(sorted(written)), stored, rv))
    stored_for = {}
    for got, _w, stored, _rv in per_path:
        stored_for.setdefault(got, set()).update(stored)
    for got, written, _st, rv in per_path:
        alt = tuple(sorted(stored_for[got]))
        if alt and not _unread(*alt) and got == alt:
            written = alt
        sig = (got, written)
        if sig in seen_sig:
            continue
        seen_sig.add(sig)
        if got != written:
            # evidence: the returned elements are ring positions (built from what the written slots are built from), only not the written ones
            allowed = set().union(*[_tok(w) for w in written], {"self", "insert_idx", "buffer_size", "mod"})
            if _unread(*got) or not all(_tok(g) <= allowed for g in got):
                raise AnalysisError(f"{site}: returned value `{rv.canon()[:100]}` is not a list of ring positions (unrecognised form)")
            bad_sig.append(sig)
    ok = not bad_sig and len(seen_sig) >= 2
    if len(seen_sig) < 2 and not bad_sig:
        raise AnalysisError(f"{site}: only {len(seen_sig)} distinct write pattern(s) found (expected: plain step and episode end)")
    ck.ob("R2-init-order", site, "inserted-at-is-written-slot", ok, f"returned slots per path == slots written: {sorted(seen_sig)[:3]}",
          "" if ok else f"on some path the returned slots {bad_sig[0][0]} differ from the slots written {bad_sig[0][1]}: a slot recorded after the advance is the next, unwritten one; an unrecorded slot keeps an uninitialised priority", loc(mi, sfn))


def _shifted_views(nf, p: Poly, k: Poly, n: Poly, scalars: set) -> Poly:
    """Read the two length-n views of a length-(n+1) grid: with s scalar, (arange(n + 1) * s)[:-1] == arange(n) * s and
    (arange(n + 1) * s)[1:] == (arange(n) + 1) * s, element by element (the same integer times the same scalar). `k` is arange(n);
    `scalars` are the atoms known to be scalars (the total priority mass, the batch size). Anything else is left as it stands."""
    for a in sorted(p.atoms()):
        m = nf.meta.get(a, {})
        if m.get("fn") != "subscript" or len(m.get("args", [])) != 1:
            continue
        base = m["args"][0]
        cut = a[len(base.canon()):] if a.startswith(base.canon()) else ""
        if cut not in ("[:-1]", "[1:]"):
            continue
        grids = [g for g in base.atoms() if nf.meta.get(g, {}).get("fn", "").split(".")[-1] == "arange"]
        if len(grids) != 1:
            continue
        mg = nf.meta[grids[0]]
        if len(mg.get("args", [])) != 1 or mg.get("kws") or mg["args"][0] != n + Poly.const(1):
            continue
        split = base.degree_split(grids[0])
        if set(split) != {1} or not split[1].atoms() <= scalars:
            continue
        p = p.subst_atom(a, (k if cut == "[:-1]" else k + Poly.const(1)) * split[1])
    return p


def r3_sampler(ck, repo, nf, field, cq, meth, fieldtxt, kind):
    """searchsorted(cumsum(P), U) with P = priority[:len] (* mask[:len]) and U uniform on [0, total) (stratified: one draw per segment).
    The roles current_len / batch_size / rng / mask are the positions of the recorded signature."""
    f = _m(repo, cq, meth)
    mi = f._module
    site = f"{cq}.{meth}"
    f0 = f
    if not any(isinstance(x, ast.Call) and isinstance(x.func, ast.Attribute) and x.func.attr == "searchsorted" for x in ast.walk(f)):
        f = _forwarded(repo, nf, f, cq, site) or f     # a forwarder is read like the sampler it calls, with its own arguments
    f = _read_spellings(repo, nf, f, cq) or f      # method / in-place spellings of the library calls
    if any(isinstance(x, ast.IfExp) for x in ast.walk(f)):
        f = split_conditional_assignments(f)     # `x = a if c else b` read as two paths
        f._module = mi
        nf.__dict__.setdefault("_c08_keep", []).append(f)
    c = nf.cfg_of(f)
    _need_no_local_mutation(c, f, site)
    ps = _roles(f)
    ck.need(len(ps) >= 5, f"{site}: signature changed (anchor vanished)")
    LEN, B, RNG, MASK = ps[1:5]
    rets_ = [n for n in c.nodes if n.kind == "stmt" and isinstance(n.ast, ast.Return)]
    ck.need(len(rets_) == 1, f"{site}: expected one return")
    retn = rets_[0]
    env_ = {p_: Poly.atom(p_, {p_}, {p_}) for p_ in ps}
    # a parameter added behind the recorded roles keeps its default at every call that does not pass it: the method is read under that
    # value (a repository call that does pass it is read where it stands: the forwarder above; any other such call is not read)
    a_ = f0.args
    dflt = dict(zip([x.arg for x in a_.posonlyargs + a_.args][len(a_.posonlyargs + a_.args) - len(a_.defaults):], a_.defaults))
    dflt.update({x.arg: d for x, d in zip(a_.kwonlyargs, a_.kw_defaults) if d is not None})
    for p_ in ps[5:]:
        if p_ not in dflt or not isinstance(dflt[p_], ast.Constant):
            raise AnalysisError(f"{site}: parameter `{p_}` behind the recorded roles has no constant default (unrecognised form)")
        env_[p_] = nf.poly(dflt[p_], Scope(None, mi, {}, site), None)
    if ps[5:]:
        _need_extra_params_unpassed(repo, nf, f0, cq, meth, ps[5:], site)
    spec_sc = Scope(None, mi, env_, site)

    def sp(txt):
        return nf.poly(parse_expr(txt), spec_sc, None)
    U01 = Poly.atom("u01")
    n_masked = 0
    seen = set()
    for pth in enumerate_paths(c, c.entry, {retn.id}):
        pe = PathEval(nf, c, mi, site, env_)
        masked = None
        dead = False
        for nid, lab in pth[:-1]:
            nd = c.nodes[nid]
            if nd.kind == "test" and lab in (True, False) and hasattr(nd.ast, "test"):
                tv_ = pe.ev(nd.ast.test)
                mt_ = nf.meta.get(tv_.single_atom() or "", {})
                if mt_.get("fn") in ("Is", "IsNot") and len(mt_.get("args", [])) == 2 and all(x.canon() == "None" for x in mt_["args"]):
                    tv_ = Poly.const(1 if mt_["fn"] == "Is" else 0)     # `None is None`: the forwarder passes no mask
                if tv_.is_const() and not _unread(tv_):
                    # a test on a known constant (a flag at its default, a literal passed by the forwarder): one arm only
                    if (tv_ != Poly.const(0)) != lab:
                        dead = True
                        break
                    pe.step(nid, lab)
                    continue
                t_ = tv_.canon()
                for l_ in (_flatten_and(t_) if lab else ([_negate(t_)] if len(_flatten_and(t_)) == 1 else [])):
                    if l_ == f"IsNot({MASK}, None)":
                        masked = True
                    elif l_ == f"Is({MASK}, None)":
                        masked = False
            pe.step(nid, lab)
        if dead:
            continue
        val = pe.ev(retn.ast.value)
        if val.canon() in pe.store:
            val = pe.store[val.canon()]
        if masked is None:
            if any(isinstance(x, ast.Name) and x.id == MASK and isinstance(x.ctx, ast.Load) for x in ast.walk(f)):
                raise AnalysisError(f"{site}: a path that does not decide whether `{MASK}` is given (unrecognised form)")
            masked = False
        if (masked, val.canon()) in seen:
            continue
        seen.add((masked, val.canon()))
        n_masked += int(masked)
        tag = "masked" if masked else "unmasked"
        m_ = nf.meta.get(val.single_atom() or "", {})
        if m_.get("fn", "").split(".")[-1] != "searchsorted" or set(m_.get("kws", {})) - {"a", "v", "side"} or ("side" in m_.get("kws", {}) and m_["kws"]["side"].canon() != "'left'"):
            raise AnalysisError(f"{site}: returned indices `{val.canon()[:100]}` are not searchsorted(cumulative, draws) (unrecognised idiom)")
        sa = list(m_.get("args", []))
        C = sa[0] if len(sa) >= 1 else m_["kws"].get("a")
        U = sa[1] if len(sa) >= 2 else m_["kws"].get("v")
        if C is None or U is None or len(sa) > 2:
            raise AnalysisError(f"{site}: returned indices `{val.canon()[:100]}` are not searchsorted(cumulative, draws) (unrecognised idiom)")
        Psrc = f"{fieldtxt}[:{LEN}] * {MASK}[:{LEN}]" if masked else f"{fieldtxt}[:{LEN}]"
        wantP = sp(Psrc)
        mc = nf.meta.get(C.single_atom() or "", {})
        if mc.get("fn", "").split(".")[-1] != "cumsum" or len(mc.get("args", [])) != 1 or any(k_ != "axis" or v_.canon() not in ("0", "-1", "None") for k_, v_ in mc.get("kws", {}).items()):
            # evidence only when the searched array is the stored priorities themselves (possibly sliced / masked), i.e. no cumulative
            # sum anywhere in it; a cache, an attribute or any other unread value is undecided
            if _unread(C) or not _tok(C) <= {"self", "priority", MASK, LEN}:
                raise AnalysisError(f"{site}: searchsorted searches `{C.canon()[:80]}`, whose construction is not read (a cache or derived attribute): unrecognised form")
            ck.ob("R3-sampler-form", site, f"inverse-cdf:{tag}", False, f"searchsorted({C.canon()[:80]}, ...)", "the first argument of searchsorted must be the cumulative sum of the (masked) priorities: searching the raw priorities is not an inverse-CDF draw", loc(mi, f))
            continue
        P = mc["args"][0]
        filled = sp(f"{fieldtxt}[:{LEN}]").single_atom()
        mslice = sp(f"{MASK}[:{LEN}]").single_atom()
        if filled not in P.atoms():
            why = f"the distribution is built from `{P.canon()[:80]}`, not from the first {LEN} stored priorities: entries beyond the filled region can be drawn"
        elif masked and mslice not in P.atoms():
            why = f"on the masked path the priorities are not multiplied by {MASK}[:{LEN}] (`{P.canon()[:80]}`): masked-out entries keep a positive probability"
        else:
            why = f"the distribution `{P.canon()[:80]}` is not the (masked) filled priorities"
        _decide(ck, nf, "R3-sampler-form", site, f"distribution:{tag}", P, wantP, f"P = {P.canon()[:90]}", why, loc(mi, f))
        # draws: U == rest * rng.uniform(low, high, size) read as rest * (low + (high - low) * u), u ~ U[0, 1)
        draws = [a_ for a_ in U.atoms() if nf.meta.get(a_, {}).get("fn") in (f"{RNG}.uniform", f"{RNG}.random")]
        unrecU = AnalysisError(f"{site}: draws `{U.canon()[:100]}` not recognised")
        if len(draws) != 1:
            raise unrecU
        split = U.degree_split(draws[0])
        if 1 not in split or set(split) - {0, 1}:
            raise unrecU
        rest, shift = split[1], split.get(0, Poly.const(0))
        md = nf.meta[draws[0]]
        names = ["low", "high", "size"] if md["fn"].endswith(".uniform") else ["size"]
        if len(md["args"]) > len(names) or set(md["kws"]) - set(names) or set(names[:len(md["args"])]) & set(md["kws"]):
            raise unrecU
        b = dict(zip(names, md["args"]))
        b.update(md["kws"])
        low, high, size = b.get("low", Poly.const(0)), b.get("high", Poly.const(1)), b.get("size")
        total = sp(f"np.cumsum({Psrc})[-1]")
        BP = env_[B]
        if kind == "plain":
            if size is None or size != BP or "arange" in _tok(low) | _tok(high):
                raise unrecU
            gotU = shift + rest * (low + (high - low) * U01)
            _decide(ck, nf, "R3-sampler-form", site, f"uniform-over-total:{tag}", gotU, total * U01, f"U = {U.canon()[:90]}",
                    f"the uniform draws do not cover [0, total priority mass) ({U.canon()[:80]}): the tail of the distribution is never (or always) drawn", loc(mi, f))
        else:
            k = sp(f"np.arange({B})")
            low, high = (_shifted_views(nf, x_, k, BP, total.atoms() | BP.atoms()) for x_ in (low, high))
            if not ((size is not None and size == BP) or (size is None and "arange" in _tok(low) and "arange" in _tok(high))) or (shift.terms and "arange" in _tok(low) | _tok(high)):
                raise unrecU
            seg = total * BP.inv()
            gotU = shift + rest * (low + (high - low) * U01)
            _decide(ck, nf, "R3-sampler-form", site, f"stratified-segments:{tag}", gotU, k * seg + seg * U01, f"U = {U.canon()[:110]}",
                    "expected one uniform draw per segment [k*total/B, (k+1)*total/B): the segments do not tile [0, total)", loc(mi, f))
    if not seen:
        raise AnalysisError(f"{site}: no path to the return is enabled (unrecognised form)")
    if n_masked == 0:
        if any(isinstance(x, ast.Name) and x.id == MASK and isinstance(x.ctx, ast.Load) for x in ast.walk(f)):
            raise AnalysisError(f"{site}: no path on which `{MASK}` is known to be given (unrecognised form)")
        ck.ob("R3-sampler-form", site, "distribution:masked", False, f"`{MASK}` is never read", "masked-out entries keep a positive probability: the mask is ignored", loc(mi, f))
    # the indices returned are the ones recorded for update_priority (same value: compared as normal forms through local names)
    rv = retn.ast.value
    rec = [n for n in c.nodes if n.kind == "stmt" and any(isinstance(t, ast.Attribute) and t.attr == field for t in _targets(n.ast))]
    if not rec:
        raise AnalysisError(f"{site}: no assignment of `{field}` in the sampler (recorded elsewhere: unrecognised form)")
    fsc = Scope(c, mi, {}, site)
    fsc.inline_self_attrs = False
    got_r = nf.poly(rv, fsc, retn.id)
    recs = [nf.poly(n.ast.value, fsc, n.id) for n in rec]
    rec_names = set()
    for n in rec:
        for t in _targets(n.ast):
            if isinstance(t, ast.Attribute) and t.attr == field:
                rec_names.add(nf.poly(t, fsc, n.id).canon())
    okr = any(got_r == r_ for r_ in recs) or got_r.canon() in rec_names
    if not okr and not _evidence(nf, got_r, recs):
        raise AnalysisError(f"{site}: returned indices `{got_r.canon()[:80]}` cannot be related to the recorded ones (unrecognised form)")
    ck.ob("R3-sampler-form", site, "returns-recorded-indices", okr, f"return {short(rv)}; recorded by {[short(n.ast, 50) for n in rec]}", "" if okr else "the indices returned must be the ones recorded for update_priority", loc(mi, f))


def r9_derived_state(ck, repo, nf, cq, meth, fieldtxt, done):
    """A cumulative distribution kept between calls.  Facts read per path of the sampler: (1) on some path the sampler stores, in an
    attribute A of the PriorityBuffer object, a value computed from the stored priorities; (2) on another path the array searched is A as
    it was at entry (computed by an earlier call), and the tests that enable this path read the object attributes G (and call
    arguments).  Then every method that stores into the priority array must, on every path that does so, also assign A or one of G:
    a writer that leaves them all untouched cannot be noticed by the reuse test, so with the same call arguments (a full ring: the
    length no longer changes) the next draw follows the distribution computed before the write."""
    PB = RB + "PriorityBuffer"
    f = _m(repo, cq, meth)
    mi = f._module
    site = f"{cq}.{meth}"
    f = _read_spellings(repo, nf, f, cq) or f
    obj = fieldtxt[:-len("priority")]      # "self." inside the PriorityBuffer, "self.priority." in a buffer that holds one
    c = nf.cfg_of(f)
    rets_ = [n for n in c.nodes if n.kind == "stmt" and isinstance(n.ast, ast.Return) and n.ast.value is not None]
    if len(rets_) != 1:
        return
    retn = rets_[0]
    env_ = {p_: Poly.atom(p_, {p_}, {p_}) for p_ in _roles(f)}
    attr_of = re.compile(re.escape(obj) + r"([A-Za-z_]\w*)")
    derived, reuse = {}, []
    for pth in enumerate_paths(c, c.entry, {retn.id}):
        pe = PathEval(nf, c, mi, site, env_)
        lits = []
        for nid, lab in pth[:-1]:
            nd = c.nodes[nid]
            if nd.kind == "test" and lab in (True, False) and hasattr(nd.ast, "test"):
                t_ = pe.ev(nd.ast.test).canon()
                lits.append(t_ if lab else _negate(t_))
            pe.step(nid, lab)
        val = pe.ev(retn.ast.value)
        if val.canon() in pe.store:
            val = pe.store[val.canon()]
        m_ = nf.meta.get(val.single_atom() or "", {})
        if m_.get("fn", "").split(".")[-1] != "searchsorted" or not m_.get("args"):
            continue
        for k_, v_ in pe.store.items():
            ma_ = attr_of.fullmatch(k_)
            if ma_ and k_ != fieldtxt and not _unread(v_) and fieldtxt in v_.canon():
                derived[ma_.group(1)] = v_
        a_ = m_["args"][0].single_atom() or ""
        ma_ = attr_of.fullmatch(a_)
        if ma_ and a_ != fieldtxt and a_ not in pe.store:
            reuse.append((ma_.group(1), frozenset(x for l_ in lits for x in attr_of.findall(l_)), tuple(lits)))
    reuse = [r_ for r_ in reuse if r_[0] in derived]
    ck.count(f"derived-state-reuse-paths:{meth}", len(reuse))
    if not reuse:
        return
    # the methods of the PriorityBuffer that store into the priority array, and every other assignment of A / G in the package
    writers, assigns = [], {}
    transparent = repo.transparent_helpers()      # helpers every call of which was expanded in place: their bodies are read where they are called
    for fq, g, gmi in repo.all_functions():
        if not fq.startswith("rl_blox.") or fq in transparent:
            continue
        in_pb = fq.startswith(PB + ".") and fq.count(".") == PB.count(".") + 1
        for st in ast.walk(g):
            for t in (_targets(st) if isinstance(st, (ast.Assign, ast.AugAssign, ast.AnnAssign)) else []):
                if isinstance(t, ast.Attribute):
                    assigns.setdefault(t.attr, []).append((fq, g, st))
                if in_pb and isinstance(t, ast.Subscript) and dotted(t.value) == "self.priority" and (fq, g) not in writers:
                    writers.append((fq, g))
            if in_pb and isinstance(st, ast.Call) and isinstance(st.func, ast.Name) and st.func.id == "setattr":
                raise AnalysisError(f"{site}: `{short(st, 60)}` in {fq} assigns an attribute by name (unrecognised form)")
    writer_q = {w[0] for w in writers}
    roles_ = _roles(f)
    caller_chosen = set(roles_) - {"self"} - set(roles_[1:2]) - set(roles_[4:5])      # every parameter except the filled length and the mask
    for A, G, lits in dict.fromkeys(reuse):
        watch = {A} | set(G)
        asked = sorted(caller_chosen & set().union(*[_tok(l_) for l_ in lits])) if lits else []
        if asked:
            # the caller decides when the kept distribution may be used again: whether it does so only between writes is a fact about the callers
            raise AnalysisError(f"{site}: the reuse of `{A}` is requested through the argument(s) {asked}; the callers' protocol is not read (unrecognised form)")
        # an invalidation made outside the writers (a method the callers of a writer are expected to call) is not read
        for x in sorted(watch - {"priority"}):
            for fq, g, st in assigns.get(x, []):
                nm = fq.rsplit(".", 1)[-1]
                # a function that reads the priorities and assigns a computed value: the computation of the kept state itself (the sampler of
                # another class, a helper); an invalidation assigns a constant (None, a flag) or bumps a counter
                recompute = isinstance(st, (ast.Assign, ast.AnnAssign)) and st.value is not None and not isinstance(st.value, ast.Constant) \
                    and any(isinstance(y, ast.Attribute) and y.attr == "priority" and isinstance(y.ctx, ast.Load) for y in ast.walk(g))
                if nm in ("__init__", "__setstate__") or fq in writer_q or fq == site or recompute:
                    continue
                raise AnalysisError(f"{site}: `{x}` (read by the test that reuses `{A}`) is also assigned in {fq}, whose callers are not read (unrecognised form)")
        for fq, g in writers:
            nm = fq.rsplit(".", 1)[-1]
            if nm in ("__init__", "__setstate__") or (fq, A) in done:
                continue
            done.add((fq, A))
            g._module = getattr(g, "_module", mi)
            _need_no_own_calls(repo, PB, g, fq)
            gc = nf.cfg_of(g)
            genv = {p_: Poly.atom(p_, {p_}, {p_}) for p_ in _roles(g)}
            bad = None
            n_paths = 0
            for pth in enumerate_paths(gc, gc.entry, {gc.exit}):
                pe = PathEval(nf, gc, g._module, fq, genv)
                pe.run(pth[:-1])
                wrote = any(b_ == "self.priority" for (_n, b_, _i, _v) in pe.effects) or any(k_.startswith("self.priority[") for k_ in pe.store)
                if not wrote:
                    continue
                n_paths += 1
                touched = {k_[5:] for k_ in pe.store if k_.startswith("self.") and k_[5:].isidentifier()}
                if "priority" in watch or touched & watch:
                    continue
                bad = bad or f"stores into the priority array and assigns none of {sorted(watch)}"
            if n_paths == 0:
                raise AnalysisError(f"{fq}: the store into the priority array lies on no enumerated path (unrecognised form)")
            ck.ob("R9-derived-state", fq, f"refreshes:{A}", bad is None, f"`{obj}{A}` is computed from the priorities by {meth} and reused when {list(lits)}" + (f"; {nm} {bad}" if bad else f"; {nm} assigns one of {sorted(watch)} on every path that writes a priority"),
                  "" if bad is None else f"{meth} keeps a distribution computed from the stored priorities in `{A}` and searches it again whenever {list(lits)} holds; {nm} changes a stored priority and leaves `{A}` and everything that test reads "
                  f"({sorted(watch)}) as they were, so with the same arguments (a full ring buffer: the length no longer changes) the next batch is drawn from the distribution before the write: a newly added / re-prioritised transition is "
                  "not drawn in proportion to its priority", loc(g._module, g))


def r3_subtraj_masked(ck, repo, nf):
    """subtrajectory PER passes its mask and the filled length."""
    PB = RB + "PriorityBuffer"
    cq = RB + "SubtrajectoryReplayBufferPER"
    fn = _m(repo, cq, "_sample_idx")
    mi = fn._module
    site = cq + "._sample_idx"
    cfgp = nf.cfg_of(fn)
    sc_ = stmt_calls(cfgp, lambda c: isinstance(c.func, ast.Attribute) and c.func.attr == "prioritized_sampling")
    ck.need(len(sc_) == 1, f"{site}: expected one prioritized_sampling call (unrecognised idiom)")
    ps = _m(repo, PB, "prioritized_sampling")
    pps = _roles(ps)
    ck.need(len(pps) >= 5, f"{PB}.prioritized_sampling: signature changed (anchor vanished)")
    LEN, MASK = pps[1], pps[4]
    b = _bind(ps, sc_[0][1], site)
    sc = Scope(cfgp, mi, {}, cq)
    mval = nf.poly(b[MASK], sc, sc_[0][0].id) if MASK in b else None
    lval = _len_of_self(repo, nf, cq, nf.poly(b[LEN], sc, sc_[0][0].id)) if LEN in b else None
    wm, wl = nf.poly(parse_expr("self.mask_"), Scope(None, mi, {}, cq), None), nf.poly(parse_expr("self.current_len"), Scope(None, mi, {}, cq), None)
    if lval is None:
        raise AnalysisError(f"{site}: `{LEN}` not passed (unrecognised form)")
    # an absent mask is the callee's default (None): positive evidence; any other value needs the documented ingredients
    if mval is not None and mval != wm and mval.canon() != "None" and not _evidence(nf, mval, wm):
        raise AnalysisError(f"{site}: mask argument `{mval.canon()[:80]}` (unrecognised form)")
    if lval != wl and not _evidence(nf, lval, wl, ("buffer_size", "insert_idx")):
        raise AnalysisError(f"{site}: length argument `{lval.canon()[:80]}` (unrecognised form)")
    ok = mval == wm and lval == wl
    ck.ob("R3-sampler-form", site, "masked", ok, f"prioritized_sampling({LEN} <- {lval.canon()}, {MASK} <- {mval.canon() if mval is not None else None})", "" if ok else "masked-out start indices must get zero probability: the sampler needs current_len and mask_", loc(mi, fn))


def r4_update(ck, repo, nf, field):
    """PriorityBuffer.update_priority, per path: priority[<field>] = new and max_priority' = max(max(new), max_priority)."""
    PB = RB + "PriorityBuffer"
    fn = _m(repo, PB, "update_priority")
    mi = fn._module
    site = PB + ".update_priority"
    _need_no_own_calls(repo, PB, fn, site)
    cfgu = nf.cfg_of(fn)
    ps = [p_ for p_ in positional_params(fn) if p_ != "self"]
    ck.need(len(ps) >= 1, f"{site}: signature changed (anchor vanished)")
    pp = ps[0]
    PP = Poly.atom(pp, {pp}, {pp})
    envu = {pp: PP}
    allp = enumerate_paths(cfgu, cfgu.entry, {cfgu.exit})
    ck.need(allp, f"{site}: no path")
    OLDP = nf.poly(parse_expr("self.max_priority"), Scope(None, mi, envu, "u"), None)
    OLD = OLDP.canon()
    FIELD = nf.poly(parse_expr(f"self.{field}"), Scope(None, mi, envu, "u"), None)

    def is_bm(p):
        m_ = nf.meta.get(p.single_atom() or "", {})
        return m_.get("fn", "").split(".")[-1] in ("max", "amax") and len(m_.get("args", [])) == 1 and not m_.get("kws") and m_["args"][0] == PP

    def is_joint(p):
        m_ = nf.meta.get(p.single_atom() or "", {})
        a_ = m_.get("args", [])
        return m_.get("fn", "").split(".")[-1] in ("max", "maximum") and len(a_) == 2 and not m_.get("kws") and ((a_[0] == OLDP and is_bm(a_[1])) or (a_[1] == OLDP and is_bm(a_[0])))

    def relation(txt, lab):
        """what a branch condition says about (batch maximum, tracked maximum): 'old' / 'new' is the larger one, None: something else"""
        m_ = nf.meta.get(txt, {})
        if m_.get("fn") not in ("Lt", "LtE") or len(m_.get("args", [])) != 2:
            return None
        lo, hi = m_["args"] if lab else m_["args"][::-1]      # lo <(=) hi holds on this branch
        if is_bm(lo) and hi == OLDP:
            return "old"
        if lo == OLDP and is_bm(hi):
            return "new"
        return None
    seen_sig = set()
    for pth in allp:
        pe = PathEval(nf, cfgu, mi, site, envu)
        rels, lits = [], []
        stores = []
        for nid, lab in pth[:-1]:
            nd = cfgu.nodes[nid]
            if nd.kind == "test" and lab in (True, False) and hasattr(nd.ast, "test"):
                t_ = pe.ev(nd.ast.test).canon()
                lits.append(t_ if lab else _negate(t_))
                rels.append(relation(t_, lab))
            if nd.kind == "stmt" and isinstance(nd.ast, (ast.Assign, ast.AnnAssign, ast.AugAssign)):
                for t in _targets(nd.ast):
                    if isinstance(t, ast.Subscript) and pe.ev(t.value).canon() == "self.priority":
                        if isinstance(nd.ast, ast.AugAssign) or isinstance(t.slice, (ast.Slice, ast.Tuple)):
                            raise AnalysisError(f"{site}: `{short(nd.ast, 60)}` (unrecognised form)")
                        stores.append((pe.ev(t.slice), pe.ev(nd.ast.value), nd.ast))
            pe.step(nid, lab)
        newmax = pe.store.get(OLD, OLDP)
        sig = (tuple((i_.canon(), v_.canon()) for i_, v_, _ in stores), newmax.canon(), tuple(sorted(lits)))
        if sig in seen_sig:
            continue
        seen_sig.add(sig)
        if len(stores) != 1:
            raise AnalysisError(f"{site}: {len(stores)} stores into the priority array on a path (unrecognised form)")
        ix, val, st = stores[0]
        ok1 = ix == FIELD and val == PP
        if not ok1:
            ev_ix = ix == FIELD or _evidence(nf, ix, FIELD)
            ev_val = val == PP or (not _unread(val) and val.is_const()) or _evidence(nf, val, PP)
            if not (ev_ix and ev_val):
                raise AnalysisError(f"{site}: `{short(st, 70)}` stores {val.canon()[:60]} at [{ix.canon()[:40]}] (unrecognised form)")
        ck.ob("R4-bookkeeping", site, "writes-batch", ok1, f"self.priority[{ix.canon()}] = {val.canon()}", "" if ok1 else "must set exactly the last sampled entries to the supplied priorities", loc(mi, fn))
        # the tracked maximum: decided by the value and the branch conditions of this path
        unrec = AnalysisError(f"{site}: new max_priority `{newmax.canon()[:80]}` under {lits} not recognised")
        why = ""
        if is_joint(newmax):
            ok2 = True
        elif newmax == OLDP:
            # keeping the old value is right when it is known to be the larger one
            if "old" in rels:
                ok2 = True
            elif "new" in rels or not lits:
                ok2, why = False, "max_priority is not raised on a path where the new priorities may exceed it: later transitions get an initial priority below stored ones"
            else:
                raise unrec
        elif is_bm(newmax):
            if "new" in rels:
                ok2 = True
            elif "old" in rels or not lits:
                ok2, why = False, f"max_priority becomes `{newmax.canon()}`, which can be smaller than priorities stored earlier: the tracked maximum must never decrease in an update"
            else:
                raise unrec
        else:
            raise unrec
        ck.ob("R4-bookkeeping", site, "raises-max", ok2, f"max_priority' = {newmax.canon()}" + (f" under {lits}" if lits else ""), why, loc(mi, fn))


def r4_reset(ck, repo, nf):
    PB = RB + "PriorityBuffer"
    fn = _m(repo, PB, "reset_max_priority")
    mi = fn._module
    cfgr = nf.cfg_of(fn)
    ps = [p_ for p_ in positional_params(fn) if p_ != "self"]
    ck.need(len(ps) >= 1, f"{PB}.reset_max_priority: signature changed (anchor vanished)")
    lp = ps[0]
    ws = [n for n in cfgr.nodes if n.kind == "stmt" and any(dotted(t) == "self.max_priority" for t in _targets(n.ast))]
    ck.need(len(ws) >= 1, f"{PB}.reset_max_priority: no assignment of max_priority")
    envr = {p_: Poly.atom(p_, {p_}, {p_}) for p_ in ps}
    filled = nf.poly(parse_expr(f"self.priority[:{lp}]"), Scope(None, mi, envr, PB), None)
    pending = []      # forms that are not read: reported as undecided only after every path has been looked at (a definite finding on another path stands)
    n_ob = 0
    for w_ in ws:
        if not isinstance(w_.ast, (ast.Assign, ast.AnnAssign)) or len(_targets(w_.ast)) != 1:
            raise AnalysisError(f"{PB}.reset_max_priority: `{short(w_.ast, 60)}` (unrecognised form)")
        g = guard_literals(nf, cfgr, mi, w_.id)
        nonempty = (sem_spec(nf, mi, f"{lp} > 0"), sem_spec(nf, mi, f"{lp} >= 1"), sem_spec(nf, mi, f"{lp} != 0"), lp)
        okg = all(x in nonempty for x in g)
        seen_v = set()
        for path in enumerate_paths(cfgr, cfgr.entry, {w_.id}):
            pe = PathEval(nf, cfgr, mi, PB, envr)
            lits = []
            for nid_, lab_ in path[:-1]:
                nd_ = cfgr.nodes[nid_]
                if nd_.kind == "test" and lab_ in (True, False) and hasattr(nd_.ast, "test"):
                    t_ = pe.ev(nd_.ast.test).canon()
                    lits += _flatten_and(t_) if lab_ else [_negate(t_)]
                pe.step(nid_, lab_)
            val = pe.ev(w_.ast.value)
            v = val.canon()
            if v in seen_v:
                continue
            seen_v.add(v)
            # the guard in the state of the path: "the filled region is not empty", said of the length or of the filled slice (through locals)
            envg = dict(envr)
            nonempty_p = {sem_spec(nf, mi, t_, envg) for t_ in (f"{lp} > 0", f"{lp} >= 1", f"{lp} != 0", lp, f"len(self.priority[:{lp}]) > 0", f"len(self.priority[:{lp}]) >= 1",
                                                                 f"len(self.priority[:{lp}]) != 0", f"len(self.priority[:{lp}])", f"self.priority[:{lp}].size > 0", f"self.priority[:{lp}].size")}
            okg_p = okg or all(x in nonempty_p for x in lits)
            m_ = nf.meta.get(val.single_atom() or "", {})
            arg = m_["args"][0] if m_.get("fn", "").split(".")[-1] in ("max", "amax", "nanmax") and len(m_.get("args", [])) == 1 and not m_.get("kws") else None
            okv = arg is not None and arg == filled
            why = ""
            if not okv:
                fa = filled.single_atom()
                ma = nf.meta.get(arg.single_atom() or "", {}) if arg is not None else {}
                sel = arg.single_atom()[len(filled.canon()):] if ma.get("fn") == "subscript" and ma.get("args") and ma["args"][0] == filled else None
                if arg is not None and not _unread(arg) and fa is not None and fa in arg.atoms() and all(fa in dict(mono) and dict(mono)[fa] == 1 for mono in arg.terms):
                    why = f"the maximum is taken over `{arg.canon()[:80]}`, the filled priorities multiplied by another factor (a mask): a stored priority that the factor hides is larger than the recomputed maximum, so later transitions start below it"
                elif arg is not None and not _unread(arg) and "self.priority" in arg.atoms() and fa not in arg.atoms():
                    why = f"the maximum is taken over `{v}`: slots beyond the filled region hold uninitialised memory"
                elif sel is not None and not _unread(arg) and _is_data_selection(sel, _tok(filled)):
                    why = (f"the maximum is taken over the selection `{sel[:60]}` of the filled priorities, chosen by data other than the priorities themselves (a mask): "
                           "a stored priority outside the selection can be larger than the recomputed maximum, so the tracked maximum falls below a stored priority")
                else:
                    pending.append(f"{PB}.reset_max_priority: new value `{v}` not recognised")
                    continue
            elif not okg_p:
                pending.append(f"{PB}.reset_max_priority: guard {lits or g} not recognised")
                continue
            n_ob += 1
            ck.ob("R4-bookkeeping", PB + ".reset_max_priority", "true-maximum" if n_ob == 1 else f"true-maximum:{n_ob}", okv and okg_p, f"max_priority = {v[:100]} under {lits or g}", why, loc(mi, fn))
    if pending:
        raise AnalysisError("; ".join(dict.fromkeys(pending)))


_CMP_HEADS = ("Lt(", "LtE(", "Gt(", "GtE(", "NotEq(", "Eq(", "nonzero(", "flatnonzero(", "astype(", "not(", "logical_not(", "invert(")


def _is_data_selection(sel: str, priority_tokens: set) -> bool:
    """The index text `[..]` of a subscript is an element selection (a comparison / boolean conversion / nonzero positions) computed from
    data that is not the priorities: which elements are kept does not depend on how large they are, so the kept ones need not contain
    the largest.  (`p[p > 0]` keeps the maximum and is not such a selection.)"""
    if not (sel.startswith("[") and sel.endswith("]")):
        return False
    inner = sel[1:-1]
    if _top(inner).count(",") or not inner.startswith(_CMP_HEADS):
        return False
    toks = set(_IDENT.findall(inner))
    heads = {h[:-1] for h in _CMP_HEADS} | {"bool", "bool_", "np", "numpy", "None", "True", "False"}
    data = toks - heads - {"self"}
    return bool(data) and "priority" not in toks and not (data <= (priority_tokens - {"self", "priority"}))


def _norm_pow(nf, p: Poly, depth: int = 0) -> Poly:
    """One spelling for powers with a symbolic exponent: pow(A, -e) is pow(1/A, e) (the exponent's leading coefficient is made positive),
    also inside the argument of a maximum."""
    if depth > 6 or p.elems is not None:
        return p
    mapping = {}
    for a in p.atoms():
        m_ = nf.meta.get(a, {})
        fn_ = m_.get("fn", "").split(".")[-1]
        args = m_.get("args", [])
        if fn_ == "pow" and len(args) == 2 and not m_.get("kws"):
            A, E = _norm_pow(nf, args[0], depth + 1), _norm_pow(nf, args[1], depth + 1)
            lead = sorted(E.terms.items(), key=lambda kv: (len(kv[0]), kv[0]))[0][1] if E.terms else 1
            if lead < 0:
                A, E = A.inv(), -E
            q = nf._pow(A, E)
            if q.canon() != a:
                mapping[a] = q
        elif fn_ in ("max", "amax") and len(args) == 1 and not m_.get("kws"):
            A = _norm_pow(nf, args[0], depth + 1)
            if A != args[0]:
                mapping[a] = nf._mkcall("max", [A], {})
    return p.subst(mapping) if mapping else p


def r5_priority_formula(ck, repo, nf, q, builder, extra):
    f = repo.func(q)
    mi = f._module
    ps = _roles(f)
    ck.need(len(ps) >= 3, f"{q}: signature changed (anchor vanished)")
    env = {p: Poly.atom(p, {p}, {p}) for p in param_names(f)}
    got = nf.return_poly(q, env)
    want = nf.poly(parse_expr(builder(*ps[:3])), Scope(None, mi, env, q), None)
    if got != want:
        # a case split written with where(a < b, X, Y) is read branch by branch against the documented maximum
        m_ = nf.meta.get(got.single_atom() or "", {})
        mc = nf.meta.get(m_["args"][0].single_atom() or "", {}) if m_.get("fn", "").split(".")[-1] == "where" and len(m_.get("args", [])) == 3 and not m_.get("kws") else {}
        mx = [a for a in want.atoms() if nf.meta.get(a, {}).get("fn", "").split(".")[-1] == "pow" and nf.meta.get(nf.meta[a]["args"][0].single_atom() or "", {}).get("fn", "").split(".")[-1] == "maximum"]
        if mc.get("fn") in ("Lt", "LtE") and len(mx) == 1 and want.single_atom() == mx[0]:
            lo, hi = mc["args"]
            mm = nf.meta[nf.meta[mx[0]]["args"][0].single_atom()]
            if len(mm["args"]) == 2 and ({lo.canon(), hi.canon()} == {x.canon() for x in mm["args"]}):
                expo = nf.meta[mx[0]]["args"][1]
                for branch, larger, region in ((m_["args"][1], hi, f"{lo.canon()} < {hi.canon()}"), (m_["args"][2], lo, f"{hi.canon()} <= {lo.canon()}")):
                    wb = nf._pow(larger, expo)
                    _decide(ck, nf, "R5-formulas", q, "priority", branch, wb, f"{got.canon()}", f"where {region} the priority is {branch.canon()}, it must be {wb.canon()} (positive, non-decreasing in |error|)", loc(mi, f), extra)
                return
    _decide(ck, nf, "R5-formulas", q, "priority", got, want, f"{got.canon()}", f"must be {want.canon()} (positive, non-decreasing in |error|)", loc(mi, f), extra)


def r5_importance(ck, repo, nf):
    cq = RB + "PrioritizedReplayBuffer"
    fn = _m(repo, cq, "compute_importance_ratio")
    mi = fn._module
    site = cq + ".compute_importance_ratio"
    fn = _read_spellings(repo, nf, fn, cq) or fn      # len(self) is what __len__ returns; method / in-place spellings of library calls
    cfg = nf.cfg_of(fn)
    _need_no_local_mutation(cfg, fn, site)
    ps = _roles(fn)
    ck.need(len(ps) >= 3, f"{site}: signature changed (anchor vanished)")
    IDX, BETA = ps[1], ps[2]
    rets = [n for n in cfg.nodes if n.kind == "stmt" and isinstance(n.ast, ast.Return) and n.ast.value is not None]
    ck.need(len(rets) == 1, f"{site}: expected one return")
    sc = Scope(cfg, mi, {p: Poly.atom(p, {p}, {p}) for p in ps}, "ir")
    got = _norm_pow(nf, nf.poly(rets[0].ast.value, sc, rets[0].id))
    wants = []
    for total in (f"np.cumsum(self.priority.priority[{IDX}])[-1]", f"np.sum(self.priority.priority[{IDX}])"):     # the batch's priority mass, either spelling
        W = f"(self.current_len * self.priority.priority[{IDX}] / {total}) ** (-{BETA})"
        wants.append(_norm_pow(nf, nf.poly(parse_expr(f"{W} / np.max({W})"), Scope(None, mi, sc.env, "ir"), None)))
    _decide(ck, nf, "R5-formulas", site, "importance-ratio", got, wants, f"{got.canon()[:170]}", "must be (len*p/sum p)^(-beta) divided by its maximum (weights in (0,1], maximum 1, non-increasing in p)", loc(mi, fn))


def r5_ratio_indices(ck, repo, nf, field):
    """PER sample_batch computes the ratio for the very indices it gathers with."""
    cq = RB + "PrioritizedReplayBuffer"
    fn = _m(repo, cq, "sample_batch")
    mi = fn._module
    site = cq + ".sample_batch"
    cfgs = nf.cfg_of(fn)
    rc = stmt_calls(cfgs, lambda c: isinstance(c.func, ast.Attribute) and c.func.attr == "compute_importance_ratio")
    gathers = [g_["sub"] for g_ in field_gathers(fn)]
    ck.need(len(rc) == 1 and gathers, f"{site}: importance-ratio call / gather not found (unrecognised idiom)")
    nrc, crc = rc[0]
    cir = _m(repo, cq, "compute_importance_ratio")
    ia = _bind(cir, crc, site).get(_roles(cir)[1])
    ck.need(ia is not None, f"{site}: index argument of compute_importance_ratio not found (unrecognised form)")
    sc = Scope(cfgs, mi, {}, cq)
    sc.inline_self_attrs = False
    A = nf.poly(ia, sc, nrc.id)
    ma = nf.meta.get(A.single_atom() or "", {})
    if ma.get("fn") == "subscript" and ma.get("args") and A.single_atom()[len(ma["args"][0].canon()):] in ("[:]", "[...]"):
        A = ma["args"][0]      # the whole vector
    Gs = {nf.poly(g.slice, sc, cfgs.node_of(g).id).canon(): nf.poly(g.slice, sc, cfgs.node_of(g).id) for g in gathers}
    ck.need(len(Gs) == 1, f"{site}: the fields are gathered with different index vectors (unrecognised form)")
    G = next(iter(Gs.values()))
    same = A == G
    if not same:
        # the recorded field is the sampler's result (R3 returns-recorded-indices): reading it back after the sampling is the same vector
        smp = stmt_calls(cfgs, lambda c: isinstance(c.func, ast.Attribute) and c.func.attr in ("prioritized_sampling_stratified", "prioritized_sampling"))
        if len(smp) == 1 and A.canon() == f"self.priority.{field}" and G == nf.poly(smp[0][1], sc, smp[0][0].id) and cfgs.dominates(smp[0][0].id, nrc.id):
            same = True
        elif _unread(A, G) or not (_tok(A) <= _tok(G) | {"priority", field}):
            raise AnalysisError(f"{site}: ratio indices `{A.canon()[:70]}` / gather indices `{G.canon()[:70]}` (unrecognised form)")
    ck.ob("R5-formulas", site, "ratio-of-sampled-indices", bool(same), f"compute_importance_ratio({short(ia)}, ..); gather at [{short(gathers[0].slice)}]", "" if same else "weights must belong to the rows of the returned batch (same index vector, same definition)", loc(mi, fn))


def _result_path(cfg, name: str, at: int, depth: int = 0):
    """(call, position path, node) when the variable holds one position of a call's (nested tuple) result - by unpacking, by constant
    subscripts of a variable holding (part of) the result, or by copying such a variable - else None."""
    if depth > 8:
        return None
    ds = cfg.defs_of(at, name)
    if len(ds) != 1:
        return None
    d = ds[0]
    path = tuple(d.path)
    if any(not isinstance(i, int) for i in path):
        return None
    if d.kind in ("unpack", "assign"):
        v, extra = d.value, ()
        while isinstance(v, ast.Subscript) and isinstance(v.slice, ast.Constant) and isinstance(v.slice.value, int) and v.slice.value >= 0:
            extra = (v.slice.value,) + extra
            v = v.value
        if isinstance(v, ast.Call) and (d.kind == "unpack" or extra):
            return v, extra + path, d.node
        if isinstance(v, ast.Call) and d.kind == "assign":
            return v, path, d.node
        if isinstance(v, ast.Name):
            inner = _result_path(cfg, v.id, d.node, depth + 1)
            if inner is not None:
                return inner[0], inner[1] + extra + path, inner[2]
    return None


def _record_field_index(repo, tmi, cfg, e, at):
    """`v.f` where the local v holds the whole result of a call whose callee builds one record class (NamedTuple / namedtuple /
    dataclass) in every return statement: (v, index of f in the record's field order, the field names) - a field read is the
    positional projection of the record - else None."""
    if not (isinstance(e, ast.Attribute) and isinstance(e.value, ast.Name)):
        return None
    rp = _result_path(cfg, e.value.id, at)
    if rp is None or tuple(rp[1]) or not isinstance(rp[0].func, (ast.Name, ast.Attribute)):
        return None
    call = rp[0]
    if isinstance(call.func, ast.Name) and cfg.defs_of(rp[2], call.func.id):
        return None
    q = repo.resolve_expr(tmi, call.func)
    try:
        callee = repo.func(q) if q else None
    except AnalysisError:
        callee = None
    if callee is None:
        return None
    own = [n for n in ast.walk(callee) if isinstance(n, ast.Return)]
    inner = {id(n) for g in ast.walk(callee) if g is not callee and isinstance(g, (ast.FunctionDef, ast.AsyncFunctionDef, ast.Lambda)) for n in ast.walk(g)}
    rets = [n for n in own if id(n) not in inner]
    if not rets:
        return None
    classes = set()
    for rt in rets:
        v = rt.value
        if isinstance(v, ast.Name):
            asg = [a for a in ast.walk(callee) if isinstance(a, ast.Assign) and any(isinstance(t, ast.Name) and t.id == v.id for t in _targets(a))]
            v = asg[0].value if len(asg) == 1 and len(asg[0].targets) == 1 and isinstance(asg[0].targets[0], ast.Name) else None
        if not (isinstance(v, ast.Call) and isinstance(v.func, (ast.Name, ast.Attribute))):
            return None
        classes.add(repo.resolve_expr(callee._module, v.func))
    if len(classes) != 1 or None in classes:
        return None
    try:
        node = repo.lookup(next(iter(classes)))[1]
    except AnalysisError:
        return None
    fields = NF._record_fields(node)
    if not fields or len(set(fields)) != len(fields) or e.attr not in fields:
        return None
    return e.value, fields.index(e.attr), fields


def _bound_method_receivers(repo, mi, e, meth):
    """Receivers (dotted) whose bound method `meth` the expression evaluates to: `b.meth`, `functools.partial(b.meth, ...)` (the same
    callee with some arguments fixed), a conditional expression of those; None for any other expression."""
    if isinstance(e, ast.Attribute) and e.attr == meth:
        d = dotted(e.value)
        return {d} if d else None
    if isinstance(e, ast.IfExp):
        a, b = _bound_method_receivers(repo, mi, e.body, meth), _bound_method_receivers(repo, mi, e.orelse, meth)
        return a | b if a and b else None
    if isinstance(e, ast.Call) and e.args and not isinstance(e.args[0], ast.Starred) and isinstance(e.func, (ast.Name, ast.Attribute)) and repo.resolve_expr(mi, e.func) == "functools.partial":
        return _bound_method_receivers(repo, mi, e.args[0], meth)
    return None


def _method_call_receivers(repo, mi, cfg, node, meth, site):
    """Receivers of every call of method `meth` evaluated by a statement: `b.meth(..)`, or a call of a local that holds the bound
    method (see _bound_method_receivers) on every definition reaching the call."""
    out = []
    for x in ast.walk(node.ast):
        if not isinstance(x, ast.Call):
            continue
        if isinstance(x.func, ast.Attribute) and x.func.attr == meth:
            out.append(dotted(x.func.value))
        elif isinstance(x.func, ast.Name):
            ds = cfg.defs_of(node.id, x.func.id)
            vals = [_bound_method_receivers(repo, mi, d.value, meth) if d.kind == "assign" and d.value is not None and not d.path else None for d in ds]
            if ds and all(v is not None for v in vals):
                for v in vals:
                    out.extend(sorted(v))
            elif any(d.value is not None and any(isinstance(y, ast.Attribute) and y.attr == meth for y in ast.walk(d.value)) for d in ds):
                raise AnalysisError(f"{site}: the callable `{x.func.id}` may hold `{meth}` of a buffer in a form that is not read (unrecognised form)")
    return out


class _ArgAt:
    """An argument expression read like a statement evaluated at a CFG node."""

    def __init__(self, e, at):
        self.ast, self.id = e, at


def _sample_stmts(repo, mi, cfg, buf, site):
    return [m for m in cfg.nodes if m.ast is not None and m.kind == "stmt" and buf in _method_call_receivers(repo, mi, cfg, m, "sample_batch", site)]


def _feeders(cfg, start, sample_ids):
    """Def-use closure of the names read at `start` [(node, name)]: (sampling statements reached, those reached in the first step,
    parameters of the function reached)."""
    rd = cfg.reaching()
    direct, feeding, params = set(), set(), set()
    todo, seen_d, first = list(start), set(), True
    while todo:
        nxt = []
        for at_, nm in todo:
            for dn, _nm in rd[at_].get(nm, frozenset()):
                if (dn, _nm) in seen_d:
                    continue
                seen_d.add((dn, _nm))
                if dn in sample_ids:
                    feeding.add(dn)
                    if first:
                        direct.add(dn)
                    continue
                nd_ = cfg.nodes[dn]
                if nd_.kind == "entry":
                    params.add(_nm)
                elif nd_.ast is not None and nd_.kind in ("stmt", "for", "with"):
                    src_ = nd_.ast.iter if nd_.kind == "for" else nd_.ast
                    nxt += [(dn, x.id) for x in ast.walk(src_) if isinstance(x, ast.Name) and isinstance(x.ctx, ast.Load)]
        todo, first = nxt, False
    return feeding, direct, params


def _resample_path(cfg, samples, s0, end):
    """A path sampling statement s0 -> another sampling statement -> end that does not pass s0 again, else None."""
    p = None
    for m in samples:
        if m.id == s0.id:
            continue
        p1 = cfg.paths_avoiding(s0.id, m.id, {end})
        p2 = cfg.paths_avoiding(m.id, end, {s0.id}) if p1 is not None else None
        if p1 is not None and p2 is not None:
            p = p1 + p2[1:]
    return p


def _r6_sampled_by_caller(ck, repo, res, tq, fn, cfg, buf, n, c, upd_call, upd_node, fed_params):
    """The routine that updates the priorities receives buffer and batch from its caller: the protocol is read across the call - at
    every call the batch argument is the result of the most recent sample_batch on the buffer argument."""
    tmi = fn._module
    ps = param_names(fn)
    ck.need(buf in ps and fed_params, f"{tq}: no sample_batch on `{buf}`")
    ck.need(all(d.kind == "param" for d in cfg.defs_of(n.id, buf)), f"{tq}: `{buf}` is rebound before update_priority (unrecognised form)")
    calls = []
    for gq, g, gmi in repo.all_functions():
        if g is fn:
            continue
        for x in ast.walk(g):
            if isinstance(x, ast.Call) and isinstance(x.func, (ast.Name, ast.Attribute)) and repo.resolve_expr(gmi, x.func) == tq:
                calls.append((gq, g, gmi, x))
    ck.need(calls, f"{tq}: no sample_batch on `{buf}` and no call of the routine found (unrecognised form)")
    dom_in = cfg.dominates(upd_node, n.id)
    for gq, g, gmi, x in calls:
        site = f"{tq} <- {gq}"
        gcfg = res.cfg_of(g)
        at = [m for m in gcfg.nodes if m.ast is not None and m.kind == "stmt" and any(y is x for y in ast.walk(m.ast))]
        ck.need(len(at) == 1, f"{site}: the call is not a statement of the caller (unrecognised form)")
        cn = at[0]
        b = _bind(fn, x, site, skip_self=False)
        gbuf = dotted(b[buf]) if b.get(buf) is not None else None
        ck.need(gbuf is not None, f"{site}: buffer argument not recognised (unrecognised form)")
        samples = _sample_stmts(repo, gmi, gcfg, gbuf, site)
        ck.need(samples, f"{site}: no sample_batch on `{gbuf}` in the caller (unrecognised form)")
        start = [(cn.id, y.id) for p_ in sorted(fed_params) if p_ != buf and b.get(p_) is not None for y in ast.walk(b[p_]) if isinstance(y, ast.Name) and isinstance(y.ctx, ast.Load)]
        feeding, direct, _ = _feeders(gcfg, start, {m.id for m in samples})
        pick = feeding if len(feeding) == 1 else direct
        # the sampling call written as the argument itself: sampled while the call is evaluated, nothing can come in between
        inline = any(gbuf in _method_call_receivers(repo, gmi, gcfg, _ArgAt(b[p_], cn.id), "sample_batch", site) for p_ in fed_params if p_ != buf and b.get(p_) is not None)
        if inline and not pick:
            pick = {cn.id}
        ck.need(len(pick) == 1, f"{site}: the batch handed to the routine cannot be attributed to one sample_batch on `{gbuf}` (unrecognised form)")
        s0 = gcfg.nodes[next(iter(pick))]
        ck.ob("R6-call-protocol", site, "batch-feeds-update", True, f"batch of `{short(s0.ast, 60)}` handed to `{short(x, 40)}`, consumed by `{short(upd_call, 50)}`", "", loc(gmi, x))
        p = _resample_path(gcfg, samples, s0, cn.id) if s0.id != cn.id else None
        ck.ob("R6-call-protocol", site, "no-resample-in-between", p is None, f"sample_batch -> call -> update -> update_priority on `{gbuf}`",
              "" if p is None else "another sample_batch on the same buffer lies between the batch whose errors are used and update_priority: the priorities are written to the wrong transitions", loc(gmi, x),
              gcfg.describe_path(p) if p else None)
        dom = gcfg.dominates(s0.id, cn.id) and dom_in
        ck.ob("R6-call-protocol", site, "sample-dominates-update", dom, "every path to update_priority passes the sampling and the update", "" if dom else "update_priority can be reached without a fresh sample / update", loc(gmi, x))


def r6_site(ck, repo, res, tq, prio_fn, err_path):
    fn = repo.func(tq)
    tmi = fn._module
    cfg = res.cfg_of(fn)
    ups = [(n, c) for n in cfg.nodes if n.ast is not None and n.kind == "stmt" for c in ast.walk(n.ast) if isinstance(c, ast.Call) and isinstance(c.func, ast.Attribute) and c.func.attr == "update_priority"]
    ck.need(len(ups) == 1, f"{tq}: expected one update_priority call")
    n, c = ups[0]
    buf = dotted(c.func.value)
    ck.need(buf is not None, f"{tq}: receiver of update_priority not recognised")
    upm = _m(repo, RB + "LAP", "update_priority")
    arg = _bind(upm, c, tq).get([p_ for p_ in positional_params(upm) if p_ != "self"][0])
    ck.need(arg is not None, f"{tq}: argument of update_priority not found (unrecognised form)")
    # priority value: <prio_fn>(<errors>, ...) possibly via locals / value-transparent wrappers
    pe, pat = _origin(cfg, arg, n.id)
    known = {RB + "lap_priority", RB + "per_priority"}
    r = repo.resolve_expr(tmi, pe.func) if isinstance(pe, ast.Call) and isinstance(pe.func, (ast.Name, ast.Attribute)) and not (isinstance(pe.func, ast.Name) and cfg.defs_of(pat, pe.func.id)) else None
    ok = r == RB + prio_fn
    if not ok:
        # evidence: another known priority function, or the raw result of a call (no priority function at all)
        raw = (isinstance(pe, ast.Name) and _result_path(cfg, pe.id, pat) is not None) or _record_field_index(repo, tmi, cfg, pe, pat) is not None
        if not (r in known or raw):
            raise AnalysisError(f"{tq}: priorities `{short(pe, 70)}` (unrecognised form)")
    ck.ob("R6-call-protocol", tq, "priority-function", ok, f"update_priority({short(pe, 70)})", "" if ok else f"priorities must be computed by {prio_fn}", loc(tmi, c))
    if not ok:
        return
    pf = repo.func(RB + prio_fn)
    err = _bind(pf, pe, tq, skip_self=False).get(_roles(pf)[0])
    ck.need(err is not None, f"{tq}: TD-error argument not found")
    e0, eat = _origin(cfg, err, pat)
    sub = ()

    def _carrier(b_, at_):
        # copies of the carrier variable are followed, down to (not into) the variable that holds the call's result
        o_, oat_ = _origin(cfg, b_, at_)
        while isinstance(b_, ast.Name) and not isinstance(o_, (ast.Name, ast.Subscript, ast.Attribute)):
            ds_ = cfg.defs_of(at_, b_.id)
            if len(ds_) == 1 and ds_[0].kind == "assign" and isinstance(ds_[0].value, ast.Name):
                b_, at_ = ds_[0].value, ds_[0].node
                continue
            return b_, at_
        return o_, oat_
    while True:
        if isinstance(e0, ast.Subscript) and isinstance(e0.slice, ast.Constant) and isinstance(e0.slice.value, int) and e0.slice.value >= 0:
            sub = (e0.slice.value,) + sub
            e0, eat = _carrier(e0.value, eat)
            continue
        fld = _record_field_index(repo, tmi, cfg, e0, eat)      # `result.field` of a record-returning update: the field's position
        if fld is not None:
            sub = (fld[1],) + sub
            e0, eat = _carrier(fld[0], eat)
            continue
        break
    ck.need(isinstance(e0, ast.Name), f"{tq}: TD-error argument is not a variable")
    rp = _result_path(cfg, e0.id, eat)
    ck.need(rp is not None, f"{tq}: TD-error argument `{e0.id}` is not a position of a call's result (unrecognised form)")
    upd_call, path, upd_node = rp[0], tuple(rp[1]) + sub, rp[2]
    okd = tuple(path) == tuple(err_path)
    if not okd:
        # evidence: the recorded position still exists in the unpacking of the same call and holds another variable
        st = cfg.nodes[upd_node].ast
        tgt = st.targets[0] if isinstance(st, ast.Assign) and len(st.targets) == 1 else None
        for i in err_path:
            tgt = tgt.elts[i] if isinstance(tgt, (ast.Tuple, ast.List)) and i < len(tgt.elts) and not any(isinstance(x, ast.Starred) for x in tgt.elts) else None
        if not isinstance(tgt, ast.Name):
            raise AnalysisError(f"{tq}: the result of `{short(upd_call, 50)}` is not unpacked as recorded (unrecognised form)")
    ck.ob("R6-call-protocol", tq, "errors-from-update", okd, f"{e0.id} <- result{list(path)} of {short(upd_call, 50)}",
          "" if okd else f"the priorities must be computed from the absolute TD errors (result position {list(err_path)} of the update call), not from another result", loc(tmi, c))
    if not okd:
        return
    # the batch consumed by that update comes from the most recent sample_batch on the same buffer (def-use closure of the update's arguments)
    samples = _sample_stmts(repo, tmi, cfg, buf, tq)
    start = [(upd_node, x.id) for x in ast.walk(upd_call) if isinstance(x, ast.Name)]
    feeding, direct, fed_params = _feeders(cfg, start, {m.id for m in samples})
    if not samples:
        _r6_sampled_by_caller(ck, repo, res, tq, fn, cfg, buf, n, c, upd_call, upd_node, fed_params)
        return
    pick = feeding if len(feeding) == 1 else direct
    ck.need(len(pick) == 1, f"{tq}: the batch consumed by `{short(upd_call, 50)}` cannot be attributed to one sample_batch on `{buf}` (unrecognised form)")
    s0 = cfg.nodes[next(iter(pick))]
    ck.ob("R6-call-protocol", tq, "batch-feeds-update", True, f"batch of `{short(s0.ast, 60)}` consumed by `{short(upd_call, 50)}`", "", loc(tmi, upd_call))
    # no sample_batch on the buffer between the feeding sample and update_priority
    p = _resample_path(cfg, samples, s0, n.id)
    ck.ob("R6-call-protocol", tq, "no-resample-in-between", p is None, f"sample_batch -> update -> update_priority on `{buf}`",
          "" if p is None else "another sample_batch on the same buffer lies between the batch whose errors are used and update_priority: the priorities are written to the wrong transitions", loc(tmi, c),
          cfg.describe_path(p) if p else None)
    dom = cfg.dominates(s0.id, n.id) and cfg.dominates(upd_node, n.id)
    ck.ob("R6-call-protocol", tq, "sample-dominates-update", dom, "every path to update_priority passes the sampling and the update", "" if dom else "update_priority can be reached without a fresh sample / update", loc(tmi, c))


def run(ck, repo: Repo, tier: str):
    nf = NF(repo, inline_depth=1, inline_calls=False)
    PB = RB + "PriorityBuffer"
    field = sampled_field(repo, nf, PB)
    nf0 = NF(repo, inline_depth=1, inline_calls=False)
    _group(ck, r1_field_agreement, ck, repo, nf0, field)
    for cq in (RB + "LAP", RB + "PrioritizedReplayBuffer", RB + "SubtrajectoryReplayBufferPER"):
        for meth, is_len in (("update_priority", False), ("reset_max_priority", True)):
            _group(ck, r4_delegate, ck, repo, nf0, cq, meth, is_len)
    _group(ck, r7_store_writers, ck, repo, Resolver(repo))
    _group(ck, r8_multitask, ck, repo, nf)
    # ---- R2 init order
    _group(ck, r2_initialize, ck, repo, nf)
    _group(ck, r2_lap, ck, repo, nf)
    _group(ck, r2_subtraj_per, ck, repo, nf)
    _group(ck, r2_subtraj_slots, ck, repo, nf)
    # ---- R3 sampler form
    _group(ck, r3_sampler, ck, repo, nf, field, PB, "prioritized_sampling", "self.priority", "plain")
    _group(ck, r3_sampler, ck, repo, nf, field, RB + "PrioritizedReplayBuffer", "prioritized_sampling_stratified", "self.priority.priority", "stratified")
    _group(ck, r3_subtraj_masked, ck, repo, nf)
    done9 = set()
    _group(ck, r9_derived_state, ck, repo, nf, PB, "prioritized_sampling", "self.priority", done9)
    _group(ck, r9_derived_state, ck, repo, nf, RB + "PrioritizedReplayBuffer", "prioritized_sampling_stratified", "self.priority.priority", done9)
    # ---- R4 bookkeeping
    _group(ck, r4_update, ck, repo, nf, field)
    _group(ck, r4_reset, ck, repo, nf)
    # ---- R5 formulas (roles by position of the public signatures)
    _group(ck, r5_priority_formula, ck, repo, nf, RB + "lap_priority", lambda e, m, a: f"jnp.maximum({e}, {m}) ** {a}", ("minimum", "min"))
    _group(ck, r5_priority_formula, ck, repo, nf, RB + "per_priority", lambda e, a, eps: f"{e} ** {a} + {eps}", ())
    _group(ck, r5_importance, ck, repo, nf)
    _group(ck, r5_ratio_indices, ck, repo, nf, field)
    # ---- R6 call-site protocol
    res = Resolver(repo)
    sites = {
        # (priority function, position of the absolute TD error in the update's result - confirmed against the callees' return statements)
        "rl_blox.algorithm.td3_lap.train_td3_lap": ("lap_priority", (1, 1)),
        "rl_blox.algorithm.td7._train_step": ("lap_priority", (1,)),
        "rl_blox.algorithm.mrq.train_mrq": ("lap_priority", (4,)),
        "rl_blox.algorithm.per.train_ddqn_per": ("per_priority", (1, 1)),
    }
    for tq, (prio_fn, err_path) in sites.items():
        _group(ck, r6_site, ck, repo, res, tq, prio_fn, err_path)


_F = "rl_blox/blox/replay_buffer.py"
_STRAT_DRAW = "        random_points = rng.uniform(\n            low=np.arange(batch_size) * segment,\n            high=(np.arange(batch_size) + 1) * segment,\n            size=batch_size\n        )\n"
# td7: the critic update returns a record and the training step reads it by field
_TD7_RECORD = [
    ("    return q_loss_value, max_abs_td_error, q_target\n\n\ndef deterministic_policy_gradient_loss_sale(", "    return _CriticOut(q_loss_value, max_abs_td_error, q_target)\n\n\n_CriticOut = namedtuple(\"_CriticOut\", [\"loss\", \"abs_error\", \"target\"])\n\n\ndef deterministic_policy_gradient_loss_sale("),
    ("    q_loss_value, max_abs_td_error, q_target = td7_update_critic(", "    out = td7_update_critic("),
    ("    metrics[\"q loss\"] = q_loss_value\n", "    q_loss_value, q_target = out.loss, out.target\n    metrics[\"q loss\"] = q_loss_value\n"),
]
# per: the sampler is a bound method with the fixed arguments applied
_PER_BOUND = ("                transition_batch, is_ratio = replay_buffer.sample_batch(batch_size, rng, beta[step])", "                draw = partial(replay_buffer.sample_batch, batch_size, rng)\n                transition_batch, is_ratio = draw(beta[step])")
# td7: the caller samples and hands the batch to the training step
_TD7_CALLER = [
    ("                metrics, epochs = _train_step(\n", "                minibatch = replay_buffer.sample_batch(batch_size, rng)\n                metrics, epochs = _train_step(\n"),
    ("                    replay_buffer,\n                    epoch,\n", "                    replay_buffer,\n                    minibatch,\n                    epoch,\n"),
    ("    replay_buffer,\n    epoch,\n    sampling_key,\n    rng,\n    gamma,\n", "    replay_buffer,\n    minibatch,\n    epoch,\n    sampling_key,\n    rng,\n    gamma,\n"),
    ("    ) = replay_buffer.sample_batch(batch_size, rng)\n\n    embedding_loss_value", "    ) = minibatch\n\n    embedding_loss_value"),
]
MUTANTS = [
    {"id": "c08-max-early-return-wrong-side", "file": _F, "rule": "R4", "find": "        self.max_priority = max(np.max(priority), self.max_priority)", "replace": "        batch_max = np.max(priority)\n        if self.max_priority < batch_max:\n            return\n        self.max_priority = batch_max"},
    {"id": "c08-subtraj-record-after-advance", "file": _F, "rule": "R2", "find": "            inserted_at += [self.insert_idx]\n            self.insert_idx = (self.insert_idx + 1) % self.buffer_size\n", "replace": "            self.insert_idx = (self.insert_idx + 1) % self.buffer_size\n            inserted_at += [self.insert_idx]\n"},
    {"id": "c08-subtraj-successor-unrecorded", "file": _F, "rule": "R2", "find": "            inserted_at += [self.insert_idx]\n", "replace": ""},
    {"id": "c08-lap-init-current-len", "file": _F, "rule": "R2", "find": "        self.priority.initialize_priority(self.insert_idx)\n        super().add_sample(**sample)", "replace": "        super().add_sample(**sample)\n        self.priority.initialize_priority(self.current_len - 1)"},
    {"id": "c08-ratio-other-indices", "file": _F, "rule": "R5", "find": "        importance_ratio = self.compute_importance_ratio(indices, beta)", "replace": "        importance_ratio = self.compute_importance_ratio(self.priority.sampled_indices[::-1], beta)"},
    {"id": "c08-indices-on-buffer", "file": _F, "rule": "R1", "find": "        self.priority.sampled_indices = np.searchsorted(\n            probabilities, random_points\n        )\n        return self.priority.sampled_indices", "replace": "        self.sampled_indices = np.searchsorted(probabilities, random_points)\n        return self.sampled_indices"},
    {"id": "c08-init-after-add", "file": _F, "rule": "R2", "find": "        self.priority.initialize_priority(self.insert_idx)\n        super().add_sample(**sample)", "replace": "        super().add_sample(**sample)\n        self.priority.initialize_priority(self.insert_idx)"},
    {"id": "c08-init-one", "file": _F, "rule": "R2", "find": "        self.priority[insert_idx] = self.max_priority", "replace": "        self.priority[insert_idx] = 1.0"},
    {"id": "c08-subtraj-init-first-only", "file": _F, "rule": "R2", "find": "        self.priority.initialize_priority(inserted_at)", "replace": "        self.priority.initialize_priority(inserted_at[0])"},
    {"id": "c08-sampler-no-mask-slice", "file": _F, "rule": "R3", "nth": 0, "find": "            priority = priority * mask[:current_len]", "replace": "            priority = priority + mask[:current_len]"},
    {"id": "c08-sampler-uniform-total", "file": _F, "rule": "R3", "find": "        random_uniforms = rng.uniform(0, 1, size=batch_size) * probabilities[-1]", "replace": "        random_uniforms = rng.uniform(0, 1, size=batch_size) * probabilities[0]"},
    {"id": "c08-sampler-searchsorted-priority", "file": _F, "rule": "R3", "find": "        self.sampled_indices = np.searchsorted(probabilities, random_uniforms)", "replace": "        self.sampled_indices = np.searchsorted(priority, random_uniforms)"},
    {"id": "c08-stratified-segments", "file": _F, "rule": "R3", "find": "            high=(np.arange(batch_size) + 1) * segment,", "replace": "            high=(np.arange(batch_size) + 2) * segment,"},
    {"id": "c08-max-overwritten", "file": _F, "rule": "R4", "find": "        self.max_priority = max(np.max(priority), self.max_priority)", "replace": "        self.max_priority = np.max(priority)"},
    {"id": "c08-reset-whole-array", "file": _F, "rule": "R4", "find": "            self.max_priority = np.max(self.priority[:current_len])", "replace": "            self.max_priority = np.max(self.priority)"},
    {"id": "c08-lap-min", "file": _F, "rule": "R5", "find": "    return jnp.maximum(abs_td_error, min_priority) ** alpha", "replace": "    return jnp.minimum(abs_td_error, min_priority) ** alpha"},
    {"id": "c08-per-no-eps", "file": _F, "rule": "R5", "find": "    return abs_td_error ** alpha + epsion", "replace": "    return abs_td_error ** alpha"},
    {"id": "c08-is-plus-beta", "file": _F, "rule": "R5", "find": "        is_weight = (self.current_len * priority / sum_probability) ** (-beta)", "replace": "        is_weight = (self.current_len * priority / sum_probability) ** beta"},
    {"id": "c08-is-not-normalised", "file": _F, "rule": "R5", "find": "        normalized_weights = is_weight / np.max(is_weight)", "replace": "        normalized_weights = is_weight / np.sum(is_weight)"},
    {"id": "c08-subtraj-unmasked", "file": _F, "rule": "R3", "find": "            self.current_len, batch_size, rng, self.mask_\n        )", "replace": "            self.current_len, batch_size, rng\n        )"},
    {"id": "c08-td3lap-resample", "file": "rl_blox/algorithm/td3_lap.py", "rule": "R6", "find": "                priority = lap_priority(\n                    max_abs_td_error, lap_min_priority, lap_alpha\n                )\n", "replace": "                priority = lap_priority(\n                    max_abs_td_error, lap_min_priority, lap_alpha\n                )\n                if logger is not None and step % 1000 == 0:\n                    logger.record_stat(\"batch reward\", float(replay_buffer.sample_batch(batch_size, rng).reward.mean()))\n"},
    {"id": "c08-mrq-priority-before-update", "file": "rl_blox/algorithm/mrq.py", "rule": "R6", "find": "            replay_buffer.update_priority(\n                lap_priority(max_abs_td_error, lap_min_priority, lap_alpha)\n            )", "replace": "            replay_buffer.update_priority(\n                lap_priority(q_mean, lap_min_priority, lap_alpha)\n            )"},
    {"id": "c08-per-lap-priority", "file": "rl_blox/algorithm/per.py", "rule": "R6", "find": "                priority = per_priority(\n                    abs_td_error, alpha=per_alpha, epsion=1e-6\n                )", "replace": "                priority = abs_td_error"},
    {"id": "c08-sampler-inplace-mask", "file": _F, "rule": "R7", "nth": 0, "find": "            priority = priority * mask[:current_len]", "replace": "            priority *= mask[:current_len]"},
    {"id": "c08-stratified-inplace-normalise", "file": _F, "rule": "R7", "find": "        probabilities = np.cumsum(priority)\n\n        # stratified", "replace": "        priority /= priority.sum()\n        probabilities = np.cumsum(priority)\n\n        # stratified"},
    {"id": "c08-ratio-out-param", "file": _F, "rule": "R7", "find": "        normalized_weights = is_weight / np.max(is_weight)", "replace": "        normalized_weights = np.divide(is_weight, np.max(is_weight), out=self.priority.priority[: len(is_weight)])"},
    {"id": "c08-multitask-selected", "file": _F, "rule": "R8", "find": "        self.buffers[self.sampled_task_idx].update_priority(priority)", "replace": "        self.buffers[self.selected_task].update_priority(priority)"},
    {"id": "c08-multitask-reset-selected", "file": _F, "rule": "R8", "find": "        for buffer in self.buffers:\n            buffer.reset_max_priority()", "replace": "        self.buffers[self.selected_task].reset_max_priority()"},
    # violation paths of the evidence-gated rules (each needs positive evidence, none rests on "not found")
    {"id": "c08-delegate-squared", "file": _F, "rule": "R4", "nth": 0, "find": "        self.priority.update_priority(priority)", "replace": "        self.priority.update_priority(priority * priority)"},
    {"id": "c08-reset-capacity", "file": _F, "rule": "R4", "nth": 0, "find": "        self.priority.reset_max_priority(self.current_len)", "replace": "        self.priority.reset_max_priority(self.buffer_size)"},
    {"id": "c08-delegate-noop", "file": _F, "rule": "R4", "nth": 0, "find": "    def update_priority(self, priority):\n        self.priority.update_priority(priority)", "replace": "    def update_priority(self, priority):\n        pass"},
    {"id": "c08-init-wrong-slot", "file": _F, "rule": "R2", "find": "        self.priority[insert_idx] = self.max_priority", "replace": "        self.priority[insert_idx - 1] = self.max_priority"},
    {"id": "c08-subtraj-init-last-only", "file": _F, "rule": "R2", "find": "        self.priority.initialize_priority(inserted_at)", "replace": "        self.priority.initialize_priority(inserted_at[-1])"},
    {"id": "c08-sampler-whole-array", "file": _F, "rule": "R3", "nth": 0, "find": "        priority = self.priority[:current_len]\n", "replace": "        priority = self.priority\n"},
    {"id": "c08-sampler-mask-ignored", "file": _F, "rule": "R3", "nth": 0, "find": "        priority = self.priority[:current_len]\n        if mask is not None:\n            priority = priority * mask[:current_len]\n", "replace": "        priority = self.priority[:current_len]\n"},
    {"id": "c08-sampler-uniform-unscaled", "file": _F, "rule": "R3", "find": "rng.uniform(0, 1, size=batch_size) * probabilities[-1]", "replace": "rng.uniform(0, 1, size=batch_size)"},
    {"id": "c08-sampler-uniform-half", "file": _F, "rule": "R3", "find": "rng.uniform(0, 1, size=batch_size) * probabilities[-1]", "replace": "rng.uniform(low=0, high=0.5, size=batch_size) * probabilities[-1]"},
    {"id": "c08-max-never-raised", "file": _F, "rule": "R4", "find": "        self.priority[self.sampled_indices] = priority\n        self.max_priority = max(np.max(priority), self.max_priority)", "replace": "        self.priority[self.sampled_indices] = priority"},
    {"id": "c08-update-writes-constant", "file": _F, "rule": "R4", "find": "        self.priority[self.sampled_indices] = priority\n", "replace": "        self.priority[self.sampled_indices] = 1.0\n"},
    {"id": "c08-is-unnormalised", "file": _F, "rule": "R5", "find": "        normalized_weights = is_weight / np.max(is_weight)", "replace": "        normalized_weights = is_weight"},
    {"id": "c08-lap-where-floor", "file": _F, "rule": "R5", "find": "    return jnp.maximum(abs_td_error, min_priority) ** alpha", "replace": "    return jnp.where(abs_td_error > min_priority, abs_td_error ** alpha, min_priority)"},
    {"id": "c08-multitask-sample-selected", "file": _F, "rule": "R8", "find": "        return self.buffers[self.sampled_task_idx].sample_batch(", "replace": "        return self.buffers[self.selected_task].sample_batch("},
    {"id": "c08-td7-raw-errors", "file": "rl_blox/algorithm/td7.py", "rule": "R6", "find": "        lap_priority(max_abs_td_error, lap_min_priority, lap_alpha)\n", "replace": "        max_abs_td_error\n"},
    {"id": "c08-td7-wrong-result", "file": "rl_blox/algorithm/td7.py", "rule": "R6", "find": "        lap_priority(max_abs_td_error, lap_min_priority, lap_alpha)\n", "replace": "        lap_priority(q_loss_value, lap_min_priority, lap_alpha)\n"},
    # spellings read through _read_spellings / _forwarded (method form of searchsorted, accumulation into a fresh local, len(self), a forwarding sampler), reset over a selection
    {"id": "c08-method-searchsorted-raw", "file": _F, "rule": "R3", "find": "        self.sampled_indices = np.searchsorted(probabilities, random_uniforms)", "replace": "        self.sampled_indices = priority.searchsorted(random_uniforms)"},
    {"id": "c08-inplace-cumsum-first-element", "file": _F, "rule": "R3", "find": "        priority = self.priority[:current_len]\n        if mask is not None:\n            priority = priority * mask[:current_len]\n        probabilities = np.cumsum(priority)\n        random_uniforms = rng.uniform(0, 1, size=batch_size) * probabilities[-1]\n", "replace": "        if mask is None:\n            probabilities = np.cumsum(self.priority[:current_len])\n        else:\n            probabilities = mask[:current_len] * self.priority[:current_len]\n            np.cumsum(probabilities, out=probabilities)\n        random_uniforms = rng.uniform(0, 1, size=batch_size) * probabilities[0]\n"},
    {"id": "c08-forwarder-drops-mask", "file": _F, "rule": "R3", "edits": [
        ("        mask: npt.NDArray[int] | None = None,\n    ) -> npt.NDArray[int]:\n        \"\"\"Sample indices based on the priority distribution.\"\"\"\n", "        mask: npt.NDArray[int] | None = None,\n        *,\n        per_segment: bool = False,\n    ) -> npt.NDArray[int]:\n        \"\"\"Sample indices based on the priority distribution.\"\"\"\n"),
        ("        random_uniforms = rng.uniform(0, 1, size=batch_size) * probabilities[-1]\n", "        if per_segment:\n            width = probabilities[-1] / batch_size\n            random_uniforms = (np.arange(batch_size) + rng.uniform(0, 1, size=batch_size)) * width\n        else:\n            random_uniforms = rng.uniform(0, 1, size=batch_size) * probabilities[-1]\n"),
        ("        priority = self.priority.priority[:current_len]\n        if mask is not None:\n            priority = priority * mask[:current_len]\n        probabilities = np.cumsum(priority)\n\n        # stratified sampling: divide [0, sum_probability] into batch_size segments\n        segment = probabilities[-1] / batch_size\n\n        # sample one uniform value per segment\n        random_points = rng.uniform(\n            low=np.arange(batch_size) * segment,\n            high=(np.arange(batch_size) + 1) * segment,\n            size=batch_size\n        )\n\n        self.priority.sampled_indices = np.searchsorted(\n            probabilities, random_points\n        )\n        return self.priority.sampled_indices\n", "        return self.priority.prioritized_sampling(current_len, batch_size, rng, per_segment=True)\n")]},
    {"id": "c08-ratio-len-self-plus-beta", "file": _F, "rule": "R5", "find": "        is_weight = (self.current_len * priority / sum_probability) ** (-beta)", "replace": "        is_weight = (len(self) * priority / sum_probability) ** beta"},
    {"id": "c08-reset-selection-by-mask", "file": _F, "rule": "R4", "edits": [
        ("    def reset_max_priority(self, current_len: int):\n        \"\"\"Recalculate the maximum priority.\"\"\"\n        if current_len > 0:\n            self.max_priority = np.max(self.priority[:current_len])\n", "    def reset_max_priority(self, current_len: int, valid=None):\n        \"\"\"Recalculate the maximum priority.\"\"\"\n        if current_len > 0:\n            stored = self.priority[:current_len]\n            if valid is not None:\n                stored = stored[np.flatnonzero(valid[:current_len])]\n            self.max_priority = stored.max()\n"),
        ("    def reset_max_priority(self):\n        self.priority.reset_max_priority(self.current_len)\n\n\n@partial", "    def reset_max_priority(self):\n        self.priority.reset_max_priority(self.current_len, valid=self.mask_)\n\n\n@partial")]},
    # a cumulative distribution kept between calls must be refreshed by every writer of the priorities (R9)
    {"id": "c08-kept-cdf-stale-after-add", "file": _F, "rule": "R9", "edits": [
        ("        self.sampled_indices = np.empty(0, dtype=int)\n", "        self.sampled_indices = np.empty(0, dtype=int)\n        self._cdf = None\n        self._cdf_len = -1\n"),
        ("        priority = self.priority[:current_len]\n        if mask is not None:\n            priority = priority * mask[:current_len]\n        probabilities = np.cumsum(priority)\n        random_uniforms", "        if self._cdf_len != current_len:\n            priority = self.priority[:current_len]\n            if mask is not None:\n                priority = priority * mask[:current_len]\n            self._cdf = np.cumsum(priority)\n            self._cdf_len = current_len\n        probabilities = self._cdf\n        random_uniforms"),
        ("        self.max_priority = max(np.max(priority), self.max_priority)\n", "        self.max_priority = max(np.max(priority), self.max_priority)\n        self._cdf_len = -1\n")]},
    {"id": "c08-kept-cdf-stale-after-update", "file": _F, "rule": "R9", "edits": [
        ("        self.sampled_indices = np.empty(0, dtype=int)\n", "        self.sampled_indices = np.empty(0, dtype=int)\n        self._writes = 0\n        self._cdf = None\n        self._cdf_writes = -1\n"),
        ("        self.priority[insert_idx] = self.max_priority\n", "        self.priority[insert_idx] = self.max_priority\n        self._writes += 1\n"),
        ("        priority = self.priority[:current_len]\n        if mask is not None:\n            priority = priority * mask[:current_len]\n        probabilities = np.cumsum(priority)\n        random_uniforms", "        if self._cdf_writes != self._writes or len(self._cdf) != current_len:\n            priority = self.priority[:current_len]\n            if mask is not None:\n                priority = priority * mask[:current_len]\n            self._cdf = np.cumsum(priority)\n            self._cdf_writes = self._writes\n        probabilities = self._cdf\n        random_uniforms")]},
    # forms read by R6 / R3 since round 2: record results read by field, bound-method aliases of sample_batch, a batch sampled by the caller, the two views of one grid of segment edges
    {"id": "c08-td7-record-raw-errors", "file": "rl_blox/algorithm/td7.py", "rule": "R6", "edits": _TD7_RECORD + [("        lap_priority(max_abs_td_error, lap_min_priority, lap_alpha)\n", "        out.abs_error\n")]},
    {"id": "c08-td7-record-resample", "file": "rl_blox/algorithm/td7.py", "rule": "R6", "edits": _TD7_RECORD + [("    replay_buffer.update_priority(\n        lap_priority(max_abs_td_error, lap_min_priority, lap_alpha)\n", "    metrics[\"batch reward\"] = replay_buffer.sample_batch(batch_size, rng).reward.mean()\n    replay_buffer.update_priority(\n        lap_priority(out.abs_error, lap_min_priority, lap_alpha)\n")]},
    {"id": "c08-per-bound-sampler-resample", "file": "rl_blox/algorithm/per.py", "rule": "R6", "edits": [_PER_BOUND, ("                priority = per_priority(\n", "                probe, _ = draw(1.0)\n                priority = per_priority(\n")]},
    {"id": "c08-td7-caller-resample", "file": "rl_blox/algorithm/td7.py", "rule": "R6", "edits": [("                metrics, epochs = _train_step(\n", "                minibatch = replay_buffer.sample_batch(batch_size, rng)\n                if logger is not None and epoch % 100 == 0:\n                    logger.record_stat(\"batch reward\", float(replay_buffer.sample_batch(batch_size, rng).reward.mean()))\n                metrics, epochs = _train_step(\n")] + _TD7_CALLER[1:]},
    {"id": "c08-stratified-edges-lower-twice", "file": _F, "rule": "R3", "find": _STRAT_DRAW, "replace": "        edges = segment * np.arange(batch_size + 1)\n        random_points = rng.uniform(edges[:-1], edges[:-1], batch_size)\n"},
    {"id": "c08-stratified-edges-overlap", "file": _F, "rule": "R3", "find": _STRAT_DRAW, "replace": "        edges = segment * np.arange(batch_size + 1)\n        random_points = rng.uniform(edges[:-1], edges[1:] + segment, batch_size)\n"},
]
BENIGN = [
    {"id": "c08-b-max-early-return", "file": _F, "find": "        self.max_priority = max(np.max(priority), self.max_priority)", "replace": "        batch_max = np.max(priority)\n        if self.max_priority > batch_max:\n            return\n        self.max_priority = batch_max"},
    {"id": "c08-b-subtraj-alias", "file": _F, "find": "        inserted_at = [self.insert_idx]\n        self.insert_idx = (self.insert_idx + 1) % self.buffer_size\n", "replace": "        write_idx = self.insert_idx\n        inserted_at = [write_idx]\n        self.insert_idx = (write_idx + 1) % self.buffer_size\n"},
    {"id": "c08-b-lap-saved-slot", "file": _F, "find": "        self.priority.initialize_priority(self.insert_idx)\n        super().add_sample(**sample)", "replace": "        slot = self.insert_idx\n        super().add_sample(**sample)\n        self.priority.initialize_priority(slot)"},
    {"id": "c08-b-max-np-maximum", "file": _F, "find": "        self.max_priority = max(np.max(priority), self.max_priority)", "replace": "        self.max_priority = np.maximum(self.max_priority, np.max(priority))"},
    {"id": "c08-b-sampler-uniform-total", "file": _F, "find": "        random_uniforms = rng.uniform(0, 1, size=batch_size) * probabilities[-1]", "replace": "        total = probabilities[-1]\n        random_uniforms = rng.uniform(0, total, size=batch_size)"},
    {"id": "c08-b-reset-guard-clause", "file": _F, "find": "        if current_len > 0:\n            self.max_priority = np.max(self.priority[:current_len])", "replace": "        if current_len <= 0:\n            return\n        self.max_priority = np.max(self.priority[:current_len])"},
    {"id": "c08-b-delegate-keyword", "file": _F, "nth": 0, "find": "        self.priority.update_priority(priority)", "replace": "        self.priority.update_priority(priority=priority)"},
    {"id": "c08-b-per-keywords", "file": _F, "find": "        return self.priority.prioritized_sampling(\n            self.current_len, batch_size, rng, self.mask_\n        )", "replace": "        idx = self.priority.prioritized_sampling(\n            current_len=self.current_len, batch_size=batch_size, rng=rng, mask=self.mask_\n        )\n        return idx"},
    {"id": "c08-b-sampler-copy-inplace", "file": _F, "nth": 0, "find": "            priority = priority * mask[:current_len]", "replace": "            priority = priority.copy()\n            priority *= mask[:current_len]"},
    {"id": "c08-b-local-alias", "file": _F, "find": "        self.priority[self.sampled_indices] = priority\n        self.max_priority = max(np.max(priority), self.max_priority)", "replace": "        self.priority[self.sampled_indices] = priority\n        self.max_priority = max(np.max(priority), self.max_priority)\n        assert self.max_priority > 0"},
    {"id": "c08-b-sampler-commuted", "file": _F, "find": "        random_uniforms = rng.uniform(0, 1, size=batch_size) * probabilities[-1]", "replace": "        random_uniforms = probabilities[-1] * rng.uniform(0, 1, size=batch_size)"},
    {"id": "c08-b-td3lap-inline", "file": "rl_blox/algorithm/td3_lap.py", "find": "                priority = lap_priority(\n                    max_abs_td_error, lap_min_priority, lap_alpha\n                )\n                replay_buffer.update_priority(priority)", "replace": "                replay_buffer.update_priority(\n                    lap_priority(max_abs_td_error, lap_min_priority, lap_alpha)\n                )"},
    # tolerances of the evidence-gated rules: receivers through aliases, keyword / positional spellings, renamed parameters, value-transparent wrappers, carriers
    {"id": "c08-b-receiver-alias", "file": _F, "find": "        self.priority.sampled_indices = np.searchsorted(\n            probabilities, random_points\n        )\n        return self.priority.sampled_indices", "replace": "        pb = self.priority\n        pb.sampled_indices = np.searchsorted(probabilities, random_points)\n        return pb.sampled_indices"},
    {"id": "c08-b-extra-copy-on-buffer", "file": _F, "find": "        self.priority.sampled_indices = np.searchsorted(\n            probabilities, random_points\n        )\n        return self.priority.sampled_indices", "replace": "        self.priority.sampled_indices = np.searchsorted(probabilities, random_points)\n        self.sampled_indices = self.priority.sampled_indices\n        return self.priority.sampled_indices"},
    {"id": "c08-b-delegate-alias", "file": _F, "nth": 0, "find": "        self.priority.update_priority(priority)", "replace": "        pb = self.priority\n        pb.update_priority(priority)"},
    {"id": "c08-b-reset-len-self", "file": _F, "nth": 0, "find": "        self.priority.reset_max_priority(self.current_len)", "replace": "        self.priority.reset_max_priority(len(self))"},
    {"id": "c08-b-init-alias-store", "file": _F, "find": "        self.priority[insert_idx] = self.max_priority", "replace": "        store = self.priority\n        store[np.asarray(insert_idx)] = float(self.max_priority)"},
    {"id": "c08-b-lap-keyword-explicit-base", "file": _F, "find": "        self.priority.initialize_priority(self.insert_idx)\n        super().add_sample(**sample)", "replace": "        slot = int(self.insert_idx)\n        ReplayBuffer.add_sample(self, **sample)\n        self.priority.initialize_priority(insert_idx=slot)"},
    {"id": "c08-b-subtraj-per-asarray", "file": _F, "find": "        inserted_at = super().add_sample(**sample)\n        self.priority.initialize_priority(inserted_at)", "replace": "        inserted_at = super().add_sample(**sample)\n        slots = np.asarray(inserted_at)\n        self.priority.initialize_priority(insert_idx=slots)"},
    {"id": "c08-b-subtraj-two-element-list", "file": _F, "edits": [("        inserted_at = [self.insert_idx]\n        self.insert_idx = (self.insert_idx + 1) % self.buffer_size\n", "        first = self.insert_idx\n        self.insert_idx = (self.insert_idx + 1) % self.buffer_size\n"), ("            inserted_at += [self.insert_idx]\n            self.insert_idx = (self.insert_idx + 1) % self.buffer_size\n", "            second = self.insert_idx\n            self.insert_idx = (self.insert_idx + 1) % self.buffer_size\n"), ("            self.episode_timesteps = 0\n\n        return inserted_at", "            self.episode_timesteps = 0\n            return [first, second]\n\n        return [first]")]},
    {"id": "c08-b-sampler-renamed-params", "file": _F, "find": "        current_len: int,\n        batch_size: int,\n        rng: np.random.Generator,\n        mask: npt.NDArray[int] | None = None,\n    ) -> npt.NDArray[int]:\n        \"\"\"Sample indices based on the priority distribution.\"\"\"\n        priority = self.priority[:current_len]\n        if mask is not None:\n            priority = priority * mask[:current_len]\n        probabilities = np.cumsum(priority)\n        random_uniforms = rng.uniform(0, 1, size=batch_size) * probabilities[-1]\n        self.sampled_indices = np.searchsorted(probabilities, random_uniforms)\n        return self.sampled_indices\n", "replace": "        n_valid: int,\n        n_draws: int,\n        gen: np.random.Generator,\n        valid: npt.NDArray[int] | None = None,\n    ) -> npt.NDArray[int]:\n        \"\"\"Sample indices based on the priority distribution.\"\"\"\n        priority = self.priority[:n_valid]\n        if valid is not None:\n            priority = priority * valid[:n_valid]\n        probabilities = np.cumsum(priority)\n        random_uniforms = gen.uniform(0, 1, size=n_draws) * probabilities[-1]\n        self.sampled_indices = np.searchsorted(probabilities, random_uniforms)\n        return self.sampled_indices\n"},
    {"id": "c08-b-uniform-keyword-bounds", "file": _F, "find": "rng.uniform(0, 1, size=batch_size) * probabilities[-1]", "replace": "rng.uniform(low=0.0, high=1.0, size=batch_size) * probabilities[-1]"},
    {"id": "c08-b-uniform-random", "file": _F, "find": "        random_uniforms = rng.uniform(0, 1, size=batch_size) * probabilities[-1]", "replace": "        total = probabilities[-1]\n        u = rng.random(batch_size)\n        random_uniforms = u * total"},
    {"id": "c08-b-searchsorted-keywords", "file": _F, "find": "np.searchsorted(probabilities, random_uniforms)", "replace": "np.searchsorted(a=probabilities, v=random_uniforms, side=\"left\")"},
    {"id": "c08-b-stratified-positional", "file": _F, "find": "        random_points = rng.uniform(\n            low=np.arange(batch_size) * segment,\n            high=(np.arange(batch_size) + 1) * segment,\n            size=batch_size\n        )\n", "replace": "        lower = np.arange(batch_size) * segment\n        random_points = rng.uniform(lower, lower + segment, batch_size)\n"},
    {"id": "c08-b-stratified-k-plus-u", "file": _F, "find": "        random_points = rng.uniform(\n            low=np.arange(batch_size) * segment,\n            high=(np.arange(batch_size) + 1) * segment,\n            size=batch_size\n        )\n", "replace": "        random_points = (np.arange(batch_size) + rng.uniform(0, 1, size=batch_size)) * segment\n"},
    {"id": "c08-b-mask-ifexp-kwonly", "file": _F, "edits": [("        rng: np.random.Generator,\n        mask: npt.NDArray[int] | None = None,\n    ) -> npt.NDArray[int]:\n        \"\"\"Sample indices based on the priority distribution.\"\"\"\n        priority = self.priority[:current_len]\n        if mask is not None:\n            priority = priority * mask[:current_len]\n", "        rng: np.random.Generator,\n        *,\n        mask: npt.NDArray[int] | None = None,\n    ) -> npt.NDArray[int]:\n        \"\"\"Sample indices based on the priority distribution.\"\"\"\n        filled = self.priority[:current_len]\n        priority = filled if mask is None else filled * mask[:current_len]\n"), ("            self.current_len, batch_size, rng, self.mask_\n        )", "            len(self), batch_size, rng, mask=self.mask_\n        )")]},
    {"id": "c08-b-max-amax-branch", "file": _F, "find": "        self.max_priority = max(np.max(priority), self.max_priority)", "replace": "        batch_max = np.amax(priority)\n        if batch_max > self.max_priority:\n            self.max_priority = batch_max"},
    {"id": "c08-b-ratio-one-over", "file": _F, "find": "        is_weight = (self.current_len * priority / sum_probability) ** (-beta)", "replace": "        prob = priority / sum_probability\n        is_weight = (1.0 / (self.current_len * prob)) ** beta"},
    {"id": "c08-b-ratio-recorded-field", "file": _F, "find": "        importance_ratio = self.compute_importance_ratio(indices, beta)", "replace": "        importance_ratio = self.compute_importance_ratio(beta=beta, indices=self.priority.sampled_indices)"},
    {"id": "c08-b-multitask-reset-alias", "file": _F, "find": "        for buffer in self.buffers:\n            buffer.reset_max_priority()", "replace": "        for _i, buffer in enumerate(self.buffers):\n            member = buffer\n            member.reset_max_priority()"},
    {"id": "c08-b-td3lap-aux-carrier", "file": "rl_blox/algorithm/td3_lap.py", "edits": [("from ..blox.replay_buffer import LAP, lap_priority", "from ..blox import replay_buffer as _rb\nfrom ..blox.replay_buffer import LAP, lap_priority"), ("                q_loss_value, (q_mean, max_abs_td_error) = train_step(", "                q_loss_value, aux = train_step("), ("                priority = lap_priority(\n                    max_abs_td_error, lap_min_priority, lap_alpha\n                )\n                replay_buffer.update_priority(priority)", "                q_mean = aux[0]\n                max_abs_td_error = aux[1]\n                errors = max_abs_td_error\n                priority = _rb.lap_priority(errors, alpha=lap_alpha, min_priority=lap_min_priority)\n                replay_buffer.update_priority(priority=np.asarray(priority))")]},
    {"id": "c08-b-td7-whole-result", "file": "rl_blox/algorithm/td7.py", "edits": [("    q_loss_value, max_abs_td_error, q_target = td7_update_critic(", "    critic_out = td7_update_critic("), ("    metrics[\"q loss\"] = q_loss_value\n", "    q_loss_value, max_abs_td_error, q_target = critic_out\n    metrics[\"q loss\"] = q_loss_value\n")]},
    # spellings with one meaning: method form of cumsum / searchsorted, accumulation into a freshly allocated local, len(self), a sampler that forwards to its sibling
    {"id": "c08-b-method-cumsum-searchsorted", "file": _F, "find": "        probabilities = np.cumsum(priority)\n        random_uniforms = rng.uniform(0, 1, size=batch_size) * probabilities[-1]\n        self.sampled_indices = np.searchsorted(probabilities, random_uniforms)", "replace": "        cdf = priority.cumsum()\n        random_uniforms = rng.uniform(0, 1, size=batch_size) * cdf[-1]\n        self.sampled_indices = cdf.searchsorted(random_uniforms, side=\"left\")"},
    {"id": "c08-b-stratified-method-searchsorted", "file": _F, "find": "        self.priority.sampled_indices = np.searchsorted(\n            probabilities, random_points\n        )", "replace": "        self.priority.sampled_indices = probabilities.searchsorted(v=random_points)"},
    {"id": "c08-b-inplace-cumsum-fresh", "file": _F, "nth": 0, "find": "        probabilities = np.cumsum(priority)\n", "replace": "        probabilities = priority * 1.0\n        np.cumsum(probabilities, out=probabilities)\n"},
    {"id": "c08-b-inplace-cumsum-preallocated", "file": _F, "nth": 0, "find": "        probabilities = np.cumsum(priority)\n", "replace": "        probabilities = np.empty(current_len)\n        probabilities = np.cumsum(priority, out=probabilities)\n"},
    {"id": "c08-b-stratified-forwarder", "file": _F, "edits": [
        ("        mask: npt.NDArray[int] | None = None,\n    ) -> npt.NDArray[int]:\n        \"\"\"Sample indices based on the priority distribution.\"\"\"\n", "        mask: npt.NDArray[int] | None = None,\n        *,\n        per_segment: bool = False,\n    ) -> npt.NDArray[int]:\n        \"\"\"Sample indices based on the priority distribution.\"\"\"\n"),
        ("        random_uniforms = rng.uniform(0, 1, size=batch_size) * probabilities[-1]\n", "        if per_segment:\n            width = probabilities[-1] / batch_size\n            random_uniforms = (np.arange(batch_size) + rng.uniform(0, 1, size=batch_size)) * width\n        else:\n            random_uniforms = rng.uniform(0, 1, size=batch_size) * probabilities[-1]\n"),
        ("        priority = self.priority.priority[:current_len]\n        if mask is not None:\n            priority = priority * mask[:current_len]\n        probabilities = np.cumsum(priority)\n\n        # stratified sampling: divide [0, sum_probability] into batch_size segments\n        segment = probabilities[-1] / batch_size\n\n        # sample one uniform value per segment\n        random_points = rng.uniform(\n            low=np.arange(batch_size) * segment,\n            high=(np.arange(batch_size) + 1) * segment,\n            size=batch_size\n        )\n\n        self.priority.sampled_indices = np.searchsorted(\n            probabilities, random_points\n        )\n        return self.priority.sampled_indices\n", "        drawn = self.priority.prioritized_sampling(current_len, batch_size, rng, mask=mask, per_segment=True)\n        return drawn\n")]},
    {"id": "c08-b-ratio-len-self", "file": _F, "edits": [("        is_weight = (self.current_len * priority / sum_probability) ** (-beta)", "        is_weight = (len(self) * priority / sum_probability) ** (-beta)"), ("        normalized_weights = is_weight / np.max(is_weight)", "        normalized_weights = is_weight / is_weight.max()")]},
    {"id": "c08-b-reset-filled-slice-guard", "file": _F, "find": "        if current_len > 0:\n            self.max_priority = np.max(self.priority[:current_len])", "replace": "        stored = self.priority[:current_len]\n        if len(stored) > 0:\n            self.max_priority = stored.max()"},
    {"id": "c08-b-total-kept-for-diagnostics", "file": _F, "nth": 0, "find": "        probabilities = np.cumsum(priority)\n", "replace": "        probabilities = np.cumsum(priority)\n        self.last_total_priority = probabilities[-1]\n"},
    {"id": "c08-b-td7-record-result", "file": "rl_blox/algorithm/td7.py", "edits": _TD7_RECORD + [("        lap_priority(max_abs_td_error, lap_min_priority, lap_alpha)\n", "        lap_priority(out.abs_error, lap_min_priority, lap_alpha)\n")]},
    {"id": "c08-b-per-bound-sampler", "file": "rl_blox/algorithm/per.py", "edits": [_PER_BOUND]},
    {"id": "c08-b-per-sampler-alias", "file": "rl_blox/algorithm/per.py", "edits": [("    epsilon = linear_schedule(total_timesteps)\n", "    sampler = replay_buffer.sample_batch\n    epsilon = linear_schedule(total_timesteps)\n"), ("replay_buffer.sample_batch(batch_size, rng, beta[step])", "sampler(batch_size, rng, beta=beta[step])")]},
    {"id": "c08-b-td7-batch-from-caller", "file": "rl_blox/algorithm/td7.py", "edits": _TD7_CALLER},
    {"id": "c08-b-td7-batch-sampled-in-call", "file": "rl_blox/algorithm/td7.py", "edits": [("                    replay_buffer,\n                    epoch,\n", "                    replay_buffer,\n                    replay_buffer.sample_batch(batch_size, rng),\n                    epoch,\n")] + _TD7_CALLER[2:]},
    {"id": "c08-b-stratified-edges", "file": _F, "find": _STRAT_DRAW, "replace": "        edges = segment * np.arange(batch_size + 1)\n        random_points = rng.uniform(edges[:-1], edges[1:], batch_size)\n"},
    {"id": "c08-b-stratified-grid-views", "file": _F, "find": _STRAT_DRAW, "replace": "        grid = np.arange(1 + batch_size)\n        random_points = rng.uniform(low=grid[:-1] * segment, high=segment * grid[1:], size=batch_size)\n"},
]
