"""C08 - prioritised replay: field ownership, init order, sampler form, bookkeeping, formulas, call-site protocol."""
from __future__ import annotations

import ast

from ..cfg import CFG
from ..loops import dotted
from ..nf import NF, Scope, Poly, parse_expr
from ..repo import Repo, loc, short, AnalysisError, positional_params, param_names
from ..resolve import Resolver

EXPLANATION = (
    "Ownership analysis of the `last sampled batch` field: every write of an attribute is attributed to the class of its receiver "
    "(`self.x` -> enclosing class, `self.priority.x` -> the class assigned to self.priority in __init__); the field that "
    "PriorityBuffer.update_priority reads must be written, on a PriorityBuffer, by every sampler that can feed sample_batch of a buffer "
    "whose update_priority delegates to it. Init order: the priority slot initialised is the slot the transition is written to (before "
    "the ring advances in LAP; the returned `inserted_at` slots in the subtrajectory buffer) and receives max_priority. Sampler form: "
    "inverse-CDF searchsorted(cumsum(p[:len] * mask[:len]), u * total) with u ~ U(0,1) (stratified: per-segment bounds k*total/B, (k+1)*total/B). "
    "Bookkeeping and priority / importance-weight formulas are normal-form identities. Call-site protocol: in the four training loops the "
    "argument of update_priority derives from the update that consumed the batch of the most recent sample_batch on that buffer, with no "
    "other sample_batch on the buffer in between (typestate over the CFG)."
)
TRUSTED = ["numpy cumsum/searchsorted: searchsorted(cumsum(p), u*sum(p)) selects i with probability p_i/sum(p) for u ~ U[0,1)", "rng.uniform(0, 1) draws from [0, 1)"]
RULES = {
    "R1-field-agreement": "the attribute update_priority reads for the last sampled indices is written on the same receiver class by every sampler feeding sample_batch",
    "R2-init-order": "new samples get max_priority at the slot they are written to: LAP initialises self.insert_idx before super().add_sample advances it; the subtrajectory PER initialises the returned inserted_at slots",
    "R3-sampler-form": "indices == searchsorted(cumsum(priority[:len] * mask[:len]), uniform(0,1,B) * total); stratified: uniform(k*total/B, (k+1)*total/B)",
    "R4-bookkeeping": "update_priority: priority[sampled_indices] = new, max_priority = max(max(new), max_priority); reset: max(priority[:len]); buffers delegate to their PriorityBuffer with current_len",
    "R5-formulas": "LAP: max(|d|, p_min)^alpha; PER: |d|^alpha + eps; importance ratio (len * p / sum)^(-beta) normalised by its max",
    "R7-store-writers": "the stored priority array (PriorityBuffer.priority) is written only by __init__, initialize_priority and update_priority: no other function writes it through a subscript store, an augmented assignment or an in-place numpy call, directly or through a view (basic slice, np.asarray, reshape, ravel) held in a local",
    "R8-multitask-routing": "MultiTaskReplayBuffer.update_priority forwards to the member buffer that the last sample_batch sampled from (same index expression, recorded by sample_batch); reset_max_priority reaches every member",
    "R6-call-protocol": "update_priority(<priority of the errors returned by the update that consumed the last sampled batch>) with no sample_batch on that buffer in between",
}

RB = "rl_blox.blox.replay_buffer."


def _m(repo, cq, name):
    m = repo.method(cq, name, inherited=False)
    if m is None:
        raise AnalysisError(f"{cq}.{name} not found (anchor vanished)")
    fn = m[1]
    fn._module = repo.cls(cq)._module
    return fn


def _attr_types(repo, cq):
    """attribute -> class qual from `self.x = Cls(...)` in __init__ (through the MRO)."""
    out = {}
    for c in repo.mro(cq)[::-1]:
        m = repo.method(c, "__init__", inherited=False)
        if not m:
            continue
        mi = repo.cls(c)._module
        for n in ast.walk(m[1]):
            if isinstance(n, ast.Assign) and isinstance(n.targets[0], ast.Attribute) and dotted(n.targets[0].value) == "self" and isinstance(n.value, ast.Call) and isinstance(n.value.func, ast.Name):
                r = repo.resolve_name(mi, n.value.func.id)
                if r and r.startswith("rl_blox."):
                    out[n.targets[0].attr] = r
    return out


def r1_field_agreement(ck, repo):
    PB = RB + "PriorityBuffer"
    up = _m(repo, PB, "update_priority")
    reads = sorted({n.attr for n in ast.walk(up) if isinstance(n, ast.Attribute) and isinstance(n.ctx, ast.Load) and dotted(n.value) == "self" and "ind" in n.attr})
    ck.need(len(reads) == 1, f"{PB}.update_priority: cannot identify the last-sampled-indices field (reads {reads})")
    field = reads[0]
    n_writes = 0
    mi0 = repo.module("rl_blox.blox.replay_buffer")
    for name, node in mi0.defs.items():
        if not isinstance(node, ast.ClassDef):
            continue
        cq = f"{mi0.name}.{name}"
        types = _attr_types(repo, cq)
        for meth in node.body:
            if not isinstance(meth, ast.FunctionDef):
                continue
            for n in ast.walk(meth):
                if isinstance(n, (ast.Assign, ast.AugAssign)):
                    t = n.targets[0] if isinstance(n, ast.Assign) else n.target
                    if isinstance(t, ast.Attribute) and t.attr == field:
                        recv = dotted(t.value)
                        if recv == "self":
                            rc = cq
                        elif recv.startswith("self.") and recv.count(".") == 1:
                            rc = types.get(recv.split(".")[1], "?")
                        else:
                            rc = "?"
                        n_writes += 1
                        if meth.name == "__init__":
                            continue
                        ok = rc == PB
                        ck.ob("R1-field-agreement", f"{cq}.{meth.name}", f"writes:{field}", ok, f"`{short(n, 70)}` (receiver class {rc.rsplit('.', 1)[-1]})",
                              "" if ok else f"`{field}` is stored on a {rc.rsplit('.', 1)[-1]} but PriorityBuffer.update_priority reads its own `{field}`: the priorities of this batch are never updated (or an empty / stale index set is written)", loc(mi0, n))
    ck.floor("sampled-indices-writes", n_writes, 2)
    # every buffer class that delegates update_priority to self.priority must sample through a method that writes the field on the PriorityBuffer
    for cq in (RB + "LAP", RB + "PrioritizedReplayBuffer", RB + "SubtrajectoryReplayBufferPER"):
        m = repo.method(cq, "update_priority")
        ck.need(m is not None, f"{cq}.update_priority not found")
        body = [ast.unparse(s) for s in m[1].body if not (isinstance(s, ast.Expr) and isinstance(s.value, ast.Constant))]
        ok = body == ["self.priority.update_priority(priority)"]
        ck.ob("R4-bookkeeping", f"{cq}.update_priority", "delegates", ok, " ; ".join(body), "" if ok else "buffers must forward the new priorities to their PriorityBuffer", loc(repo.cls(m[0])._module, m[1]))
        m = repo.method(cq, "reset_max_priority")
        body = [ast.unparse(s) for s in m[1].body if not (isinstance(s, ast.Expr) and isinstance(s.value, ast.Constant))]
        ok = body == ["self.priority.reset_max_priority(self.current_len)"]
        ck.ob("R4-bookkeeping", f"{cq}.reset_max_priority", "delegates-with-length", ok, " ; ".join(body), "" if ok else "the reset must consider exactly the filled region", loc(repo.cls(m[0])._module, m[1]))
    return field


_VIEW_METHODS = {"reshape", "ravel", "view", "squeeze", "transpose", "swapaxes"}
_VIEW_FUNCS = {"asarray", "asanyarray", "ravel", "reshape", "atleast_1d", "squeeze", "transpose"}
_INPLACE_METHODS = {"fill", "sort", "put", "itemset", "partition", "setfield", "resize", "clip_", "__setitem__"}
_INPLACE_FUNCS = {"copyto", "put", "place", "putmask", "put_along_axis", "fill_diagonal"}
_WRITERS_ALLOWED = {"__init__", "initialize_priority", "update_priority"}


def _basic_index(ix):
    """True when the subscript is basic indexing producing a numpy *view* (slices / Ellipsis / None only)."""
    if isinstance(ix, ast.Slice):
        return True
    if isinstance(ix, ast.Constant) and ix.value in (Ellipsis, None):
        return True
    if isinstance(ix, ast.Tuple):
        return all(_basic_index(e) or (isinstance(e, ast.Constant) and isinstance(e.value, int)) for e in ix.elts) and any(isinstance(e, ast.Slice) for e in ix.elts)
    return False


def r7_store_writers(ck, repo, res):
    PB = RB + "PriorityBuffer"
    n_fn = n_alias = 0
    for fq, fn, _mi in repo.all_functions():
        if not fq.startswith("rl_blox."):
            continue
        src_has = any(isinstance(n, ast.Attribute) and n.attr == "priority" for n in ast.walk(fn))
        if not src_has:
            continue
        mi = fn._module
        in_pb = fq.startswith(PB + ".")
        mname = fq.rsplit(".", 1)[-1]
        if in_pb and mname in _WRITERS_ALLOWED:
            continue
        n_fn += 1
        cfg = res.cfg_of(fn)

        def is_store(e, at, depth=0):
            """does expression e (evaluated at CFG node `at`) denote the stored priority array or a view of it?"""
            if depth > 8:
                return False
            if isinstance(e, ast.Attribute):
                d = dotted(e)
                if d == "self.priority" and in_pb:
                    return True
                if d and d.endswith(".priority.priority"):
                    return True
                if e.attr == "T":
                    return is_store(e.value, at, depth + 1)
                return False
            if isinstance(e, ast.Subscript):
                return _basic_index(e.slice) and is_store(e.value, at, depth + 1)
            if isinstance(e, ast.Name):
                ds = cfg.defs_of(at, e.id)
                return any(d.kind == "assign" and d.value is not None and is_store(d.value, d.node, depth + 1) for d in ds)
            if isinstance(e, ast.Call):
                f = e.func
                if isinstance(f, ast.Attribute) and f.attr in _VIEW_METHODS and is_store(f.value, at, depth + 1):
                    return True
                if isinstance(f, ast.Attribute) and f.attr in _VIEW_FUNCS and dotted(f.value) in ("np", "numpy") and e.args and is_store(e.args[0], at, depth + 1):
                    return True
            return False

        for node in cfg.nodes:
            if node.ast is None or node.kind != "stmt":
                continue
            st = node.ast
            bad = None
            if isinstance(st, ast.Assign):
                for t in st.targets:
                    for tt in (t.elts if isinstance(t, ast.Tuple) else [t]):
                        if isinstance(tt, ast.Subscript) and is_store(tt.value, node.id):
                            bad = f"subscript store `{short(st, 70)}`"
                        if isinstance(tt, ast.Attribute) and is_store(tt, node.id) and not (in_pb and mname == "__init__"):
                            bad = f"rebinding `{short(st, 70)}`"
            elif isinstance(st, ast.AugAssign):
                t = st.target
                if (isinstance(t, ast.Subscript) and is_store(t.value, node.id)) or is_store(t, node.id):
                    bad = f"in-place `{short(st, 70)}`"
            for c in ast.walk(st):
                if not isinstance(c, ast.Call):
                    continue
                f = c.func
                if isinstance(f, ast.Attribute) and f.attr in _INPLACE_METHODS and is_store(f.value, node.id):
                    bad = f"in-place method `{short(c, 70)}`"
                if isinstance(f, ast.Attribute) and f.attr in _INPLACE_FUNCS and dotted(f.value) in ("np", "numpy") and c.args and is_store(c.args[0], node.id):
                    bad = f"in-place numpy call `{short(c, 70)}`"
                for kw in c.keywords:
                    if kw.arg == "out" and is_store(kw.value, node.id):
                        bad = f"`out=` targets the stored priorities in `{short(c, 70)}`"
            # count views held in locals (instance floor: the samplers do take such views)
            if isinstance(st, ast.Assign) and isinstance(st.targets[0], ast.Name) and is_store(st.value, node.id):
                n_alias += 1
            ck.ob("R7-store-writers", fq, f"stmt:{short(st, 50)}", bad is None, "does not write the stored priorities" if bad is None else bad,
                  "" if bad is None else f"{bad} mutates the stored priority array outside initialize_priority / update_priority: sampling (or another read-only operation) permanently changes the sampling distribution", loc(mi, st)) if (bad or (isinstance(st, (ast.Assign, ast.AugAssign)) and any(isinstance(x, ast.Name) and is_store(x, node.id) for x in ast.walk(st)))) else None
    ck.floor("functions-touching-priority", n_fn, 8)
    ck.floor("views-of-stored-priorities", n_alias, 2)


def r8_multitask(ck, repo, nf):
    MT = RB + "MultiTaskReplayBuffer"
    mi = repo.module("rl_blox.blox.replay_buffer")
    sb = _m(repo, MT, "sample_batch")
    up = _m(repo, MT, "update_priority")
    rs = _m(repo, MT, "reset_max_priority")

    def member_calls(fn, meth):
        out = []
        for c in ast.walk(fn):
            if isinstance(c, ast.Call) and isinstance(c.func, ast.Attribute) and c.func.attr == meth and isinstance(c.func.value, ast.Subscript) and dotted(c.func.value.value) == "self.buffers":
                out.append(c)
        return out
    s_calls = member_calls(sb, "sample_batch")
    u_calls = member_calls(up, "update_priority")
    ck.need(len(s_calls) == 1, f"{MT}.sample_batch: expected exactly one self.buffers[...].sample_batch call")
    s_ix = s_calls[0].func.value.slice
    ok = len(u_calls) == 1 and ast.dump(u_calls[0].func.value.slice) == ast.dump(s_ix)
    ck.ob("R8-multitask-routing", MT + ".update_priority", "same-member-as-last-sample", ok,
          f"sample_batch -> self.buffers[{short(s_ix, 40)}]; update_priority -> {[('self.buffers[' + short(c.func.value.slice, 40) + ']') for c in u_calls]}",
          "" if ok else "the new priorities must go to the member buffer that produced the last batch (its sampled_indices); another member's last-sampled entries would be overwritten instead", loc(mi, up))
    # the index is an attribute recorded by sample_batch itself on every path to the member call, and written nowhere else
    ck.need(isinstance(s_ix, ast.Attribute) and dotted(s_ix.value) == "self", f"{MT}.sample_batch: member index is not an attribute of self")
    cfg = nf.cfg_of(sb)
    w = [n for n in cfg.nodes if n.kind == "stmt" and isinstance(n.ast, ast.Assign) and any(dotted(t) == dotted(s_ix) for t in n.ast.targets)]
    callnode = [n for n in cfg.nodes if n.kind == "stmt" and n.ast is not None and any(c is s_calls[0] for c in ast.walk(n.ast))]
    ok = len(w) == 1 and len(callnode) == 1 and cfg.dominates(w[0].id, callnode[0].id)
    ck.ob("R8-multitask-routing", MT + ".sample_batch", "records-sampled-member", ok, f"`{short(w[0].ast, 80) if w else None}` before the member's sample_batch", "" if ok else "sample_batch must record which member it samples from before delegating", loc(mi, sb))
    other = []
    for meth in repo.cls(MT).body:
        if isinstance(meth, ast.FunctionDef) and meth.name not in ("sample_batch", "__init__"):
            for n in ast.walk(meth):
                if isinstance(n, (ast.Assign, ast.AugAssign)):
                    for t in (n.targets if isinstance(n, ast.Assign) else [n.target]):
                        if dotted(t) == dotted(s_ix):
                            other.append(f"{meth.name}: {short(n, 60)}")
    ck.ob("R8-multitask-routing", MT, "sampled-member-single-writer", not other, f"{dotted(s_ix)} written only by sample_batch", "" if not other else f"{other} overwrites the record of the last sampled member", loc(mi, repo.cls(MT)))
    # the drawn member comes from the non-empty members
    if w:
        txt = ast.unparse(w[0].ast.value)
        ok = "self.active_buffers" in txt and "rng.choice" in txt
        ck.ob("R8-multitask-routing", MT + ".sample_batch", "draws-from-active", ok, txt, "" if ok else "the member must be drawn from the non-empty members with the caller's rng", loc(mi, w[0].ast))
    body = "\n".join(ast.unparse(s) for s in rs.body if not (isinstance(s, ast.Expr) and isinstance(s.value, ast.Constant)))
    ok = body == "for buffer in self.buffers:\n    buffer.reset_max_priority()"
    ck.ob("R8-multitask-routing", MT + ".reset_max_priority", "all-members", ok, body.replace("\n", " "), "" if ok else "every member's maximum must be recomputed", loc(mi, rs))


def run(ck, repo: Repo, tier: str):
    nf = NF(repo, inline_depth=1, inline_calls=False)
    field = r1_field_agreement(ck, repo)
    r7_store_writers(ck, repo, Resolver(repo))
    r8_multitask(ck, repo, nf)
    PB = RB + "PriorityBuffer"
    mi = repo.module("rl_blox.blox.replay_buffer")

    # ---- R2 init order ----------------------------------------------------------------------------------------
    fn = _m(repo, PB, "initialize_priority")
    body = [ast.unparse(s) for s in fn.body if not (isinstance(s, ast.Expr) and isinstance(s.value, ast.Constant))]
    ok = body == ["self.priority[insert_idx] = self.max_priority"]
    ck.ob("R2-init-order", f"{PB}.initialize_priority", "max-priority", ok, " ; ".join(body), "" if ok else "a new transition must receive the current maximum priority at the given slot", loc(mi, fn))
    fn = _m(repo, RB + "LAP", "add_sample")
    cfg = nf.cfg_of(fn)
    init = [n for n in cfg.nodes if n.ast is not None and n.kind == "stmt" and "initialize_priority(" in ast.unparse(n.ast)]
    sup = [n for n in cfg.nodes if n.ast is not None and n.kind == "stmt" and "super().add_sample(" in ast.unparse(n.ast)]
    ok = len(init) == 1 and len(sup) == 1 and ast.unparse(init[0].ast) == "self.priority.initialize_priority(self.insert_idx)" and cfg.dominates(init[0].id, sup[0].id)
    ck.ob("R2-init-order", RB + "LAP.add_sample", "init-before-advance", ok, f"{[ast.unparse(n.ast) for n in init + sup]}", "" if ok else "the priority must be initialised at self.insert_idx *before* the base class advances it (otherwise the next, stale slot is initialised)", loc(mi, fn))
    fn = _m(repo, RB + "SubtrajectoryReplayBufferPER", "add_sample")
    body = [ast.unparse(s) for s in fn.body if not (isinstance(s, ast.Expr) and isinstance(s.value, ast.Constant))]
    ok = body == ["inserted_at = super().add_sample(**sample)", "self.priority.initialize_priority(inserted_at)"]
    ck.ob("R2-init-order", RB + "SubtrajectoryReplayBufferPER.add_sample", "init-returned-slots", ok, " ; ".join(body), "" if ok else "all slots written by the addition (incl. the extra successor row) must receive the maximum priority", loc(mi, fn))
    sfn = _m(repo, RB + "SubtrajectoryReplayBuffer", "add_sample")
    scfg = nf.cfg_of(sfn)
    ins = [n for n in scfg.nodes if n.kind == "stmt" and isinstance(n.ast, (ast.Assign, ast.AugAssign)) and dotted(n.ast.targets[0] if isinstance(n.ast, ast.Assign) else n.ast.target) == "inserted_at"]
    advs = [n for n in scfg.nodes if n.kind == "stmt" and isinstance(n.ast, ast.Assign) and dotted(n.ast.targets[0]) == "self.insert_idx"]
    ok = len(ins) == 2 and len(advs) == 2 and ast.unparse(ins[0].ast.value) == "[self.insert_idx]" and ast.unparse(ins[1].ast.value) == "[self.insert_idx]" \
        and scfg.paths_avoiding(advs[0].id, ins[0].id, set()) is None and scfg.dominates(ins[0].id, advs[0].id) and scfg.dominates(ins[1].id, advs[1].id) and scfg.dominates(advs[0].id, ins[1].id)
    ck.ob("R2-init-order", RB + "SubtrajectoryReplayBuffer.add_sample", "inserted-at-is-written-slot", ok, f"{[ast.unparse(n.ast) for n in ins]}", "" if ok else "inserted_at must record each write position before the position advances", loc(mi, sfn))

    # ---- R3 sampler form ----------------------------------------------------------------------------------------------
    fn = _m(repo, PB, "prioritized_sampling")
    cfg = nf.cfg_of(fn)
    rets = [n for n in cfg.nodes if n.kind == "stmt" and isinstance(n.ast, ast.Return)]
    env = {p: Poly.atom(p, {p}, {p}) for p in positional_params(fn)}
    # with mask
    from ..sympath import enumerate_paths, PathEval
    paths = enumerate_paths(cfg, cfg.entry, {rets[0].id})
    forms = set()
    for p in paths:
        pe = PathEval(nf, cfg, mi, PB + ".prioritized_sampling", env).run(p)
        forms.add(pe.store.get(f"self.{field}", Poly.atom("?")).canon())
    want = {"searchsorted(cumsum(self.priority[:current_len]), cumsum(self.priority[:current_len])[-1]*rng.uniform(0, 1, size=batch_size))",
            "searchsorted(cumsum(mask[:current_len]*self.priority[:current_len]), cumsum(mask[:current_len]*self.priority[:current_len])[-1]*rng.uniform(0, 1, size=batch_size))"}
    ok = forms == want
    ck.ob("R3-sampler-form", PB + ".prioritized_sampling", "inverse-cdf", ok, f"{sorted(forms)}", "" if ok else f"expected searchsorted(cumsum(p[:len][*mask[:len]]), u*total) with u ~ U(0,1): {sorted(want)}", loc(mi, fn))
    ok = ast.unparse(rets[0].ast.value) == f"self.{field}"
    ck.ob("R3-sampler-form", PB + ".prioritized_sampling", "returns-recorded-indices", ok, f"return {ast.unparse(rets[0].ast.value)}", "" if ok else "the indices returned must be the ones recorded for update_priority", loc(mi, fn))
    fn = _m(repo, RB + "PrioritizedReplayBuffer", "prioritized_sampling_stratified")
    cfg = nf.cfg_of(fn)
    rets = [n for n in cfg.nodes if n.kind == "stmt" and isinstance(n.ast, ast.Return)]
    env = {p: Poly.atom(p, {p}, {p}) for p in positional_params(fn)}
    paths = enumerate_paths(cfg, cfg.entry, {rets[0].id})
    forms = set()
    for p in paths:
        pe = PathEval(nf, cfg, mi, "strat", env).run(p[:-1])
        forms.add(pe.ev(rets[0].ast.value).canon())
    P0 = "self.priority.priority[:current_len]"

    def strat(pr):
        spec = (f"np.searchsorted(np.cumsum({pr}), rng.uniform(low=np.arange(batch_size) * (np.cumsum({pr})[-1] / batch_size), "
                f"high=(np.arange(batch_size) + 1) * (np.cumsum({pr})[-1] / batch_size), size=batch_size))")
        return nf.poly(parse_expr(spec), Scope(None, mi, env, "strat"), None).canon()
    want = {strat(P0), strat(f"({P0} * mask[:current_len])")}
    ok = forms == want
    ck.ob("R3-sampler-form", RB + "PrioritizedReplayBuffer.prioritized_sampling_stratified", "stratified-inverse-cdf", ok, f"{sorted(forms)[0][:200]}", "" if ok else "expected one uniform draw per segment [k*total/B, (k+1)*total/B) mapped through the cumulative priorities", loc(mi, fn))

    # ---- R4 bookkeeping ---------------------------------------------------------------------------------------------------
    fn = _m(repo, PB, "update_priority")
    body = [ast.unparse(x) for x in ast.walk(fn) if isinstance(x, (ast.Assign, ast.AugAssign)) and dotted((x.targets[0] if isinstance(x, ast.Assign) else x.target).value if isinstance((x.targets[0] if isinstance(x, ast.Assign) else x.target), ast.Subscript) else (x.targets[0] if isinstance(x, ast.Assign) else x.target)).startswith("self.")]
    cfgu = nf.cfg_of(fn)
    uncond = all(not cfgu.control_deps(n.id) for n in cfgu.nodes if n.kind == "stmt" and isinstance(n.ast, (ast.Assign, ast.AugAssign)))
    ok = body == [f"self.priority[self.{field}] = priority", "self.max_priority = max(np.max(priority), self.max_priority)"] and uncond
    ck.ob("R4-bookkeeping", PB + ".update_priority", "writes-batch-and-raises-max", ok, " ; ".join(body), "" if ok else "must set exactly the last sampled entries and keep max_priority >= every stored priority", loc(mi, fn))
    fn = _m(repo, PB, "reset_max_priority")
    txt = "\n".join(ast.unparse(s) for s in fn.body if not (isinstance(s, ast.Expr) and isinstance(s.value, ast.Constant)))
    ok = txt == "if current_len > 0:\n    self.max_priority = np.max(self.priority[:current_len])"
    ck.ob("R4-bookkeeping", PB + ".reset_max_priority", "true-maximum", ok, txt.replace("\n", " "), "" if ok else "after a reset max_priority must equal the maximum over the filled region", loc(mi, fn))

    # ---- R5 formulas ---------------------------------------------------------------------------------------------------------
    for q, spec in ((RB + "lap_priority", "jnp.maximum(abs_td_error, min_priority) ** alpha"), (RB + "per_priority", "abs_td_error ** alpha + epsion")):
        f = repo.func(q)
        env = {p: Poly.atom(p, {p}, {p}) for p in param_names(f)}
        got = nf.return_poly(q, env)
        want = nf.poly(parse_expr(spec), Scope(None, mi, env, q), None)
        ck.ob("R5-formulas", q, "priority", got == want, f"{got.canon()}", "" if got == want else f"must be {want.canon()} (positive, non-decreasing in |error|)", loc(mi, f))
    fn = _m(repo, RB + "PrioritizedReplayBuffer", "compute_importance_ratio")
    cfg = nf.cfg_of(fn)
    rets = [n for n in cfg.nodes if n.kind == "stmt" and isinstance(n.ast, ast.Return)]
    sc = Scope(cfg, mi, {p: Poly.atom(p, {p}, {p}) for p in positional_params(fn)}, "ir")
    got = nf.poly(rets[0].ast.value, sc, rets[0].id)
    W = "(self.current_len * self.priority.priority[indices] / np.cumsum(self.priority.priority[indices])[-1]) ** (-beta)"
    want = nf.poly(parse_expr(f"{W} / np.max({W})"), Scope(None, mi, sc.env, "ir"), None)
    ck.ob("R5-formulas", RB + "PrioritizedReplayBuffer.compute_importance_ratio", "importance-ratio", got == want, f"{got.canon()[:170]}", "" if got == want else "must be (len*p/sum p)^(-beta) divided by its maximum (weights in (0,1], maximum 1, non-increasing in p)", loc(mi, fn))
    # PER sample_batch computes the ratio for the sampled indices
    fn = _m(repo, RB + "PrioritizedReplayBuffer", "sample_batch")
    txt = "\n".join(ast.unparse(s) for s in fn.body)
    ok = "importance_ratio = self.compute_importance_ratio(indices, beta)" in txt
    ck.ob("R5-formulas", RB + "PrioritizedReplayBuffer.sample_batch", "ratio-of-sampled-indices", ok, "importance_ratio = compute_importance_ratio(indices, beta)", "" if ok else "weights must belong to the rows of the returned batch", loc(mi, fn))
    # subtrajectory PER passes its mask
    fn = _m(repo, RB + "SubtrajectoryReplayBufferPER", "_sample_idx")
    rets = [n for n in ast.walk(fn) if isinstance(n, ast.Return)]
    ok = len(rets) == 1 and ast.unparse(rets[0].value) == "self.priority.prioritized_sampling(self.current_len, batch_size, rng, self.mask_)"
    ck.ob("R3-sampler-form", RB + "SubtrajectoryReplayBufferPER._sample_idx", "masked", ok, f"return {ast.unparse(rets[0].value) if rets else None}", "" if ok else "masked-out start indices must get zero probability: the sampler needs current_len and mask_", loc(mi, fn))

    # ---- R6 call-site protocol ---------------------------------------------------------------------------------------------------
    res = Resolver(repo)
    sites = {
        # (priority function, position of the absolute TD error in the update's result - confirmed against the callees' return statements)
        "rl_blox.algorithm.td3_lap.train_td3_lap": ("lap_priority", (1, 1)),
        "rl_blox.algorithm.td7._train_step": ("lap_priority", (1,)),
        "rl_blox.algorithm.mrq.train_mrq": ("lap_priority", (4,)),
        "rl_blox.algorithm.per.train_ddqn_per": ("per_priority", (1, 1)),
    }
    for tq, (prio_fn, err_path) in sites.items():
        fn = repo.func(tq)
        tmi = fn._module
        cfg = res.cfg_of(fn)
        ups = [(n, c) for n in cfg.nodes if n.ast is not None and n.kind == "stmt" for c in ast.walk(n.ast) if isinstance(c, ast.Call) and isinstance(c.func, ast.Attribute) and c.func.attr == "update_priority"]
        ck.need(len(ups) == 1, f"{tq}: expected one update_priority call")
        n, c = ups[0]
        buf = dotted(c.func.value)
        arg = c.args[0]
        # priority value: <prio_fn>(<errors>, ...) possibly via a local
        pe = arg
        if isinstance(pe, ast.Name):
            ds = cfg.defs_of(n.id, pe.id)
            pe = ds[0].value if len(ds) == 1 and ds[0].kind == "assign" else pe
        ok = isinstance(pe, ast.Call) and isinstance(pe.func, ast.Name) and repo.resolve_name(tmi, pe.func.id) == RB + prio_fn
        ck.ob("R6-call-protocol", tq, "priority-function", ok, f"update_priority({short(pe, 70)})", "" if ok else f"priorities must be computed by {prio_fn}", loc(tmi, c))
        if not ok:
            continue
        err = pe.args[0]
        ck.need(isinstance(err, ast.Name), f"{tq}: TD-error argument is not a variable")
        eds = cfg.defs_of(n.id, err.id)
        okd = len(eds) == 1 and eds[0].kind == "unpack" and isinstance(eds[0].value, ast.Call) and tuple(eds[0].path) == tuple(err_path)
        ck.ob("R6-call-protocol", tq, "errors-from-update", okd, f"{err.id} <- result{list(eds[0].path) if eds else '?'} of {short(eds[0].value, 50) if eds and eds[0].value is not None else None}",
              "" if okd else f"the priorities must be computed from the absolute TD errors (result position {list(err_path)} of the update call), not from another result", loc(tmi, c))
        if not okd:
            continue
        upd_node = eds[0].node
        upd_call = eds[0].value
        # the batch consumed by that update comes from the most recent sample_batch on the same buffer
        samples = [m for m in cfg.nodes if m.ast is not None and m.kind == "stmt" and any(isinstance(x, ast.Call) and isinstance(x.func, ast.Attribute) and x.func.attr == "sample_batch" and dotted(x.func.value) == buf for x in ast.walk(m.ast))]
        ck.need(samples, f"{tq}: no sample_batch on `{buf}`")
        names_in_update = {x.id for x in ast.walk(upd_call) if isinstance(x, ast.Name)}
        feeding = []
        for m in samples:
            defined = {d.name for d in m.defs}
            if defined & names_in_update and any((m.id, nm) in cfg.reaching()[upd_node].get(nm, frozenset()) for nm in defined):
                feeding.append(m)
        okf = len(feeding) == 1
        ck.ob("R6-call-protocol", tq, "batch-feeds-update", okf, f"batch of `{short(feeding[0].ast, 60) if feeding else None}` consumed by `{short(upd_call, 50)}`", "" if okf else "the update must consume the batch of exactly one sample_batch on this buffer", loc(tmi, upd_call))
        if not okf:
            continue
        s0 = feeding[0]
        others = {m.id for m in samples}
        # no sample_batch on the buffer between the feeding sample and update_priority
        p = None
        for m in samples:
            if m.id == s0.id:
                continue
            p1 = cfg.paths_avoiding(s0.id, m.id, {n.id})
            p2 = cfg.paths_avoiding(m.id, n.id, {s0.id}) if p1 is not None else None
            if p1 is not None and p2 is not None:
                p = p1 + p2[1:]
        ck.ob("R6-call-protocol", tq, "no-resample-in-between", p is None, f"sample_batch -> update -> update_priority on `{buf}`",
              "" if p is None else "another sample_batch on the same buffer lies between the batch whose errors are used and update_priority: the priorities are written to the wrong transitions", loc(tmi, c),
              cfg.describe_path(p) if p else None)
        dom = cfg.dominates(s0.id, n.id) and cfg.dominates(upd_node, n.id)
        ck.ob("R6-call-protocol", tq, "sample-dominates-update", dom, "every path to update_priority passes the sampling and the update", "" if dom else "update_priority can be reached without a fresh sample / update", loc(tmi, c))


_F = "rl_blox/blox/replay_buffer.py"
MUTANTS = [
    {"id": "c08-indices-on-buffer", "file": _F, "rule": "R1", "find": "        self.priority.sampled_indices = np.searchsorted(\n            probabilities, random_points\n        )\n        return self.priority.sampled_indices", "replace": "        self.sampled_indices = np.searchsorted(probabilities, random_points)\n        return self.sampled_indices"},
    {"id": "c08-init-after-add", "file": _F, "rule": "R2", "find": "        self.priority.initialize_priority(self.insert_idx)\n        super().add_sample(**sample)", "replace": "        super().add_sample(**sample)\n        self.priority.initialize_priority(self.insert_idx)"},
    {"id": "c08-init-one", "file": _F, "rule": "R2", "find": "        self.priority[insert_idx] = self.max_priority", "replace": "        self.priority[insert_idx] = 1.0"},
    {"id": "c08-subtraj-init-first-only", "file": _F, "rule": "R2", "find": "        self.priority.initialize_priority(inserted_at)", "replace": "        self.priority.initialize_priority(inserted_at[0])"},
    {"id": "c08-sampler-no-mask-slice", "file": _F, "rule": "R3", "nth": 0, "find": "            priority = priority * mask[:current_len]", "replace": "            priority = priority + mask[:current_len]"},
    {"id": "c08-sampler-uniform-total", "file": _F, "rule": "R3", "find": "        random_uniforms = rng.uniform(0, 1, size=batch_size) * probabilities[-1]", "replace": "        random_uniforms = rng.uniform(0, 1, size=batch_size) * probabilities[0]"},
    {"id": "c08-sampler-searchsorted-priority", "file": _F, "rule": "R3", "find": "        self.sampled_indices = np.searchsorted(probabilities, random_uniforms)", "replace": "        self.sampled_indices = np.searchsorted(priority, random_uniforms)"},
    {"id": "c08-stratified-segments", "file": _F, "rule": "R3", "find": "            high=(np.arange(batch_size) + 1) * segment,", "replace": "            high=(np.arange(batch_size) + 2) * segment,"},
    {"id": "c08-max-overwritten", "file": _F, "rule": "R4", "find": "        self.max_priority = max(np.max(priority), self.max_priority)", "replace": "        self.max_priority = np.max(priority)"},
    {"id": "c08-reset-whole-array", "file": _F, "rule": "R4", "find": "            self.max_priority = np.max(self.priority[:current_len])", "replace": "            self.max_priority = np.max(self.priority)"},
    {"id": "c08-lap-min", "file": _F, "rule": "R5", "find": "    return jnp.maximum(abs_td_error, min_priority) ** alpha", "replace": "    return jnp.minimum(abs_td_error, min_priority) ** alpha"},
    {"id": "c08-per-no-eps", "file": _F, "rule": "R5", "find": "    return abs_td_error ** alpha + epsion", "replace": "    return abs_td_error ** alpha"},
    {"id": "c08-is-plus-beta", "file": _F, "rule": "R5", "find": "        is_weight = (self.current_len * priority / sum_probability) ** (-beta)", "replace": "        is_weight = (self.current_len * priority / sum_probability) ** beta"},
    {"id": "c08-is-not-normalised", "file": _F, "rule": "R5", "find": "        normalized_weights = is_weight / np.max(is_weight)", "replace": "        normalized_weights = is_weight / np.sum(is_weight)"},
    {"id": "c08-subtraj-unmasked", "file": _F, "rule": "R3", "find": "            self.current_len, batch_size, rng, self.mask_\n        )", "replace": "            self.current_len, batch_size, rng\n        )"},
    {"id": "c08-td3lap-resample", "file": "rl_blox/algorithm/td3_lap.py", "rule": "R6", "find": "                priority = lap_priority(\n                    max_abs_td_error, lap_min_priority, lap_alpha\n                )\n", "replace": "                priority = lap_priority(\n                    max_abs_td_error, lap_min_priority, lap_alpha\n                )\n                if logger is not None and step % 1000 == 0:\n                    logger.record_stat(\"batch reward\", float(replay_buffer.sample_batch(batch_size, rng).reward.mean()))\n"},
    {"id": "c08-mrq-priority-before-update", "file": "rl_blox/algorithm/mrq.py", "rule": "R6", "find": "            replay_buffer.update_priority(\n                lap_priority(max_abs_td_error, lap_min_priority, lap_alpha)\n            )", "replace": "            replay_buffer.update_priority(\n                lap_priority(q_mean, lap_min_priority, lap_alpha)\n            )"},
    {"id": "c08-per-lap-priority", "file": "rl_blox/algorithm/per.py", "rule": "R6", "find": "                priority = per_priority(\n                    abs_td_error, alpha=per_alpha, epsion=1e-6\n                )", "replace": "                priority = abs_td_error"},
    {"id": "c08-sampler-inplace-mask", "file": _F, "rule": "R7", "nth": 0, "find": "            priority = priority * mask[:current_len]", "replace": "            priority *= mask[:current_len]"},
    {"id": "c08-stratified-inplace-normalise", "file": _F, "rule": "R7", "find": "        probabilities = np.cumsum(priority)\n\n        # stratified", "replace": "        priority /= priority.sum()\n        probabilities = np.cumsum(priority)\n\n        # stratified"},
    {"id": "c08-ratio-out-param", "file": _F, "rule": "R7", "find": "        normalized_weights = is_weight / np.max(is_weight)", "replace": "        normalized_weights = np.divide(is_weight, np.max(is_weight), out=self.priority.priority[: len(is_weight)])"},
    {"id": "c08-multitask-selected", "file": _F, "rule": "R8", "find": "        self.buffers[self.sampled_task_idx].update_priority(priority)", "replace": "        self.buffers[self.selected_task].update_priority(priority)"},
    {"id": "c08-multitask-reset-selected", "file": _F, "rule": "R8", "find": "        for buffer in self.buffers:\n            buffer.reset_max_priority()", "replace": "        self.buffers[self.selected_task].reset_max_priority()"},
]
BENIGN = [
    {"id": "c08-b-sampler-copy-inplace", "file": _F, "nth": 0, "find": "            priority = priority * mask[:current_len]", "replace": "            priority = priority.copy()\n            priority *= mask[:current_len]"},
    {"id": "c08-b-local-alias", "file": _F, "find": "        self.priority[self.sampled_indices] = priority\n        self.max_priority = max(np.max(priority), self.max_priority)", "replace": "        self.priority[self.sampled_indices] = priority\n        self.max_priority = max(np.max(priority), self.max_priority)\n        assert self.max_priority > 0"},
    {"id": "c08-b-sampler-commuted", "file": _F, "find": "        random_uniforms = rng.uniform(0, 1, size=batch_size) * probabilities[-1]", "replace": "        random_uniforms = probabilities[-1] * rng.uniform(0, 1, size=batch_size)"},
    {"id": "c08-b-td3lap-inline", "file": "rl_blox/algorithm/td3_lap.py", "find": "                priority = lap_priority(\n                    max_abs_td_error, lap_min_priority, lap_alpha\n                )\n                replay_buffer.update_priority(priority)", "replace": "                replay_buffer.update_priority(\n                    lap_priority(max_abs_td_error, lap_min_priority, lap_alpha)\n                )"},
]
