"""C08 - prioritised replay: field ownership, init order, sampler form, bookkeeping, formulas, call-site protocol."""
from __future__ import annotations

import ast

from ..cfg import CFG
from ..loops import dotted
from ..nf import NF, Scope, Poly, parse_expr
from ..repo import Repo, loc, short, AnalysisError, positional_params, param_names, bind_call
from ..resolve import Resolver
from ..sem import same_ingredients, guard_literals, spec as sem_spec, stmt_calls, on_every_path_once, arg_of

EXPLANATION = (
    "Ownership analysis of the `last sampled batch` field: every write of an attribute is attributed to the class of its receiver "
    "(`self.x` -> enclosing class, `self.priority.x` -> the class assigned to self.priority in __init__); the field that "
    "PriorityBuffer.update_priority reads must be written, on a PriorityBuffer, by every sampler that can feed sample_batch of a buffer "
    "whose update_priority delegates to it. Init order: the priority slot initialised is the slot the transition is written to (before "
    "the ring advances in LAP; the returned `inserted_at` slots in the subtrajectory buffer) and receives max_priority. Sampler form: "
    "inverse-CDF searchsorted(cumsum(p[:len] * mask[:len]), u * total) with u ~ U(0,1) (stratified: per-segment bounds k*total/B, (k+1)*total/B). "
    "Bookkeeping and priority / importance-weight formulas are normal-form identities. Call-site protocol: in the four training loops the "
    "argument of update_priority derives from the update that consumed the batch of the most recent sample_batch on that buffer, with no "
    "other sample_batch on the buffer in between (typestate over the CFG)."
)
TRUSTED = ["numpy cumsum/searchsorted: searchsorted(cumsum(p), u*sum(p)) selects i with probability p_i/sum(p) for u ~ U[0,1)", "rng.uniform(0, 1) draws from [0, 1)"]
RULES = {
    "R1-field-agreement": "the attribute update_priority reads for the last sampled indices is written on the same receiver class by every sampler feeding sample_batch",
    "R2-init-order": "new samples get max_priority at the slot they are written to: LAP initialises self.insert_idx before super().add_sample advances it; the subtrajectory PER initialises the returned inserted_at slots",
    "R3-sampler-form": "indices == searchsorted(cumsum(priority[:len] * mask[:len]), uniform(0,1,B) * total); stratified: uniform(k*total/B, (k+1)*total/B)",
    "R4-bookkeeping": "update_priority: priority[sampled_indices] = new, max_priority = max(max(new), max_priority); reset: max(priority[:len]); buffers delegate to their PriorityBuffer with current_len",
    "R5-formulas": "LAP: max(|d|, p_min)^alpha; PER: |d|^alpha + eps; importance ratio (len * p / sum)^(-beta) normalised by its max",
    "R7-store-writers": "the stored priority array (PriorityBuffer.priority) is written only by __init__, initialize_priority and update_priority: no other function writes it through a subscript store, an augmented assignment or an in-place numpy call, directly or through a view (basic slice, np.asarray, reshape, ravel) held in a local",
    "R8-multitask-routing": "MultiTaskReplayBuffer.update_priority forwards to the member buffer that the last sample_batch sampled from (same index expression, recorded by sample_batch); reset_max_priority reaches every member",
    "R6-call-protocol": "update_priority(<priority of the errors returned by the update that consumed the last sampled batch>) with no sample_batch on that buffer in between",
}

RB = "rl_blox.blox.replay_buffer."


def _top(txt: str) -> str:
    """txt with every bracketed group removed (to look for top-level commas)."""
    out, depth = "", 0
    for ch in txt:
        if ch in "([{":
            depth += 1
        elif ch in ")]}":
            depth -= 1
        elif depth == 0:
            out += ch
    return out


def sem_split_args(inner: str) -> list:
    """Top-level comma split of a canonical argument list."""
    out, depth, cur = [], 0, ""
    for ch in inner:
        if ch in "([{":
            depth += 1
        elif ch in ")]}":
            depth -= 1
        if ch == "," and depth == 0:
            out.append(cur.strip())
            cur = ""
        else:
            cur += ch
    if cur.strip():
        out.append(cur.strip())
    return out


def _m(repo, cq, name):
    m = repo.method(cq, name, inherited=False)
    if m is None:
        raise AnalysisError(f"{cq}.{name} not found (anchor vanished)")
    fn = m[1]
    fn._module = repo.cls(cq)._module
    return fn


def _attr_types(repo, cq):
    """attribute -> class qual from `self.x = Cls(...)` in __init__ (through the MRO)."""
    out = {}
    for c in repo.mro(cq)[::-1]:
        m = repo.method(c, "__init__", inherited=False)
        if not m:
            continue
        mi = repo.cls(c)._module
        for n in ast.walk(m[1]):
            if isinstance(n, ast.Assign) and isinstance(n.targets[0], ast.Attribute) and dotted(n.targets[0].value) == "self" and isinstance(n.value, ast.Call) and isinstance(n.value.func, ast.Name):
                r = repo.resolve_name(mi, n.value.func.id)
                if r and r.startswith("rl_blox."):
                    out[n.targets[0].attr] = r
    return out


def r1_field_agreement(ck, repo):
    PB = RB + "PriorityBuffer"
    up = _m(repo, PB, "update_priority")
    reads = sorted({n.attr for n in ast.walk(up) if isinstance(n, ast.Attribute) and isinstance(n.ctx, ast.Load) and dotted(n.value) == "self" and "ind" in n.attr})
    ck.need(len(reads) == 1, f"{PB}.update_priority: cannot identify the last-sampled-indices field (reads {reads})")
    field = reads[0]
    n_writes = 0
    mi0 = repo.module("rl_blox.blox.replay_buffer")
    for name, node, mi0 in repo.module_members("rl_blox.blox.replay_buffer"):
        if not isinstance(node, ast.ClassDef):
            continue
        cq = f"rl_blox.blox.replay_buffer.{name}"
        types = _attr_types(repo, cq)
        for meth in node.body:
            if not isinstance(meth, ast.FunctionDef):
                continue
            for n in ast.walk(meth):
                if isinstance(n, (ast.Assign, ast.AugAssign)):
                    t = n.targets[0] if isinstance(n, ast.Assign) else n.target
                    if isinstance(t, ast.Attribute) and t.attr == field:
                        recv = dotted(t.value)
                        if recv == "self":
                            rc = cq
                        elif recv.startswith("self.") and recv.count(".") == 1:
                            rc = types.get(recv.split(".")[1], "?")
                        else:
                            rc = "?"
                        n_writes += 1
                        if meth.name == "__init__":
                            continue
                        ok = rc == PB
                        ck.ob("R1-field-agreement", f"{cq}.{meth.name}", f"writes:{field}", ok, f"`{short(n, 70)}` (receiver class {rc.rsplit('.', 1)[-1]})",
                              "" if ok else f"`{field}` is stored on a {rc.rsplit('.', 1)[-1]} but PriorityBuffer.update_priority reads its own `{field}`: the priorities of this batch are never updated (or an empty / stale index set is written)", loc(mi0, n))
    ck.floor("sampled-indices-writes", n_writes, 2)
    # every buffer class that delegates update_priority to self.priority must sample through a method that writes the field on the PriorityBuffer
    nf0 = NF(repo, inline_depth=1, inline_calls=False)
    for cq in (RB + "LAP", RB + "PrioritizedReplayBuffer", RB + "SubtrajectoryReplayBufferPER"):
        for meth, want_arg in (("update_priority", None), ("reset_max_priority", "self.current_len")):
            m = repo.method(cq, meth)
            ck.need(m is not None, f"{cq}.{meth} not found")
            fn = m[1]
            fmi = repo.cls(m[0])._module
            fn._module = fmi
            cfg = nf0.cfg_of(fn)
            calls = stmt_calls(cfg, lambda c: isinstance(c.func, ast.Attribute) and c.func.attr == meth and dotted(c.func.value) == "self.priority")
            once = on_every_path_once(cfg, [n.id for n, _ in calls])
            params = [p_ for p_ in positional_params(fn) if p_ != "self"]
            args_ok = True
            for n, c in calls:
                a = c.args[0] if c.args else (c.keywords[0].value if c.keywords else None)
                got = nf0.poly(a, Scope(cfg, fmi, {}, cq), n.id).canon() if a is not None else None
                args_ok &= (got == (want_arg if want_arg else (params[0] if params else None)))
            ok = once and args_ok
            key = "delegates" if meth == "update_priority" else "delegates-with-length"
            ck.ob("R4-bookkeeping", f"{cq}.{meth}", key, ok, "; ".join(short(c, 60) for _, c in calls) or "no call",
                  "" if ok else ("buffers must forward the new priorities, unchanged and exactly once, to their PriorityBuffer" if meth == "update_priority" else "the reset must consider exactly the filled region (current_len)"), loc(fmi, fn))
    return field


_VIEW_METHODS = {"reshape", "ravel", "view", "squeeze", "transpose", "swapaxes"}
_VIEW_FUNCS = {"asarray", "asanyarray", "ravel", "reshape", "atleast_1d", "squeeze", "transpose"}
_INPLACE_METHODS = {"fill", "sort", "put", "itemset", "partition", "setfield", "resize", "clip_", "__setitem__"}
_INPLACE_FUNCS = {"copyto", "put", "place", "putmask", "put_along_axis", "fill_diagonal"}
_WRITERS_ALLOWED = {"__init__", "initialize_priority", "update_priority"}


def _basic_index(ix):
    """True when the subscript is basic indexing producing a numpy *view* (slices / Ellipsis / None only)."""
    if isinstance(ix, ast.Slice):
        return True
    if isinstance(ix, ast.Constant) and ix.value in (Ellipsis, None):
        return True
    if isinstance(ix, ast.Tuple):
        return all(_basic_index(e) or (isinstance(e, ast.Constant) and isinstance(e.value, int)) for e in ix.elts) and any(isinstance(e, ast.Slice) for e in ix.elts)
    return False


def r7_store_writers(ck, repo, res):
    PB = RB + "PriorityBuffer"
    n_fn = n_alias = 0
    READ_ONLY = {"sample_batch", "_sample_idx", "prioritized_sampling", "prioritized_sampling_stratified", "compute_importance_ratio", "reset_max_priority", "__len__", "reward_scale", "__getstate__"}
    for fq, fn, _mi in repo.all_functions():
        if not fq.startswith("rl_blox."):
            continue
        src_has = any(isinstance(n, ast.Attribute) and n.attr == "priority" for n in ast.walk(fn))
        if not src_has:
            continue
        mi = fn._module
        in_pb = fq.startswith(PB + ".")
        mname = fq.rsplit(".", 1)[-1]
        if in_pb and mname in _WRITERS_ALLOWED:
            continue
        # the rule is about read-only operations: sampling, weights, length, reset of the tracked maximum (which reads the array);
        # additions and priority updates are writers by contract and are decided by R2 / R4
        if fq.startswith(RB) and mname not in READ_ONLY:
            continue
        n_fn += 1
        cfg = res.cfg_of(fn)

        def is_store(e, at, depth=0):
            """does expression e (evaluated at CFG node `at`) denote the stored priority array or a view of it?"""
            if depth > 8:
                return False
            if isinstance(e, ast.Attribute):
                d = dotted(e)
                if d == "self.priority" and in_pb:
                    return True
                if d and d.endswith(".priority.priority"):
                    return True
                if e.attr == "T":
                    return is_store(e.value, at, depth + 1)
                return False
            if isinstance(e, ast.Subscript):
                return _basic_index(e.slice) and is_store(e.value, at, depth + 1)
            if isinstance(e, ast.Name):
                ds = cfg.defs_of(at, e.id)
                return any(d.kind == "assign" and d.value is not None and is_store(d.value, d.node, depth + 1) for d in ds)
            if isinstance(e, ast.Call):
                f = e.func
                if isinstance(f, ast.Attribute) and f.attr in _VIEW_METHODS and is_store(f.value, at, depth + 1):
                    return True
                if isinstance(f, ast.Attribute) and f.attr in _VIEW_FUNCS and dotted(f.value) in ("np", "numpy") and e.args and is_store(e.args[0], at, depth + 1):
                    return True
            return False

        for node in cfg.nodes:
            if node.ast is None or node.kind != "stmt":
                continue
            st = node.ast
            bad = None
            if isinstance(st, ast.Assign):
                for t in st.targets:
                    for tt in (t.elts if isinstance(t, ast.Tuple) else [t]):
                        if isinstance(tt, ast.Subscript) and is_store(tt.value, node.id):
                            bad = f"subscript store `{short(st, 70)}`"
                        if isinstance(tt, ast.Attribute) and is_store(tt, node.id) and not (in_pb and mname == "__init__"):
                            bad = f"rebinding `{short(st, 70)}`"
            elif isinstance(st, ast.AugAssign):
                t = st.target
                if (isinstance(t, ast.Subscript) and is_store(t.value, node.id)) or is_store(t, node.id):
                    bad = f"in-place `{short(st, 70)}`"
            for c in ast.walk(st):
                if not isinstance(c, ast.Call):
                    continue
                f = c.func
                if isinstance(f, ast.Attribute) and f.attr in _INPLACE_METHODS and is_store(f.value, node.id):
                    bad = f"in-place method `{short(c, 70)}`"
                if isinstance(f, ast.Attribute) and f.attr in _INPLACE_FUNCS and dotted(f.value) in ("np", "numpy") and c.args and is_store(c.args[0], node.id):
                    bad = f"in-place numpy call `{short(c, 70)}`"
                for kw in c.keywords:
                    if kw.arg == "out" and is_store(kw.value, node.id):
                        bad = f"`out=` targets the stored priorities in `{short(c, 70)}`"
            # count views held in locals (instance floor: the samplers do take such views)
            if isinstance(st, ast.Assign) and isinstance(st.targets[0], ast.Name) and is_store(st.value, node.id):
                n_alias += 1
            ck.ob("R7-store-writers", fq, f"stmt:{short(st, 50)}", bad is None, "does not write the stored priorities" if bad is None else bad,
                  "" if bad is None else f"{bad} mutates the stored priority array outside initialize_priority / update_priority: sampling (or another read-only operation) permanently changes the sampling distribution", loc(mi, st)) if (bad or (isinstance(st, (ast.Assign, ast.AugAssign)) and any(isinstance(x, ast.Name) and is_store(x, node.id) for x in ast.walk(st)))) else None
    ck.floor("functions-touching-priority", n_fn, 5)
    ck.count("views-of-stored-priorities", n_alias)


def r8_multitask(ck, repo, nf):
    """update_priority reaches the member the last batch came from: both receivers are self.buffers[<same recorded attribute>]."""
    MT = RB + "MultiTaskReplayBuffer"
    mi = repo.module("rl_blox.blox.replay_buffer")
    sb = _m(repo, MT, "sample_batch")
    up = _m(repo, MT, "update_priority")
    rs = _m(repo, MT, "reset_max_priority")
    from ..sem import recv_canon

    def member_calls(fn, meth):
        cfg = nf.cfg_of(fn)
        out = []
        for n, c in stmt_calls(cfg, lambda c: isinstance(c.func, ast.Attribute) and c.func.attr == meth):
            r = recv_canon(nf, cfg, mi, n, c)
            if r.startswith("self.buffers[") and r.endswith("]"):
                out.append((cfg, n, c, r[len("self.buffers["):-1]))
        return out
    s_calls = member_calls(sb, "sample_batch")
    u_calls = member_calls(up, "update_priority")
    ck.need(len(s_calls) == 1, f"{MT}.sample_batch: expected exactly one self.buffers[...].sample_batch call")
    ck.need(len(u_calls) >= 1, f"{MT}.update_priority: no self.buffers[...].update_priority call (unrecognised idiom)")
    scfg, sn, sc_, s_ix = s_calls[0]
    if len(u_calls) != 1 or not on_every_path_once(u_calls[0][0], [u_calls[0][1].id]):
        ck.ob("R8-multitask-routing", MT + ".update_priority", "same-member-as-last-sample", False, f"update_priority -> {['self.buffers[' + u[3] + ']' for u in u_calls]}",
              "exactly one member must receive the new priorities on every path", loc(mi, up))
        return
    u_ix = u_calls[0][3]
    ck.need(u_ix.startswith("self.") and u_ix[5:].isidentifier(), f"{MT}.update_priority: member index `{u_ix}` is not a recorded attribute of self (unrecognised idiom)")
    # value identity inside sample_batch: the member sampled from is buffers[V] and the recorded attribute holds the same V at that point
    full = Scope(scfg, mi, {}, MT)
    rv_ = sc_.func.value
    if isinstance(rv_, ast.Name):
        ds_ = scfg.defs_of(sn.id, rv_.id)
        ck.need(len(ds_) == 1 and ds_[0].kind == "assign" and isinstance(ds_[0].value, ast.Subscript), f"{MT}.sample_batch: member alias `{rv_.id}` not recognised")
        idx_val = nf.poly(ds_[0].value.slice, full, ds_[0].node).canon()
    else:
        ck.need(isinstance(rv_, ast.Subscript), f"{MT}.sample_batch: member receiver `{short(rv_)}` not recognised")
        idx_val = nf.poly(rv_.slice, full, sn.id).canon()
    w = [n for n in scfg.nodes if n.kind == "stmt" and isinstance(n.ast, ast.Assign) and any(dotted(t) == u_ix for t in n.ast.targets)]
    rec_val = nf.poly(w[0].ast.value, full, w[0].id).canon() if len(w) == 1 else None
    ok = len(w) == 1 and scfg.dominates(w[0].id, sn.id) and rec_val == idx_val
    ck.ob("R8-multitask-routing", MT + ".update_priority", "same-member-as-last-sample", ok,
          f"sample_batch samples buffers[{idx_val[:60]}] and records {u_ix} = {(rec_val or 'nothing')[:60]}; update_priority -> self.buffers[{u_ix}]",
          "" if ok else "the new priorities must go to the member buffer that produced the last batch (its sampled_indices): the index update_priority uses is not the one sample_batch sampled from", loc(mi, up))
    other = []
    for meth in repo.cls(MT).body:
        if isinstance(meth, ast.FunctionDef) and meth.name not in ("sample_batch", "__init__"):
            for n in ast.walk(meth):
                if isinstance(n, (ast.Assign, ast.AugAssign)):
                    for t in (n.targets if isinstance(n, ast.Assign) else [n.target]):
                        if dotted(t) == u_ix:
                            other.append(f"{meth.name}: {short(n, 60)}")
    ck.ob("R8-multitask-routing", MT, "sampled-member-single-writer", not other, f"{u_ix} written only by sample_batch", "" if not other else f"{other} overwrites the record of the last sampled member", loc(mi, repo.cls(MT)))
    # every member's maximum is recomputed by reset_max_priority
    rcfg = nf.cfg_of(rs)
    loops_ = [n for n in rcfg.nodes if n.kind == "for" and dotted(n.ast.iter) == "self.buffers" and isinstance(n.ast.target, ast.Name)]
    calls = stmt_calls(rcfg, lambda c: isinstance(c.func, ast.Attribute) and c.func.attr == "reset_max_priority")
    good = False
    if len(loops_) == 1 and len(calls) == 1:
        n_, c_ = calls[0]
        good = dotted(c_.func.value) == loops_[0].ast.target.id and rcfg.control_deps(n_.id) == [(loops_[0].id, True)]
    elif len(calls) == 1 and not loops_:
        # while / index loop or a single member: decide only the clear violation (one fixed member)
        r = recv_canon(nf, rcfg, mi, calls[0][0], calls[0][1])
        if r.startswith("self.buffers[") and not rcfg.enclosing_loops(calls[0][0].id):
            good = False
        else:
            raise AnalysisError(f"{MT}.reset_max_priority: iteration over the members not recognised")
    elif not calls:
        good = False
    else:
        raise AnalysisError(f"{MT}.reset_max_priority: iteration over the members not recognised")
    ck.ob("R8-multitask-routing", MT + ".reset_max_priority", "all-members", good, "; ".join(short(c, 50) for _, c in calls) or "no member call", "" if good else "every member's maximum must be recomputed", loc(mi, rs))


def run(ck, repo: Repo, tier: str):
    nf = NF(repo, inline_depth=1, inline_calls=False)
    field = r1_field_agreement(ck, repo)
    r7_store_writers(ck, repo, Resolver(repo))
    r8_multitask(ck, repo, nf)
    PB = RB + "PriorityBuffer"
    mi = repo.module("rl_blox.blox.replay_buffer")

    # ---- R2 init order ----------------------------------------------------------------------------------------
    from ..sympath import enumerate_paths, PathEval
    fn = _m(repo, PB, "initialize_priority")
    cfgi = nf.cfg_of(fn)
    ip = [p_ for p_ in positional_params(fn) if p_ != "self"][0]
    sts = [n for n in cfgi.nodes if n.kind == "stmt" and isinstance(n.ast, ast.Assign) and isinstance(n.ast.targets[0], ast.Subscript) and dotted(n.ast.targets[0].value) == "self.priority"]
    ok = len(sts) == 1 and on_every_path_once(cfgi, [sts[0].id]) and nf.poly(sts[0].ast.targets[0].slice, Scope(cfgi, mi, {}, PB), sts[0].id).canon() == ip \
        and nf.poly(sts[0].ast.value, Scope(cfgi, mi, {}, PB), sts[0].id).canon() == "self.max_priority"
    ck.ob("R2-init-order", f"{PB}.initialize_priority", "max-priority", ok, "; ".join(short(n.ast, 60) for n in sts), "" if ok else "a new transition must receive the current maximum priority at the given slot", loc(mi, fn))
    # LAP: the slot initialised is the value of insert_idx *before* the base class advances it
    fn = _m(repo, RB + "LAP", "add_sample")
    cfg = nf.cfg_of(fn)
    init = stmt_calls(cfg, lambda c: isinstance(c.func, ast.Attribute) and c.func.attr == "initialize_priority")
    sup = stmt_calls(cfg, lambda c: ast.unparse(c.func) == "super().add_sample")
    if not init:
        # the helper may have been inlined: a direct store  <priority store>[IDX] = <max priority>
        for n_ in cfg.nodes:
            s_ = n_.ast
            if n_.kind == "stmt" and isinstance(s_, ast.Assign) and isinstance(s_.targets[0], ast.Subscript) and dotted(s_.targets[0].value) == "self.priority.priority" and dotted(s_.value) == "self.priority.max_priority":
                fake = ast.copy_location(ast.Call(func=ast.Attribute(value=ast.Name(id="self"), attr="initialize_priority"), args=[s_.targets[0].slice], keywords=[]), s_)
                init.append((n_, fake))
    ck.need(len(init) == 1 and len(sup) == 1, f"{RB}LAP.add_sample: expected one priority initialisation and one super().add_sample call (unrecognised idiom)")
    (ni, ci), (ns, cs) = init[0], sup[0]
    a = ci.args[0] if ci.args else None
    pre = False
    how = short(a) if a is not None else "?"
    if a is not None and dotted(a) == "self.insert_idx":
        pre = cfg.paths_avoiding(ns.id, ni.id, set()) is None and on_every_path_once(cfg, [ni.id])   # read before the advance
    elif isinstance(a, ast.Name):
        ds = cfg.defs_of(ni.id, a.id)
        if len(ds) == 1 and ds[0].kind == "assign" and dotted(ds[0].value) == "self.insert_idx":
            pre = cfg.paths_avoiding(ns.id, ds[0].node, set()) is None and on_every_path_once(cfg, [ni.id])
            how = f"{a.id} = self.insert_idx (read {'before' if pre else 'after'} the base add)"
        elif len(ds) == 1 and ds[0].node == ns.id:
            how = f"{a.id} = result of super().add_sample"
            # the base class must then return the slot it wrote: decided by its return expression
            base = repo.method(RB + "ReplayBuffer", "add_sample")[1]
            rets = [r for r in ast.walk(base) if isinstance(r, ast.Return) and r.value is not None]
            bc = nf.cfg_of(base)
            advs = [m for m in bc.nodes if m.kind == "stmt" and isinstance(m.ast, ast.Assign) and dotted(m.ast.targets[0]) == "self.insert_idx"]
            pre = bool(rets) and all(isinstance(r.value, ast.Name) and all(d.kind == "assign" and dotted(d.value) == "self.insert_idx" and all(bc.paths_avoiding(ad.id, d.node, set()) is None for ad in advs)
                                                                                for d in bc.defs_of(bc.node_of(r).id, r.value.id)) for r in rets)
            how += f" (base returns {[short(r.value) for r in rets]})"
        else:
            raise AnalysisError(f"{RB}LAP.add_sample: slot argument `{short(a)}` not recognised")
    elif a is not None and "current_len" in ast.unparse(a) and "insert_idx" not in ast.unparse(a):
        pre = False   # the fill level names the written slot only while the buffer is filling
    else:
        raise AnalysisError(f"{RB}LAP.add_sample: slot argument `{short(a) if a is not None else None}` not recognised")
    ck.ob("R2-init-order", RB + "LAP.add_sample", "init-before-advance", pre, f"initialize_priority({how})",
          "" if pre else "the priority must be initialised at the slot the transition is written to, i.e. the value of insert_idx *before* the ring advances (afterwards it names the next, stale slot; current_len - 1 is that slot only while the buffer is filling)", loc(mi, fn))
    # subtrajectory PER: all slots returned by the base add are initialised
    fn = _m(repo, RB + "SubtrajectoryReplayBufferPER", "add_sample")
    cfg = nf.cfg_of(fn)
    init = stmt_calls(cfg, lambda c: isinstance(c.func, ast.Attribute) and c.func.attr == "initialize_priority")
    sup = stmt_calls(cfg, lambda c: ast.unparse(c.func) == "super().add_sample")
    ck.need(len(init) == 1 and len(sup) == 1, f"{RB}SubtrajectoryReplayBufferPER.add_sample: expected one initialize_priority and one super().add_sample call (unrecognised idiom)")
    (ni, ci), (ns, cs) = init[0], sup[0]
    a = ci.args[0] if ci.args else None
    whole = False
    if isinstance(a, ast.Name):
        ds = cfg.defs_of(ni.id, a.id)
        whole = len(ds) == 1 and ds[0].node == ns.id and ds[0].kind == "assign" and on_every_path_once(cfg, [ni.id])
        if not whole:
            # one initialisation per returned slot: `for slot in super().add_sample(..): initialize_priority(slot)`
            lps = [cfg.nodes[h] for h in cfg.enclosing_loops(ni.id)]
            for lp_ in lps[:1]:
                it_ = lp_.ast.iter if lp_.kind == "for" else None
                if it_ is not None and isinstance(lp_.ast.target, ast.Name) and lp_.ast.target.id == a.id:
                    src_ok = it_ is cs or (isinstance(it_, ast.Name) and any(d.node == ns.id and d.kind == "assign" for d in cfg.defs_of(lp_.id, it_.id)) and len(cfg.defs_of(lp_.id, it_.id)) == 1)
                    body_ok = cfg.control_deps(ni.id) and len(cfg.control_deps(ni.id)) == len(cfg.control_deps(lp_.id)) + 1
                    if src_ok and body_ok:
                        whole = True
                    elif src_ok:
                        raise AnalysisError(f"{RB}SubtrajectoryReplayBufferPER.add_sample: per-slot initialisation is conditional (unrecognised form)")
    elif isinstance(a, ast.Call) and a is cs:
        whole = True
    elif isinstance(a, (ast.Subscript,)):
        whole = False
    else:
        raise AnalysisError(f"{RB}SubtrajectoryReplayBufferPER.add_sample: slot argument `{short(a) if a is not None else None}` not recognised")
    ck.ob("R2-init-order", RB + "SubtrajectoryReplayBufferPER.add_sample", "init-returned-slots", whole, f"initialize_priority({short(a) if a is not None else None}) <- {short(cs, 50)}",
          "" if whole else "all slots written by the addition (incl. the extra successor row) must receive the maximum priority", loc(mi, fn))
    # the list returned by the subtrajectory add names exactly the slots written: per path, the returned elements equal the values
    # insert_idx held immediately before each advance (path evaluation over the entry state; aliases and helpers are transparent)
    sfn = _m(repo, RB + "SubtrajectoryReplayBuffer", "add_sample")
    scfg = nf.cfg_of(sfn)
    srets = [n for n in scfg.nodes if n.kind == "stmt" and isinstance(n.ast, ast.Return)]
    if not srets or any(r.ast.value is None for r in srets):
        raise AnalysisError(f"{RB}SubtrajectoryReplayBuffer.add_sample: expected `return <written slots>` (unrecognised idiom)")
    load_idx = parse_expr("self.insert_idx")
    seen_sig, bad_sig = set(), []
    for pth in enumerate_paths(scfg, scfg.entry, {r.id for r in srets}, max_paths=20000):
        ret_node = scfg.nodes[pth[-1][0]]
        pe = PathEval(nf, scfg, mi, "subtraj.add", {})
        written = []
        for nid, lab in pth[:-1]:
            nd = scfg.nodes[nid]
            if nd.kind == "stmt" and isinstance(nd.ast, (ast.Assign, ast.AugAssign)) and any(dotted(t) == "self.insert_idx" for t in (nd.ast.targets if isinstance(nd.ast, ast.Assign) else [nd.ast.target])):
                written.append(pe.ev(load_idx).canon())
            pe.step(nid, lab)
        rv = pe.ev(ret_node.ast.value)
        got = []
        for mono, c in rv.terms.items():
            for a_, e_ in mono:
                m_ = nf.meta.get(a_, {})
                got += [a_[1:-1]] * int(c) if a_.startswith("(") and a_.endswith(")") and "," not in _top(a_[1:-1]) else [a_]
        sig = (tuple(sorted(got)), tuple(sorted(written)))
        if sig in seen_sig:
            continue
        seen_sig.add(sig)
        if sorted(got) != sorted(written):
            bad_sig.append(sig)
    ok = not bad_sig and len(seen_sig) >= 2
    if len(seen_sig) < 2 and not bad_sig:
        raise AnalysisError(f"{RB}SubtrajectoryReplayBuffer.add_sample: only {len(seen_sig)} distinct write pattern(s) found (expected: plain step and episode end)")
    ck.ob("R2-init-order", RB + "SubtrajectoryReplayBuffer.add_sample", "inserted-at-is-written-slot", ok, f"returned slots per path == slots written: {sorted(seen_sig)[:3]}",
          "" if ok else f"on some path the returned slots {bad_sig[0][0]} differ from the slots written {bad_sig[0][1]}: a slot recorded after the advance is the next, unwritten one; an unrecorded slot keeps an uninitialised priority", loc(mi, sfn))

    # ---- R3 sampler form: searchsorted(cumsum(P), U) with P = priority[:len] (* mask[:len]) and U uniform on [0, total) ----------------
    def sampler_forms(cq, meth, fieldtxt, out_store):
        f = _m(repo, cq, meth)
        c = nf.cfg_of(f)
        rets_ = [n for n in c.nodes if n.kind == "stmt" and isinstance(n.ast, ast.Return)]
        ck.need(len(rets_) == 1, f"{cq}.{meth}: expected one return")
        env_ = {p_: Poly.atom(p_, {p_}, {p_}) for p_ in positional_params(f)}
        res = []
        for pth in enumerate_paths(c, c.entry, {rets_[0].id}):
            lits = [(t_, v_) for nid, lab in pth if c.nodes[nid].kind == "test" and lab in (True, False) for t_, v_ in c._lits(c.nodes[nid].ast.test, lab, nid)]
            masked = ("mask is not None", True) in lits or ("mask is None", False) in lits
            pe = PathEval(nf, c, mi, f"{cq}.{meth}", env_).run(pth[:-1])
            val = pe.ev(rets_[0].ast.value)
            key = val.canon()
            if key in pe.store:
                val = pe.store[key]
            res.append((masked, val, pe))
        return f, rets_[0], res

    def split_call(poly, name):
        """(args canon list) if poly is a single atom `name(...)`, else None."""
        t = poly.canon()
        if not (t.startswith(name + "(") and t.endswith(")")):
            return None
        return sem_split_args(t[len(name) + 1:-1])

    for cq, meth, fieldtxt, kind in ((PB, "prioritized_sampling", "self.priority", "plain"), (RB + "PrioritizedReplayBuffer", "prioritized_sampling_stratified", "self.priority.priority", "stratified")):
        f, retn, res = sampler_forms(cq, meth, fieldtxt, None)
        site = f"{cq}.{meth}"
        P0 = f"{fieldtxt}[:current_len]"
        M0 = "mask[:current_len]"
        for masked, val, pe in res:
            tag = "masked" if masked else "unmasked"
            args = split_call(val, "searchsorted")
            if args is None or len(args) < 2:
                raise AnalysisError(f"{site}: returned indices `{val.canon()[:100]}` are not searchsorted(cumulative, draws) (unrecognised idiom)")
            C, U = args[0], args[1]
            if not (C.startswith("cumsum(") and C.endswith(")")):
                # evidence only when the searched array is the stored priorities themselves (possibly sliced / masked), i.e. no cumulative
                # sum anywhere in it; a cache, an attribute or any other unread value is undecided
                raw_ok = all(tok_ in ("self", "priority", "mask", "current_len") for tok_ in __import__("re").findall(r"[A-Za-z_][A-Za-z_0-9]*", C))
                if not raw_ok:
                    raise AnalysisError(f"{site}: searchsorted searches `{C[:80]}`, whose construction is not read (a cache or derived attribute): unrecognised form")
                ck.ob("R3-sampler-form", site, f"inverse-cdf:{tag}", False, f"searchsorted({C[:80]}, ...)", "the first argument of searchsorted must be the cumulative sum of the (masked) priorities: searching the raw priorities is not an inverse-CDF draw", loc(mi, f))
                continue
            P = C[len("cumsum("):-1]
            want_p = {f"{M0}*{P0}", f"{P0}*{M0}"} if masked else {P0}
            okp = P in want_p
            why = ""
            if not okp:
                if P0 not in P:
                    why = f"the distribution is built from `{P[:80]}`, not from the first current_len stored priorities: entries beyond the filled region can be drawn"
                elif masked and (f"{M0}*" not in P and f"*{M0}" not in P):
                    why = f"on the masked path the priorities are not multiplied by mask[:current_len] (`{P[:80]}`): masked-out entries keep a positive probability"
                else:
                    raise AnalysisError(f"{site}: sampled distribution `{P[:100]}` not recognised")
            ck.ob("R3-sampler-form", site, f"distribution:{tag}", okp, f"P = {P[:90]}", why, loc(mi, f))
            # draws: uniform on [0, total)
            total = f"{C}[-1]"
            if kind == "plain":
                forms = {f"{total}*rng.uniform(0, 1, size=batch_size)", f"rng.uniform(0, 1, size=batch_size)*{total}", f"rng.uniform(0, {total}, size=batch_size)", f"{total}*rng.random(batch_size)", f"{total}*rng.random(size=batch_size)"}
                oku = U in forms
                whyu = ""
                if not oku:
                    if "uniform(" in U or "random(" in U:
                        if total not in U:
                            whyu = f"the uniform draws are scaled by something else than the total priority mass ({U[:80]}): the tail of the distribution is never (or always) drawn"
                        else:
                            raise AnalysisError(f"{site}: draws `{U[:100]}` not recognised")
                    else:
                        raise AnalysisError(f"{site}: draws `{U[:100]}` not recognised")
                ck.ob("R3-sampler-form", site, f"uniform-over-total:{tag}", oku, f"U = {U[:90]}", whyu, loc(mi, f))
            else:
                envs = {p_: Poly.atom(p_, {p_}, {p_}) for p_ in positional_params(f)}
                Csrc = f"np.cumsum({fieldtxt}[:current_len] * mask[:current_len])" if masked else f"np.cumsum({fieldtxt}[:current_len])"
                wantU = nf.poly(parse_expr(f"rng.uniform(low=np.arange(batch_size) * ({Csrc}[-1] / batch_size), high=(np.arange(batch_size) + 1) * ({Csrc}[-1] / batch_size), size=batch_size)"), Scope(None, mi, envs, "strat"), None).canon()
                oku = U == wantU
                whyu = ""
                if not oku:
                    if "uniform(" in U and "arange(batch_size)" in U:
                        whyu = "expected one uniform draw per segment [k*total/B, (k+1)*total/B): the segments do not tile [0, total)"
                    else:
                        raise AnalysisError(f"{site}: stratified draws `{U[:100]}` not recognised")
                ck.ob("R3-sampler-form", site, f"stratified-segments:{tag}", oku, f"U = {U[:110]}", whyu, loc(mi, f))
        # the indices returned are the ones recorded for update_priority (same value: compared as normal forms through local names)
        rv = retn.ast.value
        fcfg = nf.cfg_of(f)
        rec = [n for n in fcfg.nodes if n.kind == "stmt" and isinstance(n.ast, ast.Assign) and any((dotted(t) or "").endswith("." + field) for t in n.ast.targets)]
        okr = dotted(rv) in (f"self.{field}", f"self.priority.{field}")
        if not okr and rec:
            fsc = Scope(fcfg, mi, {}, site)
            fsc.inline_self_attrs = False
            got_r = nf.poly(rv, fsc, retn.id)
            recs = [nf.poly(n.ast.value, fsc, n.id) for n in rec]
            okr = any(got_r == r_ for r_ in recs) or got_r.canon() in (f"self.{field}", f"self.priority.{field}")
            if not okr and not any(same_ingredients(got_r, r_) for r_ in recs):
                raise AnalysisError(f"{site}: returned indices `{got_r.canon()[:80]}` cannot be related to the recorded ones (unrecognised form)")
        ck.ob("R3-sampler-form", site, "returns-recorded-indices", okr and len(rec) >= 1, f"return {short(rv)}; recorded by {[short(n.ast, 50) for n in rec]}", "" if okr and rec else "the indices returned must be the ones recorded for update_priority", loc(mi, f))

    # ---- R4 bookkeeping ---------------------------------------------------------------------------------------------------
    fn = _m(repo, PB, "update_priority")
    cfgu = nf.cfg_of(fn)
    pp = [p_ for p_ in positional_params(fn) if p_ != "self"][0]
    envu = {pp: Poly.atom(pp, {pp}, {pp})}
    retsu = [cfgu.exit]
    allp = enumerate_paths(cfgu, cfgu.entry, {cfgu.exit})
    ck.need(allp, f"{PB}.update_priority: no path")
    from ..sem import _negate, _flatten_and
    bm_forms = {nf.poly(parse_expr(x), Scope(None, mi, envu, "u"), None).canon() for x in (f"np.max({pp})", f"{pp}.max()", f"max({pp})", f"jnp.max({pp})")}
    OLD = "self.max_priority"
    seen_sig = set()
    for pth in allp:
        pe = PathEval(nf, cfgu, mi, PB + ".update_priority", envu)
        lits = []
        for nid, lab in pth[:-1]:
            nd = cfgu.nodes[nid]
            if nd.kind == "test" and lab in (True, False) and hasattr(nd.ast, "test"):
                c = pe.ev(nd.ast.test).canon()
                lits += _flatten_and(c) if lab else [_negate(c)]
            pe.step(nid, lab)
        st = {k: v.canon() for k, v in pe.store.items()}
        wrote = st.get(f"self.priority[self.{field}]")
        newmax = st.get(OLD, OLD)
        sig = (wrote, newmax, tuple(sorted(lits)))
        if sig in seen_sig:
            continue
        seen_sig.add(sig)
        ok1 = wrote == pp
        ck.ob("R4-bookkeeping", PB + ".update_priority", "writes-batch", ok1, f"self.priority[self.{field}] = {wrote}", "" if ok1 else "must set exactly the last sampled entries to the supplied priorities", loc(mi, fn))
        good = {nf.poly(parse_expr(x), Scope(None, mi, envu, "u"), None).canon() for x in (f"max(np.max({pp}), self.max_priority)", f"np.maximum(self.max_priority, np.max({pp}))", f"max({pp}.max(), self.max_priority)", f"max(max({pp}), self.max_priority)", f"np.maximum({pp}.max(), self.max_priority)")}
        ok2 = newmax in good
        if not ok2:
            # decided by the branch conditions of this path: keeping the old value is right when it is known to be the larger one, ...
            ge_old = any(l in (f"Lt({b}, {OLD})", f"LtE({b}, {OLD})") for b in bm_forms for l in lits)
            ge_new = any(l in (f"Lt({OLD}, {b})", f"LtE({OLD}, {b})") for b in bm_forms for l in lits)
            if newmax == OLD and ge_old:
                ok2 = True
            elif newmax in bm_forms and ge_new:
                ok2 = True
        why = ""
        if not ok2:
            if newmax == OLD:
                why = "max_priority is not raised on a path where the new priorities may exceed it: later transitions get an initial priority below stored ones"
            elif OLD not in newmax:
                why = f"max_priority becomes `{newmax}`, which can be smaller than priorities stored earlier: the tracked maximum must never decrease in an update"
            else:
                raise AnalysisError(f"{PB}.update_priority: new max_priority `{newmax}` under {lits} not recognised")
        ck.ob("R4-bookkeeping", PB + ".update_priority", "raises-max", ok2, f"max_priority' = {newmax}" + (f" under {lits}" if lits else ""), why, loc(mi, fn))
    fn = _m(repo, PB, "reset_max_priority")
    cfgr = nf.cfg_of(fn)
    lp = [p_ for p_ in positional_params(fn) if p_ != "self"][0]
    ws = [n for n in cfgr.nodes if n.kind == "stmt" and isinstance(n.ast, ast.Assign) and dotted(n.ast.targets[0]) == "self.max_priority"]
    ck.need(len(ws) >= 1, f"{PB}.reset_max_priority: no assignment of max_priority")
    from ..sympath import enumerate_paths, PathEval
    envr = {p_: Poly.atom(p_, {p_}, {p_}) for p_ in positional_params(fn) if p_ != "self"}
    filled = nf.poly(parse_expr(f"self.priority[:{lp}]"), Scope(None, mi, envr, PB), None)
    for w_ in ws:
        g = guard_literals(nf, cfgr, mi, w_.id)
        okg = all(x in (sem_spec(nf, mi, f"{lp} > 0"), sem_spec(nf, mi, f"{lp} >= 1"), sem_spec(nf, mi, f"{lp} != 0"), lp) for x in g)
        seen_v = set()
        for path in enumerate_paths(cfgr, cfgr.entry, {w_.id}):
            pe = PathEval(nf, cfgr, mi, PB, envr)
            for nid_, lab_ in path[:-1]:
                pe.step(nid_, lab_)
            val = pe.ev(w_.ast.value)
            v = val.canon()
            if v in seen_v:
                continue
            seen_v.add(v)
            m_ = nf.meta.get(val.single_atom() or "", {})
            arg = m_["args"][0] if m_.get("fn", "").split(".")[-1] in ("max", "amax", "nanmax") and len(m_.get("args", [])) == 1 and not m_.get("kws") else None
            okv = arg is not None and arg == filled
            why = ""
            if not okv:
                fa = filled.single_atom()
                if arg is not None and fa is not None and fa in arg.atoms() and all(fa in dict(mono) and dict(mono)[fa] == 1 for mono in arg.terms):
                    why = f"the maximum is taken over `{arg.canon()[:80]}`, the filled priorities multiplied by another factor (a mask): a stored priority that the factor hides is larger than the recomputed maximum, so later transitions start below it"
                elif arg is not None and "self.priority" in arg.atoms() and fa not in arg.atoms():
                    why = f"the maximum is taken over `{v}`: slots beyond the filled region hold uninitialised memory"
                else:
                    raise AnalysisError(f"{PB}.reset_max_priority: new value `{v}` not recognised")
            elif not okg:
                raise AnalysisError(f"{PB}.reset_max_priority: guard {g} not recognised")
            ck.ob("R4-bookkeeping", PB + ".reset_max_priority", "true-maximum" if len(seen_v) == 1 else f"true-maximum:{len(seen_v)}", okv and okg, f"max_priority = {v[:100]} under {g}", why, loc(mi, fn))

    # ---- R5 formulas ---------------------------------------------------------------------------------------------------------
    for q, spec in ((RB + "lap_priority", "jnp.maximum(abs_td_error, min_priority) ** alpha"), (RB + "per_priority", "abs_td_error ** alpha + epsion")):
        f = repo.func(q)
        env = {p: Poly.atom(p, {p}, {p}) for p in param_names(f)}
        got = nf.return_poly(q, env)
        want = nf.poly(parse_expr(spec), Scope(None, mi, env, q), None)
        ck.ob("R5-formulas", q, "priority", got == want, f"{got.canon()}", "" if got == want else f"must be {want.canon()} (positive, non-decreasing in |error|)", loc(mi, f))
    fn = _m(repo, RB + "PrioritizedReplayBuffer", "compute_importance_ratio")
    cfg = nf.cfg_of(fn)
    rets = [n for n in cfg.nodes if n.kind == "stmt" and isinstance(n.ast, ast.Return)]
    sc = Scope(cfg, mi, {p: Poly.atom(p, {p}, {p}) for p in positional_params(fn)}, "ir")
    got = nf.poly(rets[0].ast.value, sc, rets[0].id)
    W = "(self.current_len * self.priority.priority[indices] / np.cumsum(self.priority.priority[indices])[-1]) ** (-beta)"
    want = nf.poly(parse_expr(f"{W} / np.max({W})"), Scope(None, mi, sc.env, "ir"), None)
    ck.ob("R5-formulas", RB + "PrioritizedReplayBuffer.compute_importance_ratio", "importance-ratio", got == want, f"{got.canon()[:170]}", "" if got == want else "must be (len*p/sum p)^(-beta) divided by its maximum (weights in (0,1], maximum 1, non-increasing in p)", loc(mi, fn))
    # PER sample_batch computes the ratio for the very indices it gathers with
    fn = _m(repo, RB + "PrioritizedReplayBuffer", "sample_batch")
    cfgs = nf.cfg_of(fn)
    rc = stmt_calls(cfgs, lambda c: isinstance(c.func, ast.Attribute) and c.func.attr == "compute_importance_ratio")
    from ..sem import field_gathers
    gathers = [g_["sub"] for g_ in field_gathers(fn)]
    ck.need(len(rc) == 1 and gathers, f"{RB}PrioritizedReplayBuffer.sample_batch: importance-ratio call / gather not found (unrecognised idiom)")
    nrc, crc = rc[0]
    ia = crc.args[0] if crc.args else next((k.value for k in crc.keywords if k.arg == "indices"), None)
    gi = gathers[0].slice
    same = ia is not None and isinstance(ia, ast.Name) and isinstance(gi, ast.Name) and ia.id == gi.id and cfgs.defs_of(nrc.id, ia.id) == cfgs.defs_of(cfgs.node_of(gathers[0]).id, gi.id)
    ck.ob("R5-formulas", RB + "PrioritizedReplayBuffer.sample_batch", "ratio-of-sampled-indices", bool(same), f"compute_importance_ratio({short(ia) if ia is not None else None}, ..); gather at [{short(gi)}]", "" if same else "weights must belong to the rows of the returned batch (same index vector, same definition)", loc(mi, fn))
    # subtrajectory PER passes its mask and the filled length
    fn = _m(repo, RB + "SubtrajectoryReplayBufferPER", "_sample_idx")
    cfgp = nf.cfg_of(fn)
    sc_ = stmt_calls(cfgp, lambda c: isinstance(c.func, ast.Attribute) and c.func.attr == "prioritized_sampling")
    ck.need(len(sc_) == 1, f"{RB}SubtrajectoryReplayBufferPER._sample_idx: expected one prioritized_sampling call (unrecognised idiom)")
    b = bind_call(repo.method(PB, "prioritized_sampling")[1], sc_[0][1], skip_self=True)
    mval = nf.poly(b["mask"], Scope(cfgp, mi, {}, "p"), sc_[0][0].id).canon() if "mask" in b else None
    lval = nf.poly(b["current_len"], Scope(cfgp, mi, {}, "p"), sc_[0][0].id).canon() if "current_len" in b else None
    ok = mval == "self.mask_" and lval == "self.current_len"
    ck.ob("R3-sampler-form", RB + "SubtrajectoryReplayBufferPER._sample_idx", "masked", ok, f"prioritized_sampling(current_len <- {lval}, mask <- {mval})", "" if ok else "masked-out start indices must get zero probability: the sampler needs current_len and mask_", loc(mi, fn))

    # ---- R6 call-site protocol ---------------------------------------------------------------------------------------------------
    res = Resolver(repo)
    sites = {
        # (priority function, position of the absolute TD error in the update's result - confirmed against the callees' return statements)
        "rl_blox.algorithm.td3_lap.train_td3_lap": ("lap_priority", (1, 1)),
        "rl_blox.algorithm.td7._train_step": ("lap_priority", (1,)),
        "rl_blox.algorithm.mrq.train_mrq": ("lap_priority", (4,)),
        "rl_blox.algorithm.per.train_ddqn_per": ("per_priority", (1, 1)),
    }
    for tq, (prio_fn, err_path) in sites.items():
        fn = repo.func(tq)
        tmi = fn._module
        cfg = res.cfg_of(fn)
        ups = [(n, c) for n in cfg.nodes if n.ast is not None and n.kind == "stmt" for c in ast.walk(n.ast) if isinstance(c, ast.Call) and isinstance(c.func, ast.Attribute) and c.func.attr == "update_priority"]
        ck.need(len(ups) == 1, f"{tq}: expected one update_priority call")
        n, c = ups[0]
        buf = dotted(c.func.value)
        arg = c.args[0]
        # priority value: <prio_fn>(<errors>, ...) possibly via a local
        pe = arg
        if isinstance(pe, ast.Name):
            ds = cfg.defs_of(n.id, pe.id)
            pe = ds[0].value if len(ds) == 1 and ds[0].kind == "assign" else pe
        ok = isinstance(pe, ast.Call) and isinstance(pe.func, ast.Name) and repo.resolve_name(tmi, pe.func.id) == RB + prio_fn
        ck.ob("R6-call-protocol", tq, "priority-function", ok, f"update_priority({short(pe, 70)})", "" if ok else f"priorities must be computed by {prio_fn}", loc(tmi, c))
        if not ok:
            continue
        eb = bind_call(repo.func(RB + prio_fn), pe)
        err = eb.get(positional_params(repo.func(RB + prio_fn))[0])
        ck.need(isinstance(err, ast.Name), f"{tq}: TD-error argument is not a variable")
        eds = cfg.defs_of(n.id, err.id)
        okd = len(eds) == 1 and eds[0].kind == "unpack" and isinstance(eds[0].value, ast.Call) and tuple(eds[0].path) == tuple(err_path)
        ck.ob("R6-call-protocol", tq, "errors-from-update", okd, f"{err.id} <- result{list(eds[0].path) if eds else '?'} of {short(eds[0].value, 50) if eds and eds[0].value is not None else None}",
              "" if okd else f"the priorities must be computed from the absolute TD errors (result position {list(err_path)} of the update call), not from another result", loc(tmi, c))
        if not okd:
            continue
        upd_node = eds[0].node
        upd_call = eds[0].value
        # the batch consumed by that update comes from the most recent sample_batch on the same buffer
        samples = [m for m in cfg.nodes if m.ast is not None and m.kind == "stmt" and any(isinstance(x, ast.Call) and isinstance(x.func, ast.Attribute) and x.func.attr == "sample_batch" and dotted(x.func.value) == buf for x in ast.walk(m.ast))]
        ck.need(samples, f"{tq}: no sample_batch on `{buf}`")
        names_in_update = {x.id for x in ast.walk(upd_call) if isinstance(x, ast.Name)}
        feeding = []
        for m in samples:
            defined = {d.name for d in m.defs}
            if defined & names_in_update and any((m.id, nm) in cfg.reaching()[upd_node].get(nm, frozenset()) for nm in defined):
                feeding.append(m)
        okf = len(feeding) == 1
        ck.ob("R6-call-protocol", tq, "batch-feeds-update", okf, f"batch of `{short(feeding[0].ast, 60) if feeding else None}` consumed by `{short(upd_call, 50)}`", "" if okf else "the update must consume the batch of exactly one sample_batch on this buffer", loc(tmi, upd_call))
        if not okf:
            continue
        s0 = feeding[0]
        others = {m.id for m in samples}
        # no sample_batch on the buffer between the feeding sample and update_priority
        p = None
        for m in samples:
            if m.id == s0.id:
                continue
            p1 = cfg.paths_avoiding(s0.id, m.id, {n.id})
            p2 = cfg.paths_avoiding(m.id, n.id, {s0.id}) if p1 is not None else None
            if p1 is not None and p2 is not None:
                p = p1 + p2[1:]
        ck.ob("R6-call-protocol", tq, "no-resample-in-between", p is None, f"sample_batch -> update -> update_priority on `{buf}`",
              "" if p is None else "another sample_batch on the same buffer lies between the batch whose errors are used and update_priority: the priorities are written to the wrong transitions", loc(tmi, c),
              cfg.describe_path(p) if p else None)
        dom = cfg.dominates(s0.id, n.id) and cfg.dominates(upd_node, n.id)
        ck.ob("R6-call-protocol", tq, "sample-dominates-update", dom, "every path to update_priority passes the sampling and the update", "" if dom else "update_priority can be reached without a fresh sample / update", loc(tmi, c))


_F = "rl_blox/blox/replay_buffer.py"
MUTANTS = [
    {"id": "c08-max-early-return-wrong-side", "file": _F, "rule": "R4", "find": "        self.max_priority = max(np.max(priority), self.max_priority)", "replace": "        batch_max = np.max(priority)\n        if self.max_priority < batch_max:\n            return\n        self.max_priority = batch_max"},
    {"id": "c08-subtraj-record-after-advance", "file": _F, "rule": "R2", "find": "            inserted_at += [self.insert_idx]\n            self.insert_idx = (self.insert_idx + 1) % self.buffer_size\n", "replace": "            self.insert_idx = (self.insert_idx + 1) % self.buffer_size\n            inserted_at += [self.insert_idx]\n"},
    {"id": "c08-subtraj-successor-unrecorded", "file": _F, "rule": "R2", "find": "            inserted_at += [self.insert_idx]\n", "replace": ""},
    {"id": "c08-lap-init-current-len", "file": _F, "rule": "R2", "find": "        self.priority.initialize_priority(self.insert_idx)\n        super().add_sample(**sample)", "replace": "        super().add_sample(**sample)\n        self.priority.initialize_priority(self.current_len - 1)"},
    {"id": "c08-ratio-other-indices", "file": _F, "rule": "R5", "find": "        importance_ratio = self.compute_importance_ratio(indices, beta)", "replace": "        importance_ratio = self.compute_importance_ratio(self.priority.sampled_indices[::-1], beta)"},
    {"id": "c08-indices-on-buffer", "file": _F, "rule": "R1", "find": "        self.priority.sampled_indices = np.searchsorted(\n            probabilities, random_points\n        )\n        return self.priority.sampled_indices", "replace": "        self.sampled_indices = np.searchsorted(probabilities, random_points)\n        return self.sampled_indices"},
    {"id": "c08-init-after-add", "file": _F, "rule": "R2", "find": "        self.priority.initialize_priority(self.insert_idx)\n        super().add_sample(**sample)", "replace": "        super().add_sample(**sample)\n        self.priority.initialize_priority(self.insert_idx)"},
    {"id": "c08-init-one", "file": _F, "rule": "R2", "find": "        self.priority[insert_idx] = self.max_priority", "replace": "        self.priority[insert_idx] = 1.0"},
    {"id": "c08-subtraj-init-first-only", "file": _F, "rule": "R2", "find": "        self.priority.initialize_priority(inserted_at)", "replace": "        self.priority.initialize_priority(inserted_at[0])"},
    {"id": "c08-sampler-no-mask-slice", "file": _F, "rule": "R3", "nth": 0, "find": "            priority = priority * mask[:current_len]", "replace": "            priority = priority + mask[:current_len]"},
    {"id": "c08-sampler-uniform-total", "file": _F, "rule": "R3", "find": "        random_uniforms = rng.uniform(0, 1, size=batch_size) * probabilities[-1]", "replace": "        random_uniforms = rng.uniform(0, 1, size=batch_size) * probabilities[0]"},
    {"id": "c08-sampler-searchsorted-priority", "file": _F, "rule": "R3", "find": "        self.sampled_indices = np.searchsorted(probabilities, random_uniforms)", "replace": "        self.sampled_indices = np.searchsorted(priority, random_uniforms)"},
    {"id": "c08-stratified-segments", "file": _F, "rule": "R3", "find": "            high=(np.arange(batch_size) + 1) * segment,", "replace": "            high=(np.arange(batch_size) + 2) * segment,"},
    {"id": "c08-max-overwritten", "file": _F, "rule": "R4", "find": "        self.max_priority = max(np.max(priority), self.max_priority)", "replace": "        self.max_priority = np.max(priority)"},
    {"id": "c08-reset-whole-array", "file": _F, "rule": "R4", "find": "            self.max_priority = np.max(self.priority[:current_len])", "replace": "            self.max_priority = np.max(self.priority)"},
    {"id": "c08-lap-min", "file": _F, "rule": "R5", "find": "    return jnp.maximum(abs_td_error, min_priority) ** alpha", "replace": "    return jnp.minimum(abs_td_error, min_priority) ** alpha"},
    {"id": "c08-per-no-eps", "file": _F, "rule": "R5", "find": "    return abs_td_error ** alpha + epsion", "replace": "    return abs_td_error ** alpha"},
    {"id": "c08-is-plus-beta", "file": _F, "rule": "R5", "find": "        is_weight = (self.current_len * priority / sum_probability) ** (-beta)", "replace": "        is_weight = (self.current_len * priority / sum_probability) ** beta"},
    {"id": "c08-is-not-normalised", "file": _F, "rule": "R5", "find": "        normalized_weights = is_weight / np.max(is_weight)", "replace": "        normalized_weights = is_weight / np.sum(is_weight)"},
    {"id": "c08-subtraj-unmasked", "file": _F, "rule": "R3", "find": "            self.current_len, batch_size, rng, self.mask_\n        )", "replace": "            self.current_len, batch_size, rng\n        )"},
    {"id": "c08-td3lap-resample", "file": "rl_blox/algorithm/td3_lap.py", "rule": "R6", "find": "                priority = lap_priority(\n                    max_abs_td_error, lap_min_priority, lap_alpha\n                )\n", "replace": "                priority = lap_priority(\n                    max_abs_td_error, lap_min_priority, lap_alpha\n                )\n                if logger is not None and step % 1000 == 0:\n                    logger.record_stat(\"batch reward\", float(replay_buffer.sample_batch(batch_size, rng).reward.mean()))\n"},
    {"id": "c08-mrq-priority-before-update", "file": "rl_blox/algorithm/mrq.py", "rule": "R6", "find": "            replay_buffer.update_priority(\n                lap_priority(max_abs_td_error, lap_min_priority, lap_alpha)\n            )", "replace": "            replay_buffer.update_priority(\n                lap_priority(q_mean, lap_min_priority, lap_alpha)\n            )"},
    {"id": "c08-per-lap-priority", "file": "rl_blox/algorithm/per.py", "rule": "R6", "find": "                priority = per_priority(\n                    abs_td_error, alpha=per_alpha, epsion=1e-6\n                )", "replace": "                priority = abs_td_error"},
    {"id": "c08-sampler-inplace-mask", "file": _F, "rule": "R7", "nth": 0, "find": "            priority = priority * mask[:current_len]", "replace": "            priority *= mask[:current_len]"},
    {"id": "c08-stratified-inplace-normalise", "file": _F, "rule": "R7", "find": "        probabilities = np.cumsum(priority)\n\n        # stratified", "replace": "        priority /= priority.sum()\n        probabilities = np.cumsum(priority)\n\n        # stratified"},
    {"id": "c08-ratio-out-param", "file": _F, "rule": "R7", "find": "        normalized_weights = is_weight / np.max(is_weight)", "replace": "        normalized_weights = np.divide(is_weight, np.max(is_weight), out=self.priority.priority[: len(is_weight)])"},
    {"id": "c08-multitask-selected", "file": _F, "rule": "R8", "find": "        self.buffers[self.sampled_task_idx].update_priority(priority)", "replace": "        self.buffers[self.selected_task].update_priority(priority)"},
    {"id": "c08-multitask-reset-selected", "file": _F, "rule": "R8", "find": "        for buffer in self.buffers:\n            buffer.reset_max_priority()", "replace": "        self.buffers[self.selected_task].reset_max_priority()"},
]
BENIGN = [
    {"id": "c08-b-max-early-return", "file": _F, "find": "        self.max_priority = max(np.max(priority), self.max_priority)", "replace": "        batch_max = np.max(priority)\n        if self.max_priority > batch_max:\n            return\n        self.max_priority = batch_max"},
    {"id": "c08-b-subtraj-alias", "file": _F, "find": "        inserted_at = [self.insert_idx]\n        self.insert_idx = (self.insert_idx + 1) % self.buffer_size\n", "replace": "        write_idx = self.insert_idx\n        inserted_at = [write_idx]\n        self.insert_idx = (write_idx + 1) % self.buffer_size\n"},
    {"id": "c08-b-lap-saved-slot", "file": _F, "find": "        self.priority.initialize_priority(self.insert_idx)\n        super().add_sample(**sample)", "replace": "        slot = self.insert_idx\n        super().add_sample(**sample)\n        self.priority.initialize_priority(slot)"},
    {"id": "c08-b-max-np-maximum", "file": _F, "find": "        self.max_priority = max(np.max(priority), self.max_priority)", "replace": "        self.max_priority = np.maximum(self.max_priority, np.max(priority))"},
    {"id": "c08-b-sampler-uniform-total", "file": _F, "find": "        random_uniforms = rng.uniform(0, 1, size=batch_size) * probabilities[-1]", "replace": "        total = probabilities[-1]\n        random_uniforms = rng.uniform(0, total, size=batch_size)"},
    {"id": "c08-b-reset-guard-clause", "file": _F, "find": "        if current_len > 0:\n            self.max_priority = np.max(self.priority[:current_len])", "replace": "        if current_len <= 0:\n            return\n        self.max_priority = np.max(self.priority[:current_len])"},
    {"id": "c08-b-delegate-keyword", "file": _F, "nth": 0, "find": "        self.priority.update_priority(priority)", "replace": "        self.priority.update_priority(priority=priority)"},
    {"id": "c08-b-per-keywords", "file": _F, "find": "        return self.priority.prioritized_sampling(\n            self.current_len, batch_size, rng, self.mask_\n        )", "replace": "        idx = self.priority.prioritized_sampling(\n            current_len=self.current_len, batch_size=batch_size, rng=rng, mask=self.mask_\n        )\n        return idx"},
    {"id": "c08-b-sampler-copy-inplace", "file": _F, "nth": 0, "find": "            priority = priority * mask[:current_len]", "replace": "            priority = priority.copy()\n            priority *= mask[:current_len]"},
    {"id": "c08-b-local-alias", "file": _F, "find": "        self.priority[self.sampled_indices] = priority\n        self.max_priority = max(np.max(priority), self.max_priority)", "replace": "        self.priority[self.sampled_indices] = priority\n        self.max_priority = max(np.max(priority), self.max_priority)\n        assert self.max_priority > 0"},
    {"id": "c08-b-sampler-commuted", "file": _F, "find": "        random_uniforms = rng.uniform(0, 1, size=batch_size) * probabilities[-1]", "replace": "        random_uniforms = probabilities[-1] * rng.uniform(0, 1, size=batch_size)"},
    {"id": "c08-b-td3lap-inline", "file": "rl_blox/algorithm/td3_lap.py", "find": "                priority = lap_priority(\n                    max_abs_td_error, lap_min_priority, lap_alpha\n                )\n                replay_buffer.update_priority(priority)", "replace": "                replay_buffer.update_priority(\n                    lap_priority(max_abs_td_error, lap_min_priority, lap_alpha)\n                )"},
]
