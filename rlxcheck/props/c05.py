"""C05 - each update routine changes only the component it trains (effect / ownership analysis)."""
from __future__ import annotations

import ast

from ..cfg import CFG
from ..effects import Effects, expr_path
from ..identity import Ident, has_base, show, alternatives
from ..loops import dotted
from ..repo import Repo, loc, short, AnalysisError, bind_call, positional_params, param_names
from ..resolve import Resolver

EXPLANATION = (
    "Write-effect summaries are computed bottom-up over the resolved call graph: a module-valued parameter is written only by "
    "<optimizer>.update(m, g), nnx.update(m, s) or by being passed at a written position of a callee (aliases through partial / "
    "jit / cached_partial / nnx.scan bodies are folded). R1 pairs every value_and_grad site with the optimizer update that "
    "consumes its gradient (reaching definitions, plain copies followed): the argument at `argnums` and the first argument of update() "
    "have the same object identity (parameters, their attributes, clones, constructor fields, local aliases), also when the "
    "gradient is returned to a caller; a violation needs two known, different objects. R2 compares each routine's effect set with its "
    "documented trainee set and checks at every call site in a training loop (and at updates inlined into the loop) that optimizer and "
    "module belong together (pairs created in create_*_state, named by the fields of the returned record). R3 requires loss "
    "functions, policy-head methods and action samplers to have an empty effect set. R4 requires that the gradient is read at all and "
    "that no feasible normal path from the gradient computation to the exit avoids the update (path witness). Values the analysis "
    "does not read (a transformed gradient, a module handed to unsummarised code, merged definitions) make the rule group undecided. "
    "R7 follows the gradient through leaf-wise tree maps: an identity is a copy, a switch between the leaf and zeros under one test for the whole tree is a "
    "skipped update written as data (world witness: the test selects zeros), any other leaf function is undecided. R8 reads attribute stores in routines "
    "that write modules: installing another written component - or nnx.merge(graphdef, nnx.state(X)) without copy, which keeps X's Variables - as a component "
    "makes two components share parameters (unless the slot the reference came from is re-filled afterwards: moved, not shared); R5 reads such merges as the "
    "identity of X. R9 follows the data arguments of the update routines backwards to slices `[:-r]` with r a remainder that no test of r guards (world r == 0: "
    "empty slice, zero optimiser steps)."
)
TRUSTED = [
    "flax nnx: value_and_grad(f, argnums=k) differentiates w.r.t. the k-th positional argument; Optimizer.update(model, grads) changes exactly "
    "model and the optimizer state; nnx.update(m, s) changes exactly m; a module is changed in no other way (no raw .value stores - checked by a scan)",
    "distinct parameters denote distinct objects",
    "flax nnx (0.11): nnx.state(m) / nnx.split(m) return m's own Variable objects and nnx.merge(graphdef, state) without copy=True builds the module around them "
    "(checked at run time on the installed version: the merged module changes when m is updated; any jax.tree.map over the state makes new Variables)",
    "Python slicing: x[:-0] is x[:0] (empty)",
]
RULES = {
    "R1-grad-update-pairing": "at every value_and_grad/grad site the differentiated argument is the object passed as first argument to the update that consumes the gradient",
    "R2-effects": "write-effect set of every update routine == its documented trainee set (+ its optimizer); optimizer/module pairs at call sites agree with create_*_state",
    "R3-effect-free": "losses, policy-head methods, action samplers and greedy policies write no module",
    "R4-does-update": "the gradient of every site is consumed by an update on every normal path through the loop body",
    "R6-stateful-objects-in-lax-carry": "no nnx Module / Optimizer is placed in the carry of jax.lax.fori_loop / while_loop / scan / cond: these primitives treat the operand as a pytree, "
                                        "so the body trains a functional copy and the caller's object is never updated (nnx.fori_loop / nnx.scan propagate the state)",
    "R7-gradient-intact": "the value an update receives is the gradient that was computed: it is not switched leaf-wise between the gradient and zeros by a test that holds for "
                          "the whole tree (`tree.map(lambda g: where(c, g, 0), grads)` is `if c: update` written as data - in the world where c selects zeros a non-zero "
                          "gradient does not train the component, and the update that still runs advances the optimizer state)",
    "R8-no-shared-storage": "no routine installs (attribute store) as a component of one of its objects another component that one of its updates writes, or a module built around "
                            "that component's live parameters (`nnx.merge(graphdef, nnx.state(X))` without copy=True keeps X's Variable objects): the update of X would also "
                            "change the component it was installed in",
    "R9-batches-not-emptied": "data that reaches an update routine is not cut by a slice `[:-r]` whose r is a remainder `a % b` unless the statement is under a test of r: for r == 0 "
                              "the slice is empty (Python reads `[:-0]` as `[:0]`), the routine gets no batch, makes no optimiser step and its trainee stays unchanged",
    "R5-distinct-components": "the components a training routine returns (networks, targets, fixed copies, optimizers) are pairwise distinct objects, component-wise: "
                              "if two of them shared a sub-module, updating one would change the other",
}

# routine -> documented trainee paths (module, attr path); optimizers are paired automatically.  Confirmed from the docstrings.
TRAINEES = {
    "rl_blox.algorithm.dqn.train_step_with_loss": {("q", ())},
    "rl_blox.algorithm.ddpg.ddpg_update_actor": {("policy", ())},
    "rl_blox.algorithm.sac.sac_update_actor": {("policy", ())},
    "rl_blox.algorithm.sac._update_entropy_coefficient": {("log_alpha", ())},
    "rl_blox.algorithm.td7.td7_update_critic": {("critic", ())},
    "rl_blox.algorithm.td7.td7_update_actor": {("policy", ("actor",))},
    "rl_blox.algorithm.mrq.update_critic_and_policy": {("q", ()), ("policy", ())},
    "rl_blox.blox.embedding.sale.update_sale": {("embedding", ())},
    "rl_blox.blox.embedding.model_based_encoder.update_model_based_encoder": {("encoder", ())},
    "rl_blox.algorithm.ppo.update_ppo": {("actor", ()), ("critic", ())},
    "rl_blox.algorithm.reinforce.train_value_function": {("value_function", ())},
    "rl_blox.algorithm.reinforce.train_policy_reinforce": {("policy", ())},
    "rl_blox.algorithm.actor_critic.train_policy_actor_critic": {("policy", ())},
    "rl_blox.algorithm.a2c.train_policy_a2c": {("policy", ())},
    "rl_blox.blox.probabilistic_ensemble.train_epoch": {("model", ())},
}
# positions of the trainee parameters in the signatures the table above was confirmed against
# positional signatures of the update routines when the trainee table was recorded (a changed signature makes extra writes unjudgeable)
SIGNATURES = {
    'rl_blox.algorithm.a2c.train_policy_a2c': ('policy', 'policy_optimizer', 'policy_gradient_steps', 'observations', 'actions', 'advantages'),
    'rl_blox.algorithm.actor_critic.train_policy_actor_critic': ('policy', 'policy_optimizer', 'policy_gradient_steps', 'value_function', 'observations', 'actions', 'next_observations', 'rewards', 'gamma_discount', 'gamma'),
    'rl_blox.algorithm.ddpg.ddpg_update_actor': ('policy', 'policy_optimizer', 'q', 'observation'),
    'rl_blox.algorithm.dqn.train_step_with_loss': ('loss', 'optimizer', 'q'),
    'rl_blox.algorithm.mrq.update_critic_and_policy': ('q', 'q_target', 'q_optimizer', 'policy', 'policy_optimizer', 'encoder', 'encoder_target', 'gamma', 'activation_weight', 'next_action', 'batch', 'reward_scale', 'target_reward_scale'),
    'rl_blox.algorithm.ppo.update_ppo': ('actor', 'critic', 'optimizer_actor', 'optimizer_critic', 'observation', 'action', 'reward', 'terminated', 'next_value', 'epochs'),
    'rl_blox.algorithm.reinforce.train_policy_reinforce': ('policy', 'policy_optimizer', 'policy_gradient_steps', 'value_function', 'observations', 'actions', 'returns', 'gamma_discount'),
    'rl_blox.algorithm.reinforce.train_value_function': ('value_function', 'value_function_optimizer', 'value_gradient_steps', 'observations', 'returns'),
    'rl_blox.algorithm.sac._update_entropy_coefficient': ('optimizer', 'policy', 'target_entropy', 'action_key', 'observations', 'log_alpha'),
    'rl_blox.algorithm.sac.sac_update_actor': ('policy', 'policy_optimizer', 'q', 'action_key', 'observation', 'alpha'),
    'rl_blox.algorithm.td7.td7_update_actor': ('policy', 'actor_optimizer', 'critic', 'observation'),
    'rl_blox.algorithm.td7.td7_update_critic': ('fixed_embedding', 'fixed_embedding_target', 'critic', 'critic_target', 'critic_optimizer', 'gamma', 'observation', 'action', 'next_observation', 'next_action', 'reward', 'terminated', 'min_priority', 'q_min', 'q_max'),
    'rl_blox.blox.embedding.model_based_encoder.update_model_based_encoder': ('encoder', 'encoder_target', 'encoder_optimizer', 'the_bins', 'encoder_horizon', 'dynamics_weight', 'reward_weight', 'done_weight', 'target_delay', 'batch_size', 'normalize_targets', 'batches', 'environment_terminates'),
    'rl_blox.blox.embedding.sale.update_sale': ('embedding', 'embedding_optimizer', 'observations', 'actions', 'next_observations'),
    'rl_blox.blox.probabilistic_ensemble.train_epoch': ('model', 'optimizer', 'X', 'Y', 'indices'),
}

TRAINEE_POS = {
    "rl_blox.algorithm.a2c.train_policy_a2c": {(0, ())},
    "rl_blox.algorithm.actor_critic.train_policy_actor_critic": {(0, ())},
    "rl_blox.algorithm.ddpg.ddpg_update_actor": {(0, ())},
    "rl_blox.algorithm.dqn.train_step_with_loss": {(2, ())},
    "rl_blox.algorithm.mrq.update_critic_and_policy": {(3, ()), (0, ())},
    "rl_blox.algorithm.ppo.update_ppo": {(0, ()), (1, ())},
    "rl_blox.algorithm.reinforce.train_policy_reinforce": {(0, ())},
    "rl_blox.algorithm.reinforce.train_value_function": {(0, ())},
    "rl_blox.algorithm.sac._update_entropy_coefficient": {(5, ())},
    "rl_blox.algorithm.sac.sac_update_actor": {(0, ())},
    "rl_blox.algorithm.td7.td7_update_actor": {(0, ("actor",))},
    "rl_blox.algorithm.td7.td7_update_critic": {(2, ())},
    "rl_blox.blox.embedding.model_based_encoder.update_model_based_encoder": {(0, ())},
    "rl_blox.blox.embedding.sale.update_sale": {(0, ())},
    "rl_blox.blox.probabilistic_ensemble.train_epoch": {(0, ())},
}
GRAD_FUNCS = ("flax.nnx.value_and_grad", "flax.nnx.grad", "jax.grad", "jax.value_and_grad")
# (train function, create-state function whose optimizer/module pairs apply)
PAIR_SOURCES = {
    "rl_blox.algorithm.ddpg.train_ddpg": "rl_blox.algorithm.ddpg.create_ddpg_state",
    "rl_blox.algorithm.td3.train_td3": "rl_blox.algorithm.td3.create_td3_state",
    "rl_blox.algorithm.td3_lap.train_td3_lap": "rl_blox.algorithm.td3.create_td3_state",
    "rl_blox.algorithm.sac.train_sac": "rl_blox.algorithm.sac.create_sac_state",
    "rl_blox.algorithm.td7.train_td7": "rl_blox.algorithm.td7.create_td7_state",
    "rl_blox.algorithm.mrq.train_mrq": "rl_blox.algorithm.mrq.create_mrq_state",
    "rl_blox.algorithm.reinforce.train_reinforce": "rl_blox.algorithm.reinforce.create_policy_gradient_continuous_state",
    "rl_blox.algorithm.actor_critic.train_ac": "rl_blox.algorithm.reinforce.create_policy_gradient_continuous_state",
    "rl_blox.algorithm.a2c.train_a2c": "rl_blox.algorithm.reinforce.create_policy_gradient_continuous_state",
    "rl_blox.algorithm.pets.train_pets": "rl_blox.algorithm.pets.create_pets_state",
    # the DQN family receives a user-made optimizer for q_net (documented: "optimizer : Optimizer for q_net")
    "rl_blox.algorithm.dqn.train_dqn": None,
    "rl_blox.algorithm.nature_dqn.train_nature_dqn": None,
    "rl_blox.algorithm.ddqn.train_ddqn": None,
    "rl_blox.algorithm.per.train_ddqn_per": None,
    "rl_blox.algorithm.ppo.train_ppo": None,
}
DOCUMENTED_PAIRS = {  # for routines without a create_*_state function: parameter documentation
    "rl_blox.algorithm.dqn.train_dqn": {"optimizer": ("q_net", ())},
    "rl_blox.algorithm.nature_dqn.train_nature_dqn": {"optimizer": ("q_net", ())},
    "rl_blox.algorithm.ddqn.train_ddqn": {"optimizer": ("q_net", ())},
    "rl_blox.algorithm.per.train_ddqn_per": {"optimizer": ("q_net", ())},
    "rl_blox.algorithm.ppo.train_ppo": {"optimizer_actor": ("actor", ()), "optimizer_critic": ("critic", ())},
}
EFFECT_FREE_MODULES = ["rl_blox.blox.losses", "rl_blox.blox.q_policy", "rl_blox.blox.value_policy", "rl_blox.blox.gae", "rl_blox.blox.return_estimates",
                       "rl_blox.blox.function_approximator.policy_head", "rl_blox.blox.double_qnet", "rl_blox.blox.preprocessing"]
EFFECT_FREE_FUNCS = ["rl_blox.algorithm.ddpg.sample_actions", "rl_blox.algorithm.td3.sample_target_actions", "rl_blox.algorithm.sac.sac_actor_loss",
                     "rl_blox.algorithm.sac.sac_exploration_loss", "rl_blox.algorithm.ppo.ppo_loss", "rl_blox.algorithm.mrq.mrq_loss", "rl_blox.algorithm.mrq.mrq_policy_loss",
                     "rl_blox.algorithm.td7._sum_of_qnet_losses", "rl_blox.algorithm.td7.deterministic_policy_gradient_loss_sale",
                     "rl_blox.blox.embedding.sale.state_action_embedding_loss", "rl_blox.blox.embedding.model_based_encoder.model_based_encoder_loss",
                     "rl_blox.blox.probabilistic_ensemble.gaussian_ensemble_loss", "rl_blox.blox.probabilistic_ensemble.gaussian_nll",
                     "rl_blox.algorithm.pets.mpc_action", "rl_blox.algorithm.pets.evaluate_plans", "rl_blox.algorithm.pets.ts_inf",
                     "rl_blox.algorithm.reinforce.reinforce_gradient", "rl_blox.algorithm.actor_critic.actor_critic_policy_gradient", "rl_blox.algorithm.a2c.a2c_policy_gradient",
                     "rl_blox.algorithm.a2c.prepare_a2c_batch"]


# ------------------------------------------------------------------------------------------------------
def grad_sites(repo: Repo, fn, mi):
    """Yield dicts describing each application of a gradient transform inside ``fn`` (nested defs included)."""
    out = []
    # name -> (loss expr, argnums, has_aux) for `g = nnx.value_and_grad(loss, ...)`
    bound = {}
    for n in ast.walk(fn):
        if isinstance(n, ast.Assign) and isinstance(n.value, ast.Call) and isinstance(n.value.func, (ast.Name, ast.Attribute)) \
                and repo.resolve_expr(mi, n.value.func) in GRAD_FUNCS and len(n.targets) == 1 and isinstance(n.targets[0], ast.Name):
            bound[n.targets[0].id] = n.value
    for n in ast.walk(fn):
        if not isinstance(n, ast.Call):
            continue
        tcall = None
        if isinstance(n.func, ast.Call) and isinstance(n.func.func, (ast.Name, ast.Attribute)) and repo.resolve_expr(mi, n.func.func) in GRAD_FUNCS:
            tcall = n.func
        elif isinstance(n.func, ast.Name) and n.func.id in bound:
            tcall = bound[n.func.id]
        tmi = mi  # the module the transform is written in (its names are resolved there)
        if tcall is None and isinstance(n.func, (ast.Name, ast.Attribute)):
            # `_loss_and_grad = nnx.value_and_grad(L, argnums=k)` bound once at module level (here or in the module it is imported from)
            hit = _module_level_transform(repo, mi, fn, n.func)
            if hit is not None:
                tmi, tcall = hit
        if tcall is None:
            continue
        kind = repo.resolve_expr(tmi, tcall.func)
        kw = {k.arg: k.value for k in tcall.keywords}
        argnums = kw.get("argnums", tcall.args[1] if len(tcall.args) > 1 else ast.Constant(0))
        try:
            an = ast.literal_eval(_literal_of(tmi, fn, argnums))
        except Exception:
            raise AnalysisError(f"{getattr(fn, '_qual', fn.name)}: non-literal argnums `{short(argnums)}` (unrecognised idiom)")
        if not (isinstance(an, int) and not isinstance(an, bool) and an >= 0) and not (isinstance(an, (tuple, list)) and all(isinstance(x, int) and not isinstance(x, bool) and x >= 0 for x in an)):
            raise AnalysisError(f"{getattr(fn, '_qual', fn.name)}: argnums `{short(argnums)}` is not a position or a tuple of positions (unrecognised idiom)")
        nums = list(an) if isinstance(an, (tuple, list)) else [an]
        try:
            has_aux = bool(ast.literal_eval(_literal_of(tmi, fn, kw["has_aux"]))) if "has_aux" in kw else False
        except Exception:
            raise AnalysisError(f"{getattr(fn, '_qual', fn.name)}: non-literal has_aux `{short(kw['has_aux'])}` (unrecognised idiom)")
        loss = tcall.args[0] if tcall.args else kw.get("f")
        diff = []
        for k in nums:
            if any(isinstance(a, ast.Starred) for a in n.args[:k + 1]) or k >= len(n.args):
                diff.append(None)
            else:
                diff.append(n.args[k])
        site = {"app": n, "transform": tcall, "kind": kind, "argnums": nums, "tuple": isinstance(an, (tuple, list)), "has_aux": has_aux, "loss": loss, "diff": diff,
                "value_and": kind.endswith("value_and_grad")}
        out.append(_through_wrapper(repo, fn, tmi, site))
    return out


def _module_level_transform(repo, mi, fn, f):
    """(module, `nnx.value_and_grad(L, ...)` call) when the called name ``f`` denotes a gradient transform that is bound by the only
    module-level assignment to that name (in this module or in the one it is imported from) and is not shadowed inside ``fn``."""
    root = f
    while isinstance(root, ast.Attribute):
        root = root.value
    if not isinstance(root, ast.Name):
        return None
    if any((isinstance(x, ast.arg) and x.arg == root.id) or (isinstance(x, ast.Name) and x.id == root.id and isinstance(x.ctx, (ast.Store, ast.Del))) for x in ast.walk(fn)):
        return None
    try:
        r = repo.resolve_expr(mi, f)
        if not (r and r.startswith(repo.PKG + ".") and repo.has(r)):
            return None
        m2, node = repo.lookup(r)
    except Exception:
        return None
    if not (isinstance(node, (ast.Assign, ast.AnnAssign)) and isinstance(node.value, ast.Call) and isinstance(node.value.func, (ast.Name, ast.Attribute))):
        return None
    if repo.resolve_expr(m2, node.value.func) not in GRAD_FUNCS:
        return None
    name = r.rsplit(".", 1)[1]
    n_stores = sum(1 for x in ast.walk(m2.tree) if isinstance(x, ast.Name) and x.id == name and isinstance(x.ctx, (ast.Store, ast.Del)))
    if n_stores != 1 or getattr(node, "_parent", None) is not m2.tree:
        return None
    return m2, node.value


def _literal_of(mi, fn, e):
    """The expression itself, or the literal a module-level constant is bound to (`_ARGNUMS = 2` ... `argnums=_ARGNUMS`)."""
    if isinstance(e, ast.Name) and isinstance(mi.defs.get(e.id), (ast.Assign, ast.AnnAssign)) and mi.defs[e.id].value is not None \
            and not any(isinstance(x, ast.arg) and x.arg == e.id for x in ast.walk(fn)):
        n_stores = sum(1 for x in ast.walk(mi.tree) if isinstance(x, ast.Name) and x.id == e.id and isinstance(x.ctx, (ast.Store, ast.Del)))
        if n_stores == 1:
            return mi.defs[e.id].value
    return e


def _through_wrapper(repo, fn, mi, site):
    """`def w(p): return L(a, b, p)` / `lambda p: L(a, b, p)` differentiated w.r.t. p is L differentiated w.r.t. the position p is
    passed at: the site is rewritten in terms of L (loss, argnums, application arguments in L's positional order)."""
    from ..expand import clone
    loss = site["loss"]
    W = None
    if isinstance(loss, ast.Lambda):
        W = (positional_params_l(loss), loss.body)
    elif isinstance(loss, ast.Name):
        cands = [x for x in ast.walk(fn) if isinstance(x, ast.FunctionDef) and x is not fn and x.name == loss.id]
        lams = [x.value for x in ast.walk(fn) if isinstance(x, ast.Assign) and len(x.targets) == 1 and isinstance(x.targets[0], ast.Name) and x.targets[0].id == loss.id and isinstance(x.value, ast.Lambda)]
        if len(cands) == 1 and not lams:
            body = [b for b in cands[0].body if not (isinstance(b, ast.Expr) and isinstance(b.value, ast.Constant))]
            if len(body) == 1 and isinstance(body[0], ast.Return) and body[0].value is not None:
                W = ([a.arg for a in cands[0].args.posonlyargs + cands[0].args.args], body[0].value)
        elif len(lams) == 1 and not cands:
            W = (positional_params_l(lams[0]), lams[0].body)
    if W is None:
        return site
    wp, ret = W
    if not (isinstance(ret, ast.Call) and isinstance(ret.func, (ast.Name, ast.Attribute))):
        return site
    lq = repo.resolve_expr(mi, ret.func)
    if not (lq and lq.startswith("rl_blox.") and repo.has(lq)):
        return site
    try:
        L = repo.func(lq)
    except Exception:
        return site
    Lp = positional_params(L)
    if any(isinstance(a, ast.Starred) for a in ret.args) or any(k.arg is None for k in ret.keywords):
        return site
    bound = {}
    for pn, a in zip(Lp, ret.args):
        bound[pn] = a
    for k in ret.keywords:
        bound[k.arg] = k.value
    app = site["app"]
    if any(isinstance(a, ast.Starred) for a in app.args):
        return site
    wmap = {wp[i]: a for i, a in enumerate(app.args) if i < len(wp)}
    for k in app.keywords:
        if k.arg:
            wmap[k.arg] = k.value
    new_args = []
    for pn in Lp:
        if pn not in bound:
            break
        e = bound[pn]
        new_args.append(wmap[e.id] if isinstance(e, ast.Name) and e.id in wmap else e)
    nums = []
    for k in site["argnums"]:
        if k >= len(wp):
            return site
        pos = [j for j, pn in enumerate(Lp) if pn in bound and isinstance(bound[pn], ast.Name) and bound[pn].id == wp[k]]
        if len(pos) != 1:
            return site
        nums.append(pos[0])
    syn = ast.copy_location(ast.Call(func=app.func, args=new_args, keywords=[]), app)
    syn._parent = getattr(app, "_parent", None)
    syn._original = app
    s2 = dict(site)
    s2.update({"app": syn, "loss": ret.func, "argnums": nums, "diff": [new_args[j] if j < len(new_args) else None for j in nums], "wrapper": loss})
    return s2


def positional_params_l(lam: ast.Lambda):
    return [a.arg for a in lam.args.posonlyargs + lam.args.args]


def _stmt_of(node):
    s = node
    while s is not None and not isinstance(s, ast.stmt):
        s = getattr(s, "_parent", None)
    return s


def _grad_targets(site, stmt):
    """Names that receive the gradient(s) when ``stmt`` consumes the application call; 'return' if returned."""
    app = getattr(site["app"], "_original", site["app"])  # a site rewritten through its wrapper stands for the application that is in the tree
    if isinstance(stmt, ast.Return) and stmt.value is app:
        return "return", None
    if isinstance(stmt, ast.Assign) and stmt.value is app and len(stmt.targets) == 1:
        t = stmt.targets[0]
        if site["value_and"]:
            if isinstance(t, ast.Tuple) and len(t.elts) == 2:
                g = t.elts[1]
            elif isinstance(t, ast.Name):
                return "whole-name", [t.id]  # `res = ...; value, grads = res`: the unpacking statement is looked up by the caller
            else:
                return None, None
        else:
            g = t
        if site["tuple"]:
            if isinstance(g, ast.Tuple) and len(g.elts) == len(site["argnums"]) and all(isinstance(x, ast.Name) for x in g.elts):
                return "names", [x.id for x in g.elts]
            if isinstance(g, ast.Name):
                return "tuple-name", [g.id]  # `loss, grads = ...; g_a, g_b = grads`: the element names are looked up by the caller
            return None, None
        if isinstance(g, ast.Name):
            return "names", [g.id]
    return None, None


def _single_unpack(res, fn, stmt, name):
    """The one statement `<targets> = name` that reads the value ``stmt`` binds to ``name`` (reached by this definition only); None otherwise."""
    scope_cfg = res.cfg_of(_enclosing_fn(stmt, fn))
    try:
        snode = scope_cfg.node_of(stmt).id
    except KeyError:
        return None
    readers = [nd for nd in scope_cfg.nodes if nd.ast is not None and nd.kind not in ("entry", "exit") and name in nd.uses and any(d_.node == snode for d_ in scope_cfg.defs_of(nd.id, name))]
    unpacks = [nd for nd in readers if nd.kind == "stmt" and isinstance(nd.ast, ast.Assign) and isinstance(nd.ast.value, ast.Name) and nd.ast.value.id == name
               and [d_.node for d_ in scope_cfg.defs_of(nd.id, name)] == [snode]]
    if len(unpacks) != 1 or len(readers) != 1 or len(unpacks[0].ast.targets) != 1:
        return None
    return unpacks[0].ast


def _enclosing_fn(node, top):
    p = getattr(node, "_parent", None)
    while p is not None and p is not top:
        if isinstance(p, (ast.FunctionDef, ast.AsyncFunctionDef)):
            return p
        p = getattr(p, "_parent", None)
    return top


TREE_MAPS = ("jax.tree.map", "jax.tree_util.tree_map", "jax.tree_map", "optax.tree_utils.tree_map", "optax.tree.map")
SELECTS = ("jax.numpy.where", "jax.lax.select", "numpy.where")
ZEROS = ("jax.numpy.zeros_like", "jax.numpy.zeros", "numpy.zeros_like", "numpy.zeros")
_LEAF = "leaf__of__gradient"


def _leaf_class(repo, mi, e):
    """What a leaf-wise expression makes of one leaf of the gradient (the name _LEAF):
    ('id',) the leaf itself | ('zero',) a zero array whatever the leaf is | ('gate', test, zero_when) the leaf when `test` != zero_when, zeros
    otherwise, with a `test` that does not look at the leaf (one switch for the whole tree) | ('other',) anything else."""
    if isinstance(e, ast.Name) and e.id == _LEAF:
        return ("id",)
    if isinstance(e, ast.Constant) and not isinstance(e.value, (bool, str)) and isinstance(e.value, (int, float)) and e.value == 0:
        return ("zero",)
    if isinstance(e, ast.Call) and isinstance(e.func, (ast.Name, ast.Attribute)) and not e.keywords and not any(isinstance(a, ast.Starred) for a in e.args):
        fq = repo.resolve_expr(mi, e.func)
        if fq in ZEROS and e.args:
            return ("zero",)
        if fq in SELECTS and len(e.args) == 3:
            return _select_class(repo, mi, e.args[0], e.args[1], e.args[2])
    if isinstance(e, ast.IfExp):
        return _select_class(repo, mi, e.test, e.body, e.orelse)
    if isinstance(e, ast.BinOp) and isinstance(e.op, ast.Mult):
        a, b = _leaf_class(repo, mi, e.left), _leaf_class(repo, mi, e.right)
        if ("zero",) in (a, b) and all(x[0] in ("id", "zero") for x in (a, b)):
            return ("zero",)
    return ("other",)


def _select_class(repo, mi, test, a, b):
    ka, kb = _leaf_class(repo, mi, a), _leaf_class(repo, mi, b)
    if isinstance(test, ast.Constant) and isinstance(test.value, bool):
        return ka if test.value else kb
    if ka == kb and ka[0] in ("id", "zero"):
        return ka
    if {ka[0], kb[0]} == {"id", "zero"} and not any(isinstance(x, ast.Name) and x.id == _LEAF for x in ast.walk(test)):
        return ("gate", test, ka[0] == "zero")
    return ("other",)


def _leafwise_of_gradient(repo, mi, cfg, node, value, held):
    """`jax.tree.map(F, .., g, ..)` with the tracked gradient ``g`` as one of the trees: the class of F's result for a leaf of g (see
    _leaf_class); None when ``value`` is not such a tree map or F cannot be read."""
    from ..sem import leaf_application
    if not (isinstance(value, ast.Call) and isinstance(value.func, (ast.Name, ast.Attribute)) and repo.resolve_expr(mi, value.func) in TREE_MAPS):
        return None
    if value.keywords or any(isinstance(a, ast.Starred) for a in value.args) or len(value.args) < 2:
        return None
    trees = list(value.args[1:])
    pos = [i for i, t in enumerate(trees) if isinstance(t, ast.Name) and t.id in held]
    if len(pos) != 1 or any(isinstance(x, ast.Name) and x.id in held for i, t in enumerate(trees) if i != pos[0] for x in ast.walk(t)):
        return None
    trees[pos[0]] = ast.Name(id=_LEAF, ctx=ast.Load())
    try:
        leaf = leaf_application(repo, mi, value.args[0], trees, cfg, node)
    except AnalysisError:
        return None
    return _leaf_class(repo, mi, leaf)


def _gradient_uses(res, fn, gname, site_stmt, repo=None, mi=None):
    """What happens to the gradient that ``site_stmt`` binds to ``gname``, by reaching definitions: (`X.update(m, g)` calls that apply it,
    other statements that read it, leaf-wise switches it passes on its way).  Plain copies `h = g` and leaf-wise identities are followed; a
    leaf-wise switch `h = tree.map(lambda x: where(c, x, 0), g)` (the gradient or zeros, decided by one test for the whole tree) is followed
    and recorded as (statement, test, zero_when)."""
    scope = _enclosing_fn(site_stmt, fn)
    cfg = res.cfg_of(scope)
    try:
        snode = cfg.node_of(site_stmt).id
    except KeyError:
        snode = None
    tracked = {(snode, gname)}
    while True:
        ups, other, more, gates = [], [], set(), []
        for node in cfg.nodes:
            if node.ast is None or node.kind in ("entry", "exit"):
                continue
            held = {nm for dn, nm in tracked if nm in node.uses and (dn is None or any(d.node == dn for d in cfg.defs_of(node.id, nm)))}
            if not held:
                continue
            s = node.ast
            if node.kind != "stmt":
                other.append(s)
                continue
            if isinstance(s, ast.Assign) and len(s.targets) == 1 and isinstance(s.targets[0], ast.Name) and isinstance(s.value, ast.Name) and s.value.id in held:
                more.add((node.id, s.targets[0].id))
                continue
            if repo is not None and isinstance(s, ast.Assign) and len(s.targets) == 1 and isinstance(s.targets[0], ast.Name) \
                    and all(len(cfg.defs_of(node.id, nm)) == 1 for nm in held):
                k = _leafwise_of_gradient(repo, mi, cfg, node.id, s.value, held)
                if k is not None and k[0] == "id":
                    more.add((node.id, s.targets[0].id))
                    continue
                if k is not None and k[0] in ("gate", "zero"):
                    more.add((node.id, s.targets[0].id))
                    gates.append((s, k[1] if k[0] == "gate" else None, k[2] if k[0] == "gate" else None))
                    continue
            found = [c for c in ast.walk(s) if isinstance(c, ast.Call) and isinstance(c.func, ast.Attribute) and c.func.attr == "update" and len(c.args) == 2
                     and not any(isinstance(a, ast.Starred) for a in c.args) and isinstance(c.args[1], ast.Name) and c.args[1].id in held]
            if found:
                ups += found
            else:
                other.append(s)
        if more <= tracked:
            return ups, other, gates
        tracked |= more


def _skipping_path(cfg, a, upd_nodes):
    """A feasible path from the gradient computation (node ``a``) to the normal exit that passes none of the updates (path witness), or None.
    Exception handlers are not followed (R4 is about normal paths); the branch conditions the gradient computation itself is under are assumed."""
    avoid = set(upd_nodes) | {n.id for n in cfg.nodes if isinstance(n.ast, ast.ExceptHandler)}
    assume = {}
    rd = cfg.reaching()
    for b, lab in cfg.control_deps(a):
        t = cfg.nodes[b].ast
        if isinstance(t, ast.If):
            names = {x.id for x in ast.walk(t.test) if isinstance(x, ast.Name)}
            if all(rd[b].get(nm) == rd[a].get(nm) for nm in names):
                for k, v in cfg._lits(t.test, lab, b):
                    assume[k] = v
    return cfg.paths_avoiding(a, cfg.exit, avoid, feasible=True, assume=assume)


def _gate_reason(res, fn, gate, gname, d) -> str:
    stmt, test, zero_when = gate
    if test is None:
        return (f"`{short(stmt, 70)}` replaces every leaf of the gradient by zeros: the update runs without the gradient, `{short(d, 30)}` is not trained by it "
                f"(only the optimizer state - step count, moments - advances)")
    shown = short(test, 50)
    if isinstance(test, ast.Name):
        cfg = res.cfg_of(_enclosing_fn(stmt, fn))
        try:
            ds = cfg.defs_of(cfg.node_of(stmt).id, test.id)
        except KeyError:
            ds = []
        if len(ds) == 1 and ds[0].kind == "assign" and ds[0].value is not None:
            shown = f"{test.id} = {short(ds[0].value, 60)}"
    return (f"`{short(stmt, 70)}` hands the update zeros instead of the gradient whenever `{shown}` is {'true' if zero_when else 'false'}: in that world a "
            f"non-zero gradient w.r.t. `{short(d, 30)}` is discarded - the component is not trained by it - while the update still runs, so the optimizer "
            f"state (step count, moments) advances and a stateful optimizer moves the parameters without a gradient")


_DISTINCT_KINDS = ("param", "clone", "obj", "param|clone")


def _known_ident(i) -> bool:
    """Built only from parameters, fresh clones / constructor results, their attributes / constant items and alternatives of those: two such
    identities that differ denote different objects (trusted base: distinct parameters are distinct objects)."""
    if not isinstance(i, tuple) or not i:
        return False
    if i[0] in _DISTINCT_KINDS:
        return True
    if i[0] == "attr":
        return _known_ident(i[1])
    if i[0] == "alt":
        return all(_known_ident(m) for m in i[1])
    return False


def _obj_id(idn, e, mi, cfg, at, qual, depth=0):
    """Ident.of, plus constant items of a known object (`args[0]`, also through one plain assignment `q = args[0]`)."""
    if isinstance(e, ast.Subscript) and isinstance(e.slice, ast.Constant) and depth < 6:
        return ("attr", _obj_id(idn, e.value, mi, cfg, at, qual, depth + 1), f"[{e.slice.value!r}]")
    if isinstance(e, ast.Name) and depth < 6:
        defs = cfg.defs_of(at, e.id)
        if len(defs) == 1 and defs[0].kind == "assign" and isinstance(defs[0].value, ast.Subscript):
            return _obj_id(idn, defs[0].value, mi, cfg, defs[0].node, qual, depth + 1)
    return idn.of(e, mi, cfg, at, qual)


def _mentions(i, kinds) -> bool:
    """Does the identity (or a part of it: attribute base, alternative) have one of the ``kinds``?"""
    return isinstance(i, tuple) and bool(i) and ((isinstance(i[0], str) and i[0] in kinds) or any(_mentions(x, kinds) for x in i if isinstance(x, tuple)))


def _cmp_ident(a, b) -> str:
    """'same' | 'different' (both are known objects and they are not the same one) | 'unknown'."""
    if a == b and not _mentions(a, ("deep", "expr")):
        return "same"
    if _known_ident(a) and _known_ident(b):
        return "unknown" if set(alternatives(a)) & set(alternatives(b)) else "different"
    return "unknown"


def _same_obj(res, idn, fn, qual, a: ast.AST, a_at: ast.AST, b: ast.AST, b_at: ast.AST):
    """Do the expressions ``a`` (at statement a_at) and ``b`` (at b_at) denote the same object?  (verdict of _cmp_ident, shown identities)"""
    scope = _enclosing_fn(a_at, fn)
    if _enclosing_fn(b_at, fn) is not scope:
        return "unknown", "?", "?"
    cfg = res.cfg_of(scope)
    try:
        na, nb = cfg.node_of(a_at).id, cfg.node_of(b_at).id
    except KeyError:
        return "unknown", "?", "?"
    ia, ib = _obj_id(idn, a, fn._module, cfg, na, qual), _obj_id(idn, b, fn._module, cfg, nb, qual)
    return _cmp_ident(ia, ib), show(ia), show(ib)


def _known():
    from ..expand import load_known
    return load_known()


def _unsummarised_calls(repo, fn, mi):
    """Calls of this routine into repository functions outside the frozen surface, or through scan / vmap / partial wrappers over such."""
    known = _known()
    out = []
    for c in ast.walk(fn):
        if isinstance(c, ast.Call) and isinstance(c.func, (ast.Name, ast.Attribute)):
            r = repo.resolve_expr(mi, c.func)
            if r and r.startswith(repo.PKG + ".") and repo.has(r) and r not in known:
                out.append(r.rsplit(".", 1)[1])
        if isinstance(c, ast.Call):
            for a in list(c.args) + [k.value for k in c.keywords]:
                if isinstance(a, (ast.Name, ast.Attribute)):
                    r = repo.resolve_expr(mi, a)
                    if r and r.startswith(repo.PKG + ".") and repo.has(r) and r not in known:
                        out.append(r.rsplit(".", 1)[1])
    return sorted(set(out))


def _param_path(res, idn, eff, q, fn, mi, path):
    """A written path whose root is a local of the routine (`fixed, actor = policy.embedding, policy.actor; opt.update(actor, g)`), as the
    parameter path the identity analysis resolves the written expression to; the path itself when it is rooted at a parameter / not resolved."""
    if path[0] in param_names(fn):
        return path
    found = set()
    for kind, c, p, op in eff.sites.get(q, []):
        if p != path:
            continue
        r = None
        if kind in ("optimizer.update", "nnx.update") and c.args and _enclosing_fn(c, fn) is fn:
            cfg = res.cfg_of(fn)
            try:
                i = idn.of(c.args[0], mi, cfg, cfg.node_of(c).id, q)
            except KeyError:
                i = None
            attrs = []
            while isinstance(i, tuple) and i and i[0] == "attr" and isinstance(i[2], str):
                attrs.append(i[2])
                i = i[1]
            if isinstance(i, tuple) and i and i[0] == "param" and i[2] in param_names(fn):
                r = (i[2], tuple(attrs[::-1]))
        found.add(r)
    return found.pop() if len(found) == 1 and None not in found else path  # every write through that local is resolved, and to the same parameter path


def _unstarred(res, fn, call):
    """``call`` with `*name` arguments replaced by the elements of the tuple display that is the only definition of the name reaching it."""
    if not any(isinstance(a, ast.Starred) for a in call.args):
        return call
    cfg = res.cfg_of(_enclosing_fn(call, fn))
    try:
        at = cfg.node_of(call).id
    except KeyError:
        return call
    args = []
    for a in call.args:
        if isinstance(a, ast.Starred) and isinstance(a.value, ast.Name):
            ds = cfg.defs_of(at, a.value.id)
            if len(ds) == 1 and ds[0].kind == "assign" and isinstance(ds[0].value, (ast.Tuple, ast.List)) and not any(isinstance(x, ast.Starred) for x in ds[0].value.elts):
                rd = cfg.reaching()
                names = {x.id for x in ast.walk(ds[0].value) if isinstance(x, ast.Name)}
                if all(rd[at].get(nm) == cfg.reaching_out()[ds[0].node].get(nm) for nm in names):  # the elements still have the values they were packed with
                    args += list(ds[0].value.elts)
                    continue
        args.append(a)
    new = ast.copy_location(ast.Call(func=call.func, args=args, keywords=call.keywords), call)
    new._parent = getattr(call, "_parent", None)
    return new


def _referenced(repo, fq) -> bool:
    """Is the function named anywhere in the package outside its own body (called, passed on, re-exported into a table)?"""
    own = repo.func(fq)
    inside = {id(x) for x in ast.walk(own)}
    for mi in repo.modules.values():
        for x in ast.walk(mi.tree):
            if isinstance(x, (ast.Name, ast.Attribute)) and isinstance(x.ctx, ast.Load) and id(x) not in inside and repo.resolve_expr(mi, x) == fq:
                return True
    return False


def _handed_elsewhere(repo, res, eff, q, fn, mi, paths):
    """Calls in routine ``fn`` that receive one of the module ``paths`` (the object itself, an object that contains it, a tuple / list / dict
    display around it) although the effect analysis does not look into them: not an update it recognised, not a gradient application, not a
    local def it scanned, not a repository function it summarised.  What such a call does to the module is unknown."""
    denotes = {}  # local name -> path it stands for
    for _ in range(3):
        for st in ast.walk(fn):
            if isinstance(st, ast.Assign) and len(st.targets) == 1 and isinstance(st.targets[0], ast.Name):
                pth = expr_path(st.value)
                if pth is not None:
                    base = denotes.get(pth[0], (pth[0], ()))
                    denotes[st.targets[0].id] = (base[0], base[1] + pth[1])

    def is_it(e) -> bool:
        if isinstance(e, ast.Starred):
            return is_it(e.value)
        if isinstance(e, (ast.Tuple, ast.List, ast.Set)):
            return any(is_it(x) for x in e.elts)
        if isinstance(e, ast.Dict):
            return any(is_it(x) for x in e.values if x is not None)
        pth = expr_path(e)
        if pth is None:
            return False
        base = denotes.get(pth[0], (pth[0], ()))
        full = (base[0], base[1] + pth[1])
        return any(full[0] == r and full[1] == a[:len(full[1])] for r, a in paths)

    seen = {id(s_[1]) for s_ in eff.sites.get(q, [])}
    for site in grad_sites(repo, fn, mi):
        seen.add(id(getattr(site["app"], "_original", site["app"])))
    local_defs = {x.name for x in ast.walk(fn) if isinstance(x, (ast.FunctionDef, ast.AsyncFunctionDef)) and x is not fn}
    out = []
    for c in ast.walk(fn):
        if not isinstance(c, ast.Call) or id(c) in seen:
            continue
        if not any(is_it(a) for a in list(c.args) + [k.value for k in c.keywords]):
            continue
        if isinstance(c.func, ast.Name) and c.func.id in local_defs:
            continue
        r = repo.resolve_expr(mi, c.func) if isinstance(c.func, (ast.Name, ast.Attribute)) else None
        if r and r.startswith(repo.PKG + ".") and repo.has(r):
            continue
        out.append(c)
    return out


def _call_is(repo, mi, e, *quals) -> bool:
    return isinstance(e, ast.Call) and isinstance(e.func, (ast.Name, ast.Attribute)) and repo.resolve_expr(mi, e.func) in quals


def _live_state_of(repo, mi, cfg, at, s, depth=0):
    """(X, node) when the state expression ``s`` (evaluated at CFG node ``at``) is the *live* state of module X: `nnx.state(X, ..)`, the
    state half of `nnx.split(X, ..)`, a name bound once to one of these.  The returned State holds X's own Variable objects (flax nnx; any
    `tree.map` over it makes new ones and is therefore not read as live)."""
    if depth > 4:
        return None
    if _call_is(repo, mi, s, "flax.nnx.state") and s.args and not isinstance(s.args[0], ast.Starred):
        return s.args[0], at
    if isinstance(s, ast.Subscript) and isinstance(s.slice, ast.Constant) and s.slice.value == 1 and _call_is(repo, mi, s.value, "flax.nnx.split") \
            and len(s.value.args) == 1 and not isinstance(s.value.args[0], ast.Starred):
        return s.value.args[0], at
    if isinstance(s, ast.Name):
        ds = cfg.defs_of(at, s.id)
        if len(ds) == 1 and ds[0].kind == "assign" and ds[0].value is not None:
            return _live_state_of(repo, mi, cfg, ds[0].node, ds[0].value, depth + 1)
        if len(ds) == 1 and ds[0].kind == "unpack" and ds[0].path == (1,) and _call_is(repo, mi, ds[0].value, "flax.nnx.split") \
                and len(ds[0].value.args) == 1 and not isinstance(ds[0].value.args[0], ast.Starred):
            return ds[0].value.args[0], ds[0].node
    return None


def _merge_of_live_state(repo, mi, cfg, at, e, depth=0):
    """(X, node) when the module expression ``e`` is `nnx.merge(<graphdef>, <live state of X>)` without `copy=True` (directly or through a name
    bound once): the merged module is a new object built around X's own Variables - it shares its parameters with X."""
    if depth > 4:
        return None
    if _call_is(repo, mi, e, "flax.nnx.merge"):
        kw = {k.arg: k.value for k in e.keywords}
        if any(k is None for k in kw) or any(isinstance(a, ast.Starred) for a in e.args):
            return None
        if "copy" in kw and not (isinstance(kw["copy"], ast.Constant) and kw["copy"].value is False):
            return None
        for st in e.args[1:]:
            src = _live_state_of(repo, mi, cfg, at, st)
            if src is not None:
                return src
        return None
    if isinstance(e, ast.Name):
        ds = cfg.defs_of(at, e.id)
        if len(ds) == 1 and ds[0].kind == "assign" and ds[0].value is not None:
            return _merge_of_live_state(repo, mi, cfg, ds[0].node, ds[0].value, depth + 1)
    return None


def _storage_ident(repo, idn, mi, cfg, qual, ident):
    """The identity whose parameters the object uses: a call result that is `nnx.merge(<graphdef>, <live state of X>)` stands for X."""
    if isinstance(ident, tuple) and ident and ident[0] == "alt":
        from ..identity import _alt
        return _alt({_storage_ident(repo, idn, mi, cfg, qual, m) for m in ident[1]})
    if isinstance(ident, tuple) and len(ident) == 3 and ident[0] == "call" and ident[1] == qual and isinstance(ident[2], int) and ident[2] < len(cfg.nodes):
        st = cfg.nodes[ident[2]].ast
        if isinstance(st, ast.Assign) and len(st.targets) == 1 and isinstance(st.targets[0], ast.Name):
            src = _merge_of_live_state(repo, mi, cfg, ident[2], st.value)
            if src is not None:
                return _obj_id(idn, src[0], mi, cfg, src[1], qual)
    return ident


def _ident_path(i):
    """('param', q, name) / attributes of it -> (name, attrs); None for anything else."""
    attrs = []
    while isinstance(i, tuple) and i and i[0] == "attr" and isinstance(i[2], str):
        attrs.append(i[2])
        i = i[1]
    if isinstance(i, tuple) and i and i[0] == "param":
        return i[2], tuple(attrs[::-1])
    return None


def _overlaps(p, w) -> bool:
    return p is not None and p[0] == w[0] and (p[1] == w[1][:len(p[1])] or w[1] == p[1][:len(w[1])])


def shared_storage_installed(ck, repo, res, eff, idn):
    """R8: attribute stores that install, as a component of one object, (a module built around) the parameters of another component."""
    transparent = repo.transparent_helpers()
    for qual, fn, mi in repo.all_functions():
        if "<locals>" in qual or qual in transparent:
            continue
        pn = param_names(fn)
        if isinstance(getattr(fn, "_parent", None), ast.ClassDef) and pn and pn[0] in ("self", "cls"):
            continue  # a constructor / method that stores into its own object builds a container; containers are read by R5 through their fields
        stores = [(n, n.targets[0]) for n in ast.walk(fn) if isinstance(n, ast.Assign) and len(n.targets) == 1 and isinstance(n.targets[0], ast.Attribute)
                  and _enclosing_fn(n, fn) is fn]
        if not stores:
            continue
        cfg = res.cfg_of(fn)
        written = None
        for st, tg in stores:
            try:
                at = cfg.node_of(st).id
            except KeyError:
                continue
            src = _merge_of_live_state(repo, mi, cfg, at, st.value)
            if src is not None:
                how, x_e, x_at = "shares", src[0], src[1]
            elif expr_path(st.value) is not None:
                how, x_e, x_at = "is", st.value, at
            else:
                continue
            t_id = idn.of(tg, mi, cfg, at, qual)
            x_id = _obj_id(idn, x_e, mi, cfg, x_at, qual)
            verdict = _cmp_ident(t_id, x_id)
            key = f"{_p(expr_path(tg)) if expr_path(tg) else short(tg, 30)}<-{short(x_e, 30)}"
            if verdict == "same":
                if how == "shares":
                    ck.ob("R8-no-shared-storage", qual, key, True, f"`{short(st, 70)}` rebuilds {show(t_id)} around its own parameters", "", loc(mi, st))
                continue
            if written is None:
                written = {w for w in eff.summary(qual) if not _looks_optimizer(w, fn)}
            tp, xp = _ident_path(t_id), _ident_path(x_id)
            hit = sorted(w for w in written if _overlaps(tp, w) or _overlaps(xp, w))
            if tp is None or not any(w[0] == tp[0] for w in written):
                continue  # the slot belongs to an object no part of which this routine writes (a record, a logger, a statistics holder): not a component
            if how == "is" and not hit:
                continue  # a reference stored into a record; nothing says that it is a module that some update writes
            if verdict == "unknown" or has_base(t_id, x_id) or has_base(x_id, t_id) or not hit:
                ck.incomplete.append(f"{qual}: `{short(st, 70)}` installs {'a module built around the parameters of' if how == 'shares' else ''} {show(x_id)} as {show(t_id)}; "
                                     f"whether the two are different components one of which is trained cannot be decided (unrecognised form)")
                continue
            # is the store still in force at the exit (not overwritten), and - for a plain reference - is the source still where it was (not moved on)?
            later_t = [n for n, t2 in stores if n is not st and expr_path(t2) == expr_path(tg)]
            later_x = [n for n, t2 in stores if n is not st and how == "is" and expr_path(t2) == expr_path(x_e)]
            def _after(n_):
                try:
                    b = cfg.node_of(n_).id
                except KeyError:
                    return "maybe"
                if b in nx_descendants(cfg, at):
                    return "always" if cfg.postdominates(b, at) else "maybe"
                return "never"
            states = {_after(n_) for n_ in later_t + later_x}
            if "always" in states:
                continue  # the installed reference is replaced / the source slot is given another object before the routine ends: moved, not shared
            if "maybe" in states:
                ck.incomplete.append(f"{qual}: `{short(st, 70)}` is overwritten on some paths only (unrecognised form)")
                continue
            sites_txt = ", ".join(_p(w) for w in hit[:3])
            ck.ob("R8-no-shared-storage", qual, key, False, f"`{short(st, 80)}`",
                  (f"{show(t_id)} becomes a module built around the Variables of {show(x_id)} (nnx.merge of a live nnx.state does not copy)" if how == "shares" else
                   f"{show(t_id)} and {show(x_id)} become one object") +
                  f": the two components share their parameters from then on, and this routine writes {sites_txt} - that update also changes the other component, "
                  f"which is outside the trainee set of the update", loc(mi, st))


def _resolve_once(cfg, at, e, depth=0):
    """The expression a name stands for (one reaching plain assignment, followed a few steps); the expression itself otherwise."""
    while isinstance(e, ast.Name) and depth < 4:
        ds = cfg.defs_of(at, e.id)
        if not (len(ds) == 1 and ds[0].kind == "assign" and ds[0].value is not None):
            break
        e, at, depth = ds[0].value, ds[0].node, depth + 1
    return e, at


def _drop_last_remainder_slices(cfg, at, e):
    """Slices `[.., :-r, ..]` inside ``e`` whose bound is the negation of a remainder `a % b` (directly or through names): (subscript, names
    and spelling by which a guard could mention the bound).  `x[:-r]` drops the last r elements for r > 0 and EVERYTHING for r == 0."""
    out = []
    for sub in ast.walk(e):
        if not isinstance(sub, ast.Subscript):
            continue
        dims = sub.slice.elts if isinstance(sub.slice, ast.Tuple) else [sub.slice]
        for d in dims:
            if not (isinstance(d, ast.Slice) and d.lower is None and d.upper is not None and d.step is None):
                continue
            mention = {x.id for x in ast.walk(d.upper) if isinstance(x, ast.Name)}
            u, u_at = _resolve_once(cfg, at, d.upper)
            if not (isinstance(u, ast.UnaryOp) and isinstance(u.op, ast.USub)):
                continue
            mention |= {x.id for x in ast.walk(u.operand) if isinstance(x, ast.Name)} if isinstance(u.operand, ast.Name) else set()
            v, _ = _resolve_once(cfg, u_at, u.operand)
            if isinstance(v, ast.BinOp) and isinstance(v.op, ast.Mod):
                out.append((sub, mention, ast.unparse(v)))
    return out


def _depends_on(cfg, at, test, mention, rem) -> bool:
    """Is the remainder (one of the names ``mention`` it goes by, or its spelling ``rem``) in the backward data slice of the test
    (`flag = r != 0 ... if flag:`)?  Any dependence counts as a guard - the orientation of the test is not judged."""
    work, seen = [(at, test)], set()
    while work and len(seen) < 200:
        n_at, e = work.pop()
        if {x.id for x in ast.walk(e) if isinstance(x, ast.Name)} & mention or rem in ast.unparse(e):
            return True
        for x in ast.walk(e):
            if isinstance(x, ast.Name) and isinstance(x.ctx, ast.Load):
                for d in cfg.defs_of(n_at, x.id):
                    if d.value is not None and (d.node, x.id) not in seen:
                        seen.add((d.node, x.id))
                        work.append((d.node, d.value))
    return False


def empty_batches(ck, repo, res, eff):
    """R9: the data handed to an update routine is not emptied in the world where a remainder is zero."""
    transparent = repo.transparent_helpers()
    for qual, fn, mi in repo.all_functions():
        if "<locals>" in qual or qual in transparent:
            continue
        eff.summary(qual)
        calls = [c for k, c, p_, op in eff.sites.get(qual, []) if k.startswith("call ") and k.split(" ", 1)[1] in TRAINEES and _enclosing_fn(c, fn) is fn]
        if not calls:
            continue
        cfg = res.cfg_of(fn)
        done = set()
        for c in calls:
            if id(c) in done:
                continue
            done.add(id(c))
            try:
                at = cfg.node_of(c).id
            except KeyError:
                continue
            # backwards over the definitions the arguments are computed from
            work = [(at, a) for a in list(c.args) + [k.value for k in c.keywords]]
            seen, depth = set(), 0
            while work and depth < 400:
                depth += 1
                n_at, e = work.pop()
                for sub, mention, rem in _drop_last_remainder_slices(cfg, n_at, e):
                    if (id(sub), n_at) in seen:
                        continue
                    seen.add((id(sub), n_at))
                    guarded = False
                    for b, _lab in cfg.control_deps(n_at):
                        t = getattr(cfg.nodes[b].ast, "test", None)
                        if t is not None and _depends_on(cfg, b, t, mention, rem):
                            guarded = True
                    child, par = sub, getattr(sub, "_parent", None)
                    while par is not None and not isinstance(par, ast.stmt):
                        # `x[:-r] if r else x`: the conditional expression is the guard
                        if isinstance(par, ast.IfExp) and child is not par.test and _depends_on(cfg, n_at, par.test, mention, rem):
                            guarded = True
                        child, par = par, getattr(par, "_parent", None)
                    callee = next(k.split(" ", 1)[1] for k, c2, p_, op in eff.sites[qual] if c2 is c and k.startswith("call "))
                    ck.ob("R9-batches-not-emptied", qual, f"{callee.rsplit('.', 1)[1]}:{short(sub, 40)}", guarded, f"`{short(sub, 60)}` feeds `{short(c, 50)}`",
                          "" if guarded else f"the bound of the slice is minus the remainder `{rem}`; in the world where the remainder is 0 (an exact multiple) the slice is `[:0]` - empty, not "
                          f"complete - and nothing guards that world: {callee.rsplit('.', 1)[1]} receives no data, performs no optimiser step and leaves its trainee unchanged", loc(mi, sub))
                for x in ast.walk(e):
                    if isinstance(x, ast.Name) and isinstance(x.ctx, ast.Load):
                        for d in cfg.defs_of(n_at, x.id):
                            if d.kind in ("assign", "unpack", "aug") and d.value is not None and (d.node, x.id) not in seen:
                                seen.add((d.node, x.id))
                                work.append((d.node, d.value))


def nx_descendants(cfg, a):
    import networkx as nx
    return nx.descendants(cfg.graph(), a)


def run(ck, repo: Repo, tier: str):
    res = Resolver(repo)
    eff = Effects(repo, res)
    idn = Ident(repo)
    g = res.call_graph()

    def _section_1():
        # ---------------- R1 / R4 -----------------------------------------------------------------------------
        n_sites = 0
        returned = {}  # function qual -> (site, param the gradient is w.r.t.)

        def consumed(qual, fn, mi, gname, d, stmt, app_at, what, where, r1_key, r1_text):
            """R4 (applied at all, on every normal path) and R1 (applied to the object it was taken with respect to) for one gradient."""
            ups, other, gates = _gradient_uses(res, fn, gname, stmt, repo, mi)
            if not ups and other:
                # the gradient goes somewhere the rule does not follow (returned in a tuple, transformed, handed to a helper, a loop over
                # (optimizer, module, gradient) triples ...): neither applied nor lost as far as this analysis can tell
                ck.incomplete.append(f"{qual}: gradient `{gname}` {what} is read by `{short(other[0], 60)}`, not by an `<optimizer>.update(<module>, {gname})` statement (unrecognised form)")
                return
            # no update and no other reader: the value is dead - positive evidence that the gradient is discarded
            ck.ob("R4-does-update", qual, f"consumed:{short(d, 30)}", bool(ups), f"gradient `{gname}` {what} w.r.t. `{short(d, 30)}`",
                  "" if ups else "the gradient is computed but never read again, so it is never applied: the trained component does not change", where)
            if not ups:
                return
            # R7: what the update receives is the gradient, not a switched copy of it (the switch is a branch written as data: in the world
            # where it selects zeros the update runs without the gradient)
            ck.ob("R7-gradient-intact", qual, f"intact:{short(d, 30)}", not gates, f"gradient `{gname}` {what} on its way to `{short(ups[0], 60)}`",
                  "" if not gates else _gate_reason(res, fn, gates[0], gname, d), loc(mi, gates[0][0]) if gates else where)
            for u in ups:
                verdict, got_s, want_s = _same_obj(res, idn, fn, qual, u.args[0], u, d, app_at)
                if verdict == "unknown":
                    ck.incomplete.append(f"{qual}: cannot decide whether `{short(u.args[0], 40)}` in `{short(u, 60)}` ({got_s}) is the object `{short(d, 40)}` ({want_s}) "
                                         f"the gradient `{gname}` was taken with respect to (unrecognised form)")
                    continue
                ok = verdict == "same"
                ck.ob("R1-grad-update-pairing", qual, r1_key, ok, f"{r1_text} applied by `{short(u, 70)}`",
                      "" if ok else f"the gradient was taken with respect to `{short(d, 40)}` ({want_s}) but is applied to `{short(u.args[0], 40)}` ({got_s}): a different component is changed", loc(mi, u))
            # R4: from the gradient computation every normal path reaches one of the updates (path witness otherwise)
            scope = _enclosing_fn(stmt, fn)
            cfg = res.cfg_of(scope)
            try:
                a, upd = cfg.node_of(stmt).id, {cfg.node_of(u).id for u in ups}
            except KeyError:
                ck.incomplete.append(f"{qual}: the statements of gradient `{gname}` and its update are not in one control-flow graph (unrecognised form)")
                return
            wit = _skipping_path(cfg, a, upd)
            ck.ob("R4-does-update", qual, f"unconditional:{short(d, 30)}", wit is None, f"`{short(ups[0], 60)}` follows its gradient on every path",
                  "" if wit is None else "the update is skipped on some path after the gradient was computed", loc(mi, ups[0]), witness=None if wit is None else cfg.describe_path(wit))

        transparent = repo.transparent_helpers()
        for qual, fn, mi in repo.all_functions():
            if "<locals>" in qual:
                continue  # nested defs are scanned with their parent (ast.walk)
            for site in grad_sites(repo, fn, mi):
                n_sites += 1
                stmt = _stmt_of(site["app"])
                where = loc(mi, site["app"])
                kind, names = _grad_targets(site, stmt)
                if kind is None:
                    ck.incomplete.append(f"{qual}: gradient application `{short(site['app'], 60)}` is consumed in an unrecognised way")
                    continue
                if any(d is None for d in site["diff"]):
                    ck.incomplete.append(f"{qual}: differentiated argument of `{short(site['app'], 60)}` cannot be located (starred arguments)")
                    continue
                if kind == "return" and qual in transparent:
                    continue  # a new helper every call of which was expanded into its caller: the site is judged there
                if kind == "return":
                    pp = positional_params(fn)
                    d = site["diff"][0]
                    ck.need(len(site["diff"]) == 1 and isinstance(d, ast.Name) and d.id in pp, f"{qual}: returned gradient w.r.t. a non-parameter (unrecognised idiom)")
                    returned[qual] = (site, d.id)
                    continue
                bound_at = [stmt] * len(site["diff"])
                if kind == "whole-name":
                    un = _single_unpack(res, fn, stmt, names[0])
                    tg = un.targets[0] if un is not None else None
                    g_ = tg.elts[1] if isinstance(tg, (ast.Tuple, ast.List)) and len(tg.elts) == 2 else None
                    if isinstance(g_, ast.Name) and not site["tuple"]:
                        names, bound_at = [g_.id], [un]
                    elif isinstance(g_, (ast.Tuple, ast.List)) and site["tuple"] and len(g_.elts) == len(site["diff"]) and all(isinstance(x, ast.Name) for x in g_.elts):
                        names, bound_at = [x.id for x in g_.elts], [un] * len(g_.elts)
                    else:
                        ck.incomplete.append(f"{qual}: the result `{names[0]}` of `{short(site['app'], 50)}` is not unpacked by one statement into (value, gradient) (unrecognised form)")
                        continue
                if kind == "tuple-name":
                    # the statement that unpacks the tuple of gradients (reached by this definition only) binds the element names
                    scope_cfg = res.cfg_of(_enclosing_fn(stmt, fn))
                    try:
                        snode = scope_cfg.node_of(stmt).id
                    except KeyError:
                        snode = None
                    unpacks = [nd for nd in scope_cfg.nodes if nd.kind == "stmt" and isinstance(nd.ast, ast.Assign) and isinstance(nd.ast.value, ast.Name) and nd.ast.value.id == names[0]
                               and [d_.node for d_ in scope_cfg.defs_of(nd.id, names[0])] == [snode]]
                    tg = unpacks[0].ast.targets[0] if len(unpacks) == 1 and len(unpacks[0].ast.targets) == 1 else None
                    if not (isinstance(tg, (ast.Tuple, ast.List)) and len(tg.elts) == len(site["diff"]) and all(isinstance(x, ast.Name) for x in tg.elts)):
                        ck.incomplete.append(f"{qual}: the tuple of gradients `{names[0]}` of `{short(site['app'], 50)}` is not unpacked by one statement into one name per differentiated argument (unrecognised form)")
                        continue
                    names, bound_at = [x.id for x in tg.elts], [unpacks[0].ast] * len(tg.elts)
                for gname, d, at_ in zip(names, site["diff"], bound_at):
                    consumed(qual, fn, mi, gname, d, at_, stmt, f"of `{short(site['loss'], 40)}`", where, f"{short(d, 30)}<-{short(site['loss'], 40)}",
                             f"grad wrt `{short(d, 40)}` (argnums={site['argnums']})")
        ck.floor("grad-sites", n_sites, 16)
        # gradients returned to callers
        for fq, (site, pname) in sorted(returned.items()):
            callers = [c for c in g.predecessors(fq)] if fq in g else []
            found = 0
            for cq in sorted(callers):
                try:
                    cfn = repo.func(cq)
                except Exception:
                    continue
                cmi = cfn._module
                fdef = repo.func(fq)
                for n in ast.walk(cfn):
                    if isinstance(n, ast.Assign) and isinstance(n.value, ast.Call) and isinstance(n.value.func, (ast.Name, ast.Attribute)) and repo.resolve_expr(cmi, n.value.func) == fq:
                        t = n.targets[0]
                        if not (len(n.targets) == 1 and isinstance(t, ast.Tuple) and len(t.elts) == 2 and isinstance(t.elts[1], ast.Name)):
                            raise AnalysisError(f"{cq}: result of {fq} unpacked in an unrecognised way")
                        call = _unstarred(res, cfn, n.value)
                        d = bind_call(fdef, call).get(pname)
                        if d is None or isinstance(d, list) or any(isinstance(a, ast.Starred) for a in call.args) or any(k.arg is None for k in call.keywords):
                            raise AnalysisError(f"{cq}: the argument of {fq} that is differentiated (`{pname}`) cannot be located at `{short(n.value, 60)}` (unrecognised form)")
                        found += 1
                        short_fq = fq.rsplit('.', 1)[1]
                        consumed(cq, cfn, cmi, t.elts[1].id, d, n, n, f"returned by {short_fq}", loc(cmi, n), f"{short(d, 30)}<-{short_fq}",
                                 f"{short_fq} differentiates its `{pname}` = `{short(d, 30)}`;")
            if found == 0 and not _referenced(repo, fq):
                continue  # nothing in the package uses the function any more (its callers compute the gradient themselves): no gradient to follow
            ck.need(found > 0, f"{fq}: returns a gradient but no caller consumes it (anchor vanished)")
    ck.guard(_section_1)

    def _section_2():
        # ---------------- R2 effect sets ---------------------------------------------------------------------------
        ck.floor("update-routines", len(TRAINEES), 15)
        for q, want0 in sorted(TRAINEES.items()):
            fn = repo.func(q)
            mi = fn._module
            # the documented trainee is a *position* of the routine's signature (frozen below); its current name is looked up, so that
            # renaming a parameter does not change the rule
            pp_ = positional_params(fn)
            want = {(pp_[i], a) for i, a in TRAINEE_POS[q] if i < len(pp_)}
            if len(want) != len(TRAINEE_POS[q]):
                raise AnalysisError(f"{q}: signature has fewer parameters than when the trainee set was recorded (anchor vanished)")
            got = eff.summary(q)
            opts = {op for k, c, p, op in eff.sites.get(q, []) if op is not None}
            # optimizers: receivers of an update in this routine, and the parameters at the positions that held the optimizers when the
            # signature was recorded (an optimizer that is only written by a callee has no receiver here)
            rec = SIGNATURES.get(q, ())
            opt_params = {pp_[i] for i, nm in enumerate(rec) if "optimizer" in nm and i < len(pp_)} if len(rec) == len(pp_) else set()
            mods = {p for p in got if p not in opts and not (p[0] in opt_params and not p[1]) and not _looks_optimizer(p, fn)}
            mods = {_param_path(res, idn, eff, q, fn, mi, p) for p in mods}
            extra = mods - want
            missing = want - mods
            ok = not extra and not missing
            why = ""
            if not ok:
                # evidence only when the written / missing component is a parameter path of this routine and every call it makes was
                # summarised; temporaries of expanded helpers, positions that moved in the signature and gradient steps that go through new
                # functions / wrappers are not attributable
                roots = {(_p(x).split(".")[0]) for x in extra | missing}
                sig_now = positional_params(fn)
                if any("__i" in r_ for r_ in roots) or any(r_ not in sig_now for r_ in roots):
                    ck.incomplete.append(f"{q}: write set {sorted(_p(x) for x in mods)} cannot be attributed to the signature positions of the documented trainees (unrecognised form)")
                    continue
                if missing and _unsummarised_calls(repo, fn, mi):
                    ck.incomplete.append(f"{q}: the documented trainee {sorted(_p(x) for x in missing)} is handed to code that is not summarised ({_unsummarised_calls(repo, fn, mi)[:2]}): cannot decide whether it is trained")
                    continue
                handed = _handed_elsewhere(repo, res, eff, q, fn, mi, missing) if missing else []
                if handed:
                    # "no write found" is evidence only if the trainee goes nowhere the effect analysis does not look
                    ck.incomplete.append(f"{q}: the documented trainee {sorted(_p(x) for x in missing)} is handed to `{short(handed[0], 60)}`, whose effect on it is not summarised: cannot decide whether it is trained (unrecognised form)")
                    continue
                if extra and tuple(sig_now) != tuple(SIGNATURES.get(q, sig_now)):
                    ck.incomplete.append(f"{q}: the signature changed since the trainee table was recorded; the extra write {sorted(_p(x) for x in extra)} cannot be judged")
                    continue
            if extra:
                why = f"also writes {sorted(_p(x) for x in extra)}: a component it is not documented to train is changed"
            elif missing:
                why = f"does not write its documented trainee {sorted(_p(x) for x in missing)}"
            ck.ob("R2-effects", q, "effect-set", ok, f"writes {sorted(_p(x) for x in mods)} (optimizers {sorted(_p(x) for x in got - mods)})", why, loc(mi, fn))
    ck.guard(_section_2)

    pair_checked = set()  # id(update call) of the direct updates in training loops whose optimizer / module pair was compared (section 4)

    def _section_3():
        # a gradient-updating function that is not in the table: there is no documented trainee set to compare its writes with, so nothing
        # can be concluded from the update alone (an update routine inlined into its training loop is judged pair by pair in section 4)
        transparent = repo.transparent_helpers()
        for qual, fn, mi in repo.all_functions():
            if "<locals>" in qual or qual in TRAINEES or qual in transparent:
                continue
            direct = [s for s in (eff.summary(qual) and eff.sites.get(qual, [])) if s[0] == "optimizer.update"]
            if direct and qual not in _known():
                ck.incomplete.append(f"{qual}: a new function applies an optimizer update and is not expanded at its call sites (cannot attribute the update)")
                continue
            left = [s for s in direct if id(s[1]) not in pair_checked]
            if left:
                ck.incomplete.append(f"{qual}: `{short(left[0][1], 60)}` applies an optimizer update in a function that has no documented trainee set: cannot be judged (unrecognised form)")

    def _section_4():
        # ---------------- R2 call-site optimizer/module pairs ----------------------------------------------------------
        n_pairs = 0
        for tq, cq in sorted(PAIR_SOURCES.items()):
            tfn = repo.func(tq)
            tmi = tfn._module
            cfg = res.cfg_of(tfn)
            pairs = dict(DOCUMENTED_PAIRS.get(tq, {}))
            if cq:
                pairs.update(_created_pairs(repo, cq))
                ck.need(pairs, f"{cq}: no nnx.Optimizer(...) found (anchor vanished)")
            eff.summary(tq)
            direct = {id(s_[1]) for s_ in eff.sites.get(tq, []) if s_[0] == "optimizer.update"}
            for node in cfg.nodes:
                if node.ast is None or node.kind != "stmt":
                    continue
                for c in ast.walk(node.ast):
                    if not isinstance(c, ast.Call):
                        continue
                    found = list(_opt_mod_at_call(repo, res, eff, tq, tfn, cfg, node.id, c))
                    if id(c) in direct:
                        # an update routine inlined into the loop: `<optimizer>.update(<module>, g)` establishes the pair itself
                        found.append((c.func.value, c.args[0], tq, tfn, cfg, node.id, tq + ".<inline update>"))
                    for (opt_e, mod_e, ctx_q, ctx_fn, ctx_cfg, ctx_node, callee) in found:
                        op = expr_path(opt_e)
                        if op is None:
                            continue
                        # which optimizer: the parameter / field the expression denotes (aliases followed), else its spelling
                        oid = idn.of(opt_e, ctx_fn._module, ctx_cfg, ctx_node, ctx_q)
                        oname = oid[2] if oid[0] in ("param", "attr") and isinstance(oid[2], str) else (op[1][-1] if op[1] else op[0])
                        if oname not in pairs:
                            continue
                        n_pairs += 1
                        want_mod = pairs[oname]
                        got_id = idn.of(mod_e, ctx_fn._module, ctx_cfg, ctx_node, ctx_q)
                        want_e = _path_expr(repo, want_mod, tfn, cq)
                        want_id = idn.of(want_e, tmi, cfg, node.id, tq)
                        verdict = _cmp_ident(got_id, want_id)
                        if verdict == "unknown":
                            # an identity that is not built from parameters / clones / constructor fields (merged definitions, a call result, a
                            # name of create_*_state that the training routine does not have) is not evidence of a mix-up
                            ck.incomplete.append(f"{tq}: `{short(c, 50)}`: cannot decide whether the module {show(got_id)} that `{oname}` updates is `{_p(want_mod)}` = {show(want_id)}, "
                                                 f"the one it was created for (unrecognised form)")
                            continue
                        if id(c) in direct:
                            pair_checked.add(id(c))
                        ok = verdict == "same"
                        ck.ob("R2-effects", tq, f"pair:{oname}@{callee.rsplit('.', 1)[1]}", ok, f"`{short(c, 50)}`: {oname} updates {show(got_id)}",
                              "" if ok else f"`{oname}` was created for `{_p(want_mod)}` ({show(want_id)}) but is used to update {show(got_id)}: optimizer state and parameters of different components are mixed",
                              loc(tmi, c))
        ck.floor("optimizer-module-pairs", n_pairs, 20)
    ck.guard(_section_4)
    ck.guard(_section_3)

    def _section_5():
        # ---------------- R5 returned components are distinct objects ---------------------------------------------------
        n_res = 0
        for qual, fn, mi in repo.all_functions():
            if "<locals>" in qual or not fn.name.startswith("train_"):
                continue
            for n in ast.walk(fn):
                if isinstance(n, ast.Return) and isinstance(n.value, ast.Call) and isinstance(n.value.func, ast.Call) and dotted(n.value.func.func) == "namedtuple":
                    nt = n.value.func
                    if not (len(nt.args) == 2 and isinstance(nt.args[1], (ast.List, ast.Tuple))):
                        continue
                    fields = [e.value for e in nt.args[1].elts if isinstance(e, ast.Constant)]
                    cfg = res.cfg_of(fn)
                    at = cfg.node_of(n).id
                    seen = {}
                    n_res += 1
                    for fld, val in zip(fields, n.value.args):
                        alts = [val.body, val.orelse] if isinstance(val, ast.IfExp) else [val]
                        for a in alts:
                            if expr_path(a) is None:
                                continue
                            ident = idn.of(a, mi, cfg, at, qual)
                            # a module merged around the live state of X holds X's Variables: for storage it is X
                            ident = _storage_ident(repo, idn, mi, cfg, qual, ident)
                            if ident[0] in ("global", "expr", "value", "call", "aug", "for", "unpack", "phi", "deep") or _mentions(ident, ("deep", "expr")):
                                continue  # counters, buffers built elsewhere, expressions the identity analysis does not read: not module identities
                            for leaf in idn.leaves(ident, mi, cfg, qual):
                                for other_leaf, other_fld in list(seen.items()):
                                    if other_fld != fld and (has_base(leaf, other_leaf) or has_base(other_leaf, leaf)):
                                        ck.ob("R5-distinct-components", qual, f"{min(fld, other_fld)}~{max(fld, other_fld)}", False, f"result fields `{fld}` and `{other_fld}`",
                                              f"both denote {show(leaf)}: the two components share storage, so updating one changes the other", loc(mi, n))
                                seen.setdefault(leaf, fld)
                    ck.ob("R5-distinct-components", qual, "result-tuple", True, f"{len(fields)} fields, {len(seen)} distinct module identities", "", loc(mi, n))
        ck.floor("result-tuples", n_res, 10)
    ck.guard(_section_5)

    def _section_6():
        # ---------------- R3 effect-free evaluation -------------------------------------------------------------------
        n_free = 0
        targets = list(EFFECT_FREE_FUNCS)
        for m in EFFECT_FREE_MODULES:
            for name_, node_, mi_ in repo.module_members(m):
                holder = ast.Module(body=[node_], type_ignores=[])
                for qual, fn, mi2 in repo._walk_funcs(mi_, holder, m):
                    if "<locals>" not in qual and not fn.name.startswith("__init__"):
                        targets.append(qual)
        for q in sorted(set(targets)):
            fn = repo.func(q)
            got = eff.summary(q)
            n_free += 1
            # a write is attributable when it goes to (a part of) a parameter of the function; a local object with an `update(a, b)` method
            # (a metrics / statistics record) is not known to be a module
            own = set(param_names(fn))
            attributable = {x for x in got if x[0] in own}
            if got and not attributable:
                ck.incomplete.append(f"{q}: `update` calls on {sorted(_p(x) for x in got)}, which are not parameters of the function: cannot decide whether a module is written (unrecognised form)")
            else:
                ck.ob("R3-effect-free", q, "no-module-write", not got, f"effect set {sorted(_p(x) for x in got)}", "" if not got else f"evaluating / acting writes {sorted(_p(x) for x in attributable)}", loc(fn._module, fn))
            # raw parameter stores `x.value = ...` / `x[...] = ...` on module attributes
            for n in ast.walk(fn):
                if isinstance(n, (ast.Assign, ast.AugAssign, ast.AnnAssign)):
                    for tg in (n.targets if isinstance(n, ast.Assign) else [n.target]):
                        while isinstance(tg, ast.Subscript):
                            tg = tg.value  # `x.value[...] = v`
                        if isinstance(tg, ast.Attribute) and tg.attr == "value":
                            tp = expr_path(tg)
                            scope = _enclosing_fn(n, fn)
                            if tp is not None and tp[0] in param_names(scope) and not any(isinstance(x, ast.Name) and x.id == tp[0] and isinstance(x.ctx, ast.Store) for x in ast.walk(scope)):
                                ck.ob("R3-effect-free", q, "raw-value-store", False, short(n, 60), "direct store into a parameter's .value", loc(fn._module, n))
                            else:
                                ck.incomplete.append(f"{q}: `{short(n, 60)}` stores into `.value` of an object that is not a parameter of the function: cannot decide whether a module is written (unrecognised form)")
        ck.floor("effect-free-functions", n_free, 40)
    ck.guard(_section_6)
    ck.guard(stateful_objects_in_lax_carry, ck, repo)
    ck.guard(shared_storage_installed, ck, repo, res, eff, idn)
    ck.guard(empty_batches, ck, repo, res, eff)


LAX_CARRY = {"jax.lax.fori_loop": (3, "init_val"), "jax.lax.while_loop": (2, "init_val"), "jax.lax.scan": (1, "init"), "jax.lax.cond": (3, None), "jax.lax.switch": (2, None)}
NNX_OBJECT_TYPES = ("flax.nnx.Module", "flax.nnx.Optimizer", "flax.nnx.ModelAndOptimizer", "flax.nnx.optimizer.Optimizer", "flax.nnx.module.Module")


def _is_nnx_annotation(repo, mi, ann) -> bool:
    if ann is None:
        return False
    for n in ast.walk(ann):
        if isinstance(n, (ast.Name, ast.Attribute)):
            try:
                r = repo.resolve_expr(mi, n)
            except Exception:
                r = None
            if r in NNX_OBJECT_TYPES:
                return True
            if r and r.startswith(repo.PKG + ".") and repo.has(r):
                try:
                    node = repo.lookup(r)[1]
                except Exception:
                    node = None
                if isinstance(node, ast.ClassDef):
                    for c in repo.mro(r):
                        try:
                            cn = repo.cls(c)
                        except Exception:
                            continue
                        if any(repo.resolve_expr(cn._module, b) in NNX_OBJECT_TYPES for b in cn.bases if isinstance(b, (ast.Name, ast.Attribute))):
                            return True
    return False


def _stateful_param(repo, q, fn, mi, name, depth=0):
    """Why the parameter ``name`` of ``fn`` holds an nnx Module / Optimizer (text), or None when there is no evidence."""
    for a in fn.args.posonlyargs + fn.args.args + fn.args.kwonlyargs:
        if a.arg == name and _is_nnx_annotation(repo, mi, a.annotation):
            return f"parameter `{name}: {ast.unparse(a.annotation)}`"
    pp = positional_params(fn)
    if q in TRAINEE_POS and name in pp and any(pp.index(name) == i for i, _a in TRAINEE_POS[q]):
        return f"`{name}` is the documented trainee of {q.rsplit('.', 1)[1]}"
    if depth < 2 and name in param_names(fn):
        # what do the callers inside the package pass?
        for q2, f2, mi2 in repo.all_functions():
            if "<locals>" in q2:
                continue
            for c in ast.walk(f2):
                if isinstance(c, ast.Call) and isinstance(c.func, (ast.Name, ast.Attribute)):
                    try:
                        r = repo.resolve_expr(mi2, c.func)
                    except Exception:
                        r = None
                    if r == q:
                        b = bind_call(fn, c)
                        v = b.get(name)
                        if isinstance(v, ast.Name) and v.id in param_names(f2):
                            w = _stateful_param(repo, q2, f2, mi2, v.id, depth + 1)
                            if w:
                                return f"{w}, passed as `{name}` by {q2.rsplit('.', 1)[1]}"
    return None


def stateful_objects_in_lax_carry(ck, repo):
    n_sites = 0
    for q, fn, mi in repo.all_functions():
        if "<locals>" in q:
            continue
        for c in ast.walk(fn):
            if not (isinstance(c, ast.Call) and isinstance(c.func, (ast.Name, ast.Attribute))):
                continue
            try:
                r = repo.resolve_expr(mi, c.func)
            except Exception:
                r = None
            if r not in LAX_CARRY:
                continue
            n_sites += 1
            idx, kw = LAX_CARRY[r]
            ops = list(c.args[idx:]) if r in ("jax.lax.cond", "jax.lax.switch") else ([c.args[idx]] if len(c.args) > idx else [k.value for k in c.keywords if k.arg == kw])
            names = []
            for o in ops:
                for x in ([o] if isinstance(o, ast.Name) else list(o.elts) if isinstance(o, (ast.Tuple, ast.List)) else [v_ for v_ in o.values] if isinstance(o, ast.Dict) else []):
                    if isinstance(x, ast.Name):
                        names.append(x)
            bad = []
            for x in names:
                # the innermost function that has the name as a parameter
                owner = x
                why = None
                while owner is not None:
                    owner = getattr(owner, "_parent", None)
                    if isinstance(owner, ast.FunctionDef) and x.id in param_names(owner):
                        oq = q if owner is fn else None
                        why = _stateful_param(repo, oq or q + ".<locals>." + owner.name, owner, mi, x.id) if oq else (
                            next((f"parameter `{x.id}: {ast.unparse(a.annotation)}`" for a in owner.args.args if a.arg == x.id and _is_nnx_annotation(repo, mi, a.annotation)), None))
                        break
                if why:
                    bad.append((x.id, why))
            if bad:
                # the final carry could be written back by hand: only a carry whose stateful positions are dropped is a definite loss
                par = getattr(c, "_parent", None)
                dropped = isinstance(par, ast.Expr)
                if isinstance(par, ast.Assign) and len(par.targets) == 1 and isinstance(par.targets[0], (ast.Tuple, ast.List)) and len(ops) == 1 and isinstance(ops[0], (ast.Tuple, ast.List)) \
                        and len(par.targets[0].elts) == len(ops[0].elts) and r != "jax.lax.scan":
                    scope_fn = c
                    while scope_fn is not None and not isinstance(scope_fn, ast.FunctionDef):
                        scope_fn = getattr(scope_fn, "_parent", None)
                    loads = {n_.id for n_ in ast.walk(scope_fn or fn) if isinstance(n_, ast.Name) and isinstance(n_.ctx, ast.Load)}
                    pos = [i for i, e_ in enumerate(ops[0].elts) if isinstance(e_, ast.Name) and e_.id in {b_[0] for b_ in bad}]
                    tg = par.targets[0].elts
                    dropped = all(isinstance(tg[i], ast.Name) and (tg[i].id == "_" or tg[i].id not in loads) for i in pos)
                if not dropped:
                    ck.incomplete.append(f"{q}: `{short(c, 60)}` carries {[b_[0] for b_ in bad]} through {r}; the final carry is kept, whether it is written back to the caller's objects is not decided")
                    continue
            ck.ob("R6-stateful-objects-in-lax-carry", q, f"carry:{r.rsplit('.', 1)[1]}:{getattr(c, 'lineno', 0) - getattr(fn, 'lineno', 0)}", not bad,
                  f"`{short(c, 70)}` carries {[x.id for x in names]}", "" if not bad else
                  f"{'; '.join(f'`{n_}` ({w_})' for n_, w_ in bad)} is handed to {r} as a loop operand: the primitive works on a pytree copy, so the updates made in the body never reach the caller's object - the component is not trained although the returned loss decreases", loc(mi, c))
    ck.floor("jax.lax-control-flow-sites", n_sites, 1)


def _in_nested(node, fn):
    p = getattr(node, "_parent", None)
    while p is not None and p is not fn:
        if isinstance(p, (ast.FunctionDef, ast.AsyncFunctionDef, ast.Lambda)):
            return True
        p = getattr(p, "_parent", None)
    return False


def _looks_optimizer(path, fn):
    root, attrs = path
    name = attrs[-1] if attrs else root
    return "optimizer" in name


def _p(path):
    root, attrs = path
    return ".".join((root,) + tuple(attrs))


def _result_fields(repo, fn, mi):
    """local variable -> field of the record a create_*_state function returns (`namedtuple(.., [fields])(a, b, ..)`, `Record(f=a, ..)`,
    `Record(a, b)` of a NamedTuple class of the package), plus {field: value expr}; None when the return value is not read."""
    rets = [n for n in ast.walk(fn) if isinstance(n, ast.Return) and n.value is not None and _enclosing_fn(n, fn) is fn]
    if len(rets) != 1 or not isinstance(rets[0].value, ast.Call):
        return None
    call = rets[0].value
    if any(isinstance(a, ast.Starred) for a in call.args) or any(k.arg is None for k in call.keywords):
        return None
    fields = None
    if isinstance(call.func, ast.Call) and isinstance(call.func.func, (ast.Name, ast.Attribute)) and repo.resolve_expr(mi, call.func.func) == "collections.namedtuple":
        b = {k.arg: k.value for k in call.func.keywords}
        names = call.func.args[1] if len(call.func.args) > 1 else b.get("field_names")
        if isinstance(names, (ast.List, ast.Tuple)) and all(isinstance(e, ast.Constant) and isinstance(e.value, str) for e in names.elts):
            fields = [e.value for e in names.elts]
    elif isinstance(call.func, (ast.Name, ast.Attribute)):
        r = repo.resolve_expr(mi, call.func)
        if r and r.startswith(repo.PKG + ".") and repo.has(r):
            node = repo.lookup(r)[1]
            if isinstance(node, ast.ClassDef):
                fields = [st.target.id for st in node.body if isinstance(st, ast.AnnAssign) and isinstance(st.target, ast.Name)]
    if fields is None or len(call.args) > len(fields):
        return None
    value = dict(zip(fields, call.args))
    for k in call.keywords:
        value[k.arg] = k.value
    return {v.id: f for f, v in value.items() if isinstance(v, ast.Name)}, value


def _created_pairs(repo, cq):
    """optimizer -> module path from `x_optimizer = nnx.Optimizer(<module expr>, ...)` in a create_*_state function.  The training routine
    receives the fields of the returned record as parameters of the same names, so optimizer and module are named by the *field* they are
    returned in (the local variable names of create_*_state do not matter); without a readable record the local names are used."""
    fn = repo.func(cq)
    mi = fn._module
    rf = _result_fields(repo, fn, mi)
    field_of = rf[0] if rf else {}

    def module_of(call):
        m = call.args[0] if call.args and not isinstance(call.args[0], ast.Starred) else next((k.value for k in call.keywords if k.arg == "model"), None)
        p = expr_path(m) if m is not None else None
        return (field_of.get(p[0], p[0]), p[1]) if p else None

    def is_opt(v):
        return isinstance(v, ast.Call) and isinstance(v.func, (ast.Name, ast.Attribute)) and repo.resolve_expr(mi, v.func) == "flax.nnx.Optimizer"

    out = {}
    for n in ast.walk(fn):
        if isinstance(n, ast.Assign) and is_opt(n.value) and len(n.targets) == 1 and isinstance(n.targets[0], ast.Name):
            p = module_of(n.value)
            if p and (not rf or n.targets[0].id in field_of):
                out[field_of.get(n.targets[0].id, n.targets[0].id)] = p
    # in the record itself: EnsembleTrainState(model=model, optimizer=nnx.Optimizer(model, ...))
    for f, v in (rf[1].items() if rf else []):
        if is_opt(v):
            p = module_of(v)
            if p:
                out[f] = p
    return out


def _path_expr(repo, path, tfn, cq):
    """The module path of create_*_state as an expression of the training routine."""
    root, attrs = path
    # PETS: the train state record holds both (`dynamics_model.model`, `dynamics_model.optimizer`): the path is relative to the parameter
    # of the training routine that is annotated with the record class create_*_state returns
    if root not in param_names(tfn) and cq:
        cfn = repo.func(cq)
        rets = [n for n in ast.walk(cfn) if isinstance(n, ast.Return) and isinstance(n.value, ast.Call) and isinstance(n.value.func, (ast.Name, ast.Attribute)) and _enclosing_fn(n, cfn) is cfn]
        rec = {repo.resolve_expr(cfn._module, n.value.func) for n in rets}
        a_ = tfn.args
        holders = [a.arg for a in a_.posonlyargs + a_.args + a_.kwonlyargs if a.annotation is not None and isinstance(a.annotation, (ast.Name, ast.Attribute))
                   and repo.resolve_expr(tfn._module, a.annotation) in rec and repo.resolve_expr(tfn._module, a.annotation) is not None]
        if len(rec) == 1 and len(holders) == 1:
            root, attrs = holders[0], (root,) + tuple(attrs)
    e = ast.Name(id=root, ctx=ast.Load())
    for a in attrs:
        e = ast.Attribute(value=e, attr=a, ctx=ast.Load())
    return e


def _opt_mod_at_call(repo, res, eff, tq, tfn, cfg, nid, call, depth=0):
    """(optimizer expr, module expr, context...) pairs that a call in a train function establishes, following callees."""
    out = []
    t = res.resolve(call.func, tfn._module, cfg, nid)
    callee = t.qual if t else None
    if callee is None and isinstance(call.func, ast.Attribute) and call.func.attr == "update" and isinstance(call.func.value, ast.Name) and call.func.value.id == "entropy_control":
        return out
    if callee is None or callee == tq:
        return out
    eff.summary(callee)
    try:
        cfn = repo.func(callee)
    except Exception:
        return out
    b = bind_call(cfn, call, list(t.prefix))
    for k, v in t.kwargs.items():
        b.setdefault(k, v)

    def subst(path):
        root, attrs = path
        a = b.get(root)
        if a is None or isinstance(a, list):
            return None
        e = a
        for x in attrs:
            e = ast.Attribute(value=e, attr=x, ctx=ast.Load())
        return e

    for kind, c2, p, op in eff.sites.get(callee, []):
        if kind == "optimizer.update" and op is not None:
            oe, me = subst(op), subst(p)
            if oe is not None and me is not None:
                out.append((oe, me, tq, tfn, cfg, nid, callee))
        elif kind.startswith("call ") and depth < 3:
            sub = kind.split(" ", 1)[1]
            # pairs established deeper: recurse in the callee's own context, then map its parameters back
            ccfg = res.cfg_of(cfn)
            try:
                n2 = ccfg.node_of(c2).id
            except KeyError:
                continue
            for (oe, me, q2, f2, cfg2, node2, cal2) in _opt_mod_at_call(repo, res, eff, callee, cfn, ccfg, n2, c2, depth + 1):
                po, pm = expr_path(oe), expr_path(me)
                if po is None or pm is None:
                    continue
                o2, m2 = subst(po), subst(pm)
                if o2 is not None and m2 is not None:
                    out.append((o2, m2, tq, tfn, cfg, nid, cal2))
    # de-duplicate
    seen, res_ = set(), []
    for x in out:
        k = (ast.unparse(x[0]), ast.unparse(x[1]), x[6])
        if k not in seen:
            seen.add(k)
            res_.append(x)
    return res_


# ---- self-validation variants -------------------------------------------------------------------------------
_A = "rl_blox/algorithm/"
MUTANTS = [
    # the same record, filled crosswise: the actor is updated with the critic's optimizer
    {"id": "c05-ddpg-record-carrier-crossed", "file": _A + "ddpg.py", "rule": "R2", "edits": [
        ("from .dqn import train_step_with_loss\n", "from .dqn import train_step_with_loss\nimport typing\n\n\nclass _Nets(typing.NamedTuple):\n    policy: nnx.Module\n    policy_optimizer: nnx.Optimizer\n    q: nnx.Module\n    q_optimizer: nnx.Optimizer\n"),
        ("                actor_loss_value = ddpg_update_actor(\n                    policy, policy_optimizer, q, batch.observation\n                )", "                nets = _Nets(policy=policy, policy_optimizer=q_optimizer, q=q, q_optimizer=policy_optimizer)\n                actor_loss_value = ddpg_update_actor(\n                    nets.policy, nets.policy_optimizer, nets.q, batch.observation\n                )")]},
    {"id": "c05-lax-loop-copies-module", "file": "rl_blox/algorithm/reinforce.py", "rule": "R6", "find": "    v_loss = 0.0\n    for _ in range(value_gradient_steps):\n        v_loss, v_grad = nnx.value_and_grad(mse_value_loss, argnums=2)(\n            observations, returns, value_function\n        )\n        value_function_optimizer.update(value_function, v_grad)\n    return v_loss",
     "replace": "    def body(_, carry):\n        vf, opt, _ = carry\n        v_loss, v_grad = nnx.value_and_grad(mse_value_loss, argnums=2)(\n            observations, returns, vf\n        )\n        opt.update(vf, v_grad)\n        return vf, opt, v_loss\n\n    _, _, v_loss = jax.lax.fori_loop(\n        0, value_gradient_steps, body, (value_function, value_function_optimizer, 0.0)\n    )\n    return v_loss"},
    {"id": "c05-dqn-argnums", "file": _A + "dqn.py", "rule": "R", "find": "    grad_fn = nnx.value_and_grad(loss, argnums=0, has_aux=True)\n    value, grad = grad_fn(q, *args, **kwargs)", "replace": "    grad_fn = nnx.value_and_grad(loss, argnums=0, has_aux=True)\n    value, grad = grad_fn(q, *args, **kwargs)\n    q = args[0]"},
    {"id": "c05-ddpg-actor-updates-q", "file": _A + "ddpg.py", "rule": "R1", "find": "    policy_optimizer.update(policy, grads)\n    return actor_loss_value", "replace": "    policy_optimizer.update(q, grads)\n    return actor_loss_value"},
    {"id": "c05-ddpg-argnums-shift", "file": _A + "ddpg.py", "rule": "R1", "find": "deterministic_policy_gradient_loss, argnums=2\n    )(q, observation, policy)", "replace": "deterministic_policy_gradient_loss, argnums=0\n    )(q, observation, policy)"},
    {"id": "c05-sac-alpha-updates-policy", "file": _A + "sac.py", "rule": "R1", "find": "        sac_exploration_loss, argnums=4\n", "replace": "        sac_exploration_loss, argnums=0\n"},
    {"id": "c05-td7-actor-whole-policy", "file": _A + "td7.py", "rule": "R", "find": "    actor_optimizer.update(policy.actor, grads)", "replace": "    actor_optimizer.update(policy.embedding, grads)"},
    {"id": "c05-td7-critic-target-updated", "file": _A + "td7.py", "rule": "R", "find": "    critic_optimizer.update(critic, grads)", "replace": "    critic_optimizer.update(critic_target, grads)"},
    {"id": "c05-mrq-policy-grad-to-q", "file": _A + "mrq.py", "rule": "R1", "find": "    policy_optimizer.update(policy, grads)", "replace": "    policy_optimizer.update(q, grads)"},
    {"id": "c05-mrq-swapped-optimizers", "file": _A + "mrq.py", "rule": "R2", "find": "        update_critic_and_policy,\n        q,\n        q_target,\n        q_optimizer,\n        policy_with_encoder.policy,\n        policy_optimizer,", "replace": "        update_critic_and_policy,\n        q,\n        q_target,\n        policy_optimizer,\n        policy_with_encoder.policy,\n        q_optimizer,"},
    {"id": "c05-mrq-encoder-also-updates-policy", "file": "rl_blox/blox/embedding/model_based_encoder.py", "rule": "R2", "find": "        encoder_optimizer.update(encoder, grads)\n", "replace": "        encoder_optimizer.update(encoder, grads)\n        nnx.update(encoder_target, nnx.state(encoder))\n"},
    {"id": "c05-td3-wrong-optimizer", "file": _A + "td3.py", "rule": "R2", "find": "                    policy_loss_value = ddpg_update_actor(\n                        policy, policy_optimizer, q, batch.observation", "replace": "                    policy_loss_value = ddpg_update_actor(\n                        policy, q_optimizer, q, batch.observation"},
    {"id": "c05-td3-trains-target", "file": _A + "td3.py", "rule": "R2", "find": "                    q_optimizer,\n                    q,\n                    q_target,\n                    next_actions,", "replace": "                    q_optimizer,\n                    q_target,\n                    q,\n                    next_actions,"},
    {"id": "c05-ppo-grads-swapped", "file": _A + "ppo.py", "rule": "R1", "find": "        (loss_val), (grad_actor, grad_critic) = loss_grad_fn(", "replace": "        (loss_val), (grad_critic, grad_actor) = loss_grad_fn("},
    {"id": "c05-ppo-critic-not-updated", "file": _A + "ppo.py", "rule": "R", "find": "        optimizer_critic.update(critic, grad_critic)\n", "replace": ""},
    {"id": "c05-reinforce-updates-value-fn", "file": _A + "reinforce.py", "rule": "R1", "find": "        policy_optimizer.update(policy, p_grad)", "replace": "        policy_optimizer.update(value_function, p_grad)"},
    {"id": "c05-reinforce-grad-wrt-wrong-arg", "file": _A + "reinforce.py", "rule": "R", "find": "        stochastic_policy_gradient_pseudo_loss, argnums=3\n    )(observations, actions, weights, policy)", "replace": "        stochastic_policy_gradient_pseudo_loss, argnums=2\n    )(observations, actions, weights, policy)", "accept_error": True},
    {"id": "c05-loss-with-side-effect", "file": "rl_blox/blox/losses.py", "rule": "R3", "find": "    q_next = jax.lax.stop_gradient(q_target(next_obs_act).squeeze())\n    q_target_value = reward + (1 - terminated) * gamma * q_next\n    return _mse_clipped_double_q_loss(q_target_value, q, action, observation)\n\n\ndef _mse",
     "replace": "    q_next = jax.lax.stop_gradient(q_target(next_obs_act).squeeze())\n    nnx.update(q_target, nnx.state(q))\n    q_target_value = reward + (1 - terminated) * gamma * q_next\n    return _mse_clipped_double_q_loss(q_target_value, q, action, observation)\n\n\ndef _mse"},
    {"id": "c05-sale-conditional-update", "file": "rl_blox/blox/embedding/sale.py", "rule": "R4", "find": "    embedding_optimizer.update(embedding, grads)", "replace": "    if actions.shape[0] > 1:\n        embedding_optimizer.update(embedding, grads)"},
    {"id": "c05-ensemble-updates-other", "file": "rl_blox/blox/probabilistic_ensemble.py", "rule": "R4", "find": "        optimizer.update(model, grads)\n        return (model, optimizer), loss", "replace": "        return (model, optimizer), loss"},
    # the update is skipped by an early return (path witness; the update statement itself is under no condition)
    {"id": "c05-sale-early-return", "file": "rl_blox/blox/embedding/sale.py", "rule": "R4", "find": "    embedding_optimizer.update(embedding, grads)", "replace": "    if actions.shape[0] <= 1:\n        return embedding_loss_value\n    embedding_optimizer.update(embedding, grads)"},
    # the updated object is named through a local alias that denotes another part of the policy
    {"id": "c05-td7-alias-of-other-part", "file": _A + "td7.py", "rule": "R1", "find": "    actor_optimizer.update(policy.actor, grads)", "replace": "    actor = policy.embedding\n    actor_optimizer.update(actor, grads)"},
    # update routine inlined into the training loop, with the optimizer of the critic
    {"id": "c05-ddpg-inlined-update-wrong-optimizer", "file": _A + "ddpg.py", "rule": "R2", "find": "                actor_loss_value = ddpg_update_actor(\n                    policy, policy_optimizer, q, batch.observation\n                )\n",
     "replace": "                actor_loss_value, actor_grads = nnx.value_and_grad(\n                    deterministic_policy_gradient_loss, argnums=2\n                )(q, batch.observation, policy)\n                q_optimizer.update(policy, actor_grads)\n"},
    {"id": "c05-loss-raw-value-store", "file": "rl_blox/blox/losses.py", "rule": "R3", "find": "    q_next = jax.lax.stop_gradient(q_target(next_obs_act).squeeze())\n    q_target_value = reward + (1 - terminated) * gamma * q_next\n    return _mse_clipped_double_q_loss(q_target_value, q, action, observation)\n\n\ndef _mse",
     "replace": "    q_next = jax.lax.stop_gradient(q_target(next_obs_act).squeeze())\n    q_target.q1.scale.value = jnp.ones(())\n    q_target_value = reward + (1 - terminated) * gamma * q_next\n    return _mse_clipped_double_q_loss(q_target_value, q, action, observation)\n\n\ndef _mse"},
    # ---- R7: the gradient is switched to zeros on its way to the update (a skip written as data)
    {"id": "c05-sale-gradient-gated-by-loss-check", "file": "rl_blox/blox/embedding/sale.py", "rule": "R7", "find": "    embedding_optimizer.update(embedding, grads)",
     "replace": "    usable = jnp.isfinite(embedding_loss_value)\n    grads = jax.tree_util.tree_map(\n        lambda x: jax.lax.select(usable, x, jnp.zeros_like(x)), grads\n    )\n    embedding_optimizer.update(embedding, grads)"},
    {"id": "c05-sac-gradient-zeroed-when-flag", "file": _A + "sac.py", "rule": "R7", "find": "    policy_optimizer.update(policy, grads)\n    return loss",
     "replace": "    skip = jnp.isnan(loss)\n    applied = jax.tree.map(lambda z: jnp.where(skip, 0.0, z), grads)\n    policy_optimizer.update(policy, applied)\n    return loss"},
    {"id": "c05-ddpg-gradient-times-zero", "file": _A + "ddpg.py", "rule": "R7", "find": "    policy_optimizer.update(policy, grads)\n    return actor_loss_value",
     "replace": "    grads = jax.tree.map(lambda g: g * 0.0, grads)\n    policy_optimizer.update(policy, grads)\n    return actor_loss_value"},
    # ---- R8 / R5: a component built around (or being) another component's parameters
    {"id": "c05-td7-fixed-encoder-is-the-trained-one", "file": _A + "td7.py", "rule": "R8", "find": "        hard_target_net_update(embedding, policy.embedding)\n", "replace": "        policy.embedding = embedding\n"},
    {"id": "c05-td7-fixed-encoder-merged-from-split", "file": _A + "td7.py", "rule": "R8", "find": "        hard_target_net_update(embedding, policy.embedding)\n",
     "replace": "        encoder_def, encoder_vars = nnx.split(embedding)\n        policy.embedding = nnx.merge(encoder_def, encoder_vars)\n"},
    {"id": "c05-td7-initial-fixed-encoder-merged-not-cloned", "file": _A + "td7.py", "rule": "R5", "find": "    fixed_embedding = nnx.clone(embedding)\n",
     "replace": "    fixed_embedding = nnx.merge(nnx.graphdef(embedding), nnx.state(embedding))\n"},
    # ---- gradient transform bound at module level, with the wrong position
    {"id": "c05-ddpg-module-level-transform-wrong-argnum", "file": _A + "ddpg.py", "rule": "R1", "edits": [
        ("from .dqn import train_step_with_loss\n", "from .dqn import train_step_with_loss\n\n_actor_loss_and_grad = nnx.value_and_grad(\n    deterministic_policy_gradient_loss, argnums=0\n)\n"),
        ("    actor_loss_value, grads = nnx.value_and_grad(\n        deterministic_policy_gradient_loss, argnums=2\n    )(q, observation, policy)\n    policy_optimizer.update(policy, grads)", "    actor_loss_value, grads = _actor_loss_and_grad(q, observation, policy)\n    policy_optimizer.update(policy, grads)")]},
    # ---- R9: the epoch's index array is emptied when the bootstrap size is an exact multiple of the batch size
    {"id": "c05-ensemble-unguarded-negative-remainder", "file": "rl_blox/blox/probabilistic_ensemble.py", "rule": "R9", "find": "        remaining = -(bootstrap_indices.shape[1] % batch_size)\n        if remaining:\n            shuffled_indices = shuffled_indices[:, :remaining]\n",
     "replace": "        n_incomplete = bootstrap_indices.shape[1] % batch_size\n        cut = -n_incomplete\n        shuffled_indices = shuffled_indices[:, :cut]\n"},
    {"id": "c05-ensemble-unguarded-cut-in-helper", "file": "rl_blox/blox/probabilistic_ensemble.py", "rule": "R9", "edits": [
        ("def train_ensemble(", "def _whole_batches_only(idx, size):\n    return idx[:, : -(idx.shape[1] % size)]\n\n\ndef train_ensemble("),
        ("        remaining = -(bootstrap_indices.shape[1] % batch_size)\n        if remaining:\n            shuffled_indices = shuffled_indices[:, :remaining]\n", "        shuffled_indices = _whole_batches_only(shuffled_indices, batch_size)\n")]},
    {"id": "c05-td7-fixed-encoder-merged-through-locals", "file": _A + "td7.py", "rule": "R8", "find": "        hard_target_net_update(embedding, policy.embedding)\n",
     "replace": "        current = nnx.state(embedding)\n        snapshot = nnx.merge(nnx.graphdef(embedding), current)\n        policy.embedding = snapshot\n"},
]
BENIGN = [
    # networks and optimizers carried in a class-based NamedTuple: a field of the record is the object passed for it
    {"id": "c05-b-ddpg-record-carrier", "file": _A + "ddpg.py", "edits": [
        ("from .dqn import train_step_with_loss\n", "from .dqn import train_step_with_loss\nimport typing\n\n\nclass _Nets(typing.NamedTuple):\n    policy: nnx.Module\n    policy_optimizer: nnx.Optimizer\n    q: nnx.Module\n    q_optimizer: nnx.Optimizer\n"),
        ("                actor_loss_value = ddpg_update_actor(\n                    policy, policy_optimizer, q, batch.observation\n                )", "                nets = _Nets(policy=policy, policy_optimizer=policy_optimizer, q=q, q_optimizer=q_optimizer)\n                actor_loss_value = ddpg_update_actor(\n                    nets.policy, nets.policy_optimizer, nets.q, batch.observation\n                )")]},
    {"id": "c05-b-dqn-inline-gradfn", "file": _A + "dqn.py", "find": "    grad_fn = nnx.value_and_grad(loss, argnums=0, has_aux=True)\n    value, grad = grad_fn(q, *args, **kwargs)", "replace": "    value, grad = nnx.value_and_grad(loss, argnums=0, has_aux=True)(\n        q, *args, **kwargs\n    )"},
    {"id": "c05-b-ddpg-rename-grads", "file": _A + "ddpg.py", "find": "    actor_loss_value, grads = nnx.value_and_grad(\n        deterministic_policy_gradient_loss, argnums=2\n    )(q, observation, policy)\n    policy_optimizer.update(policy, grads)", "replace": "    actor_loss_value, g_policy = nnx.value_and_grad(\n        deterministic_policy_gradient_loss, argnums=2\n    )(q, observation, policy)\n    policy_optimizer.update(policy, g_policy)"},
    {"id": "c05-b-sac-local-fn", "file": _A + "sac.py", "find": "    loss, grads = nnx.value_and_grad(sac_actor_loss, argnums=0)(\n        policy, q, alpha, action_key, observation\n    )", "replace": "    loss_and_grad = nnx.value_and_grad(sac_actor_loss, argnums=0)\n    loss, grads = loss_and_grad(policy, q, alpha, action_key, observation)"},
    {"id": "c05-b-td3-kwargs", "file": _A + "td3.py", "find": "                    policy_loss_value = ddpg_update_actor(\n                        policy, policy_optimizer, q, batch.observation\n                    )", "replace": "                    policy_loss_value = ddpg_update_actor(\n                        policy=policy,\n                        policy_optimizer=policy_optimizer,\n                        q=q,\n                        observation=batch.observation,\n                    )"},
    {"id": "c05-b-losses-logging-dict", "file": "rl_blox/blox/losses.py", "find": "    observation, action, reward, next_observation, terminated = batch\n    next_obs_act = jnp.concatenate((next_observation, next_action), axis=-1)\n    q_next = jax.lax.stop_gradient(q_target(next_obs_act).squeeze())\n    q_target_value = reward + (1 - terminated) * gamma * q_next\n    return _mse",
     "replace": "    observation, action, reward, next_observation, terminated = batch\n    info = {}\n    info.update({\"n\": len(reward)})\n    next_obs_act = jnp.concatenate((next_observation, next_action), axis=-1)\n    q_next = jax.lax.stop_gradient(q_target(next_obs_act).squeeze())\n    q_target_value = reward + (1 - terminated) * gamma * q_next\n    return _mse"},
    # the updated module / the gradient named through a local alias; an added check between gradient and update
    {"id": "c05-b-td7-actor-alias", "file": _A + "td7.py", "find": "    actor_optimizer.update(policy.actor, grads)", "replace": "    actor = policy.actor\n    actor_optimizer.update(actor, grads)"},
    {"id": "c05-b-sac-grad-alias-and-check", "file": _A + "sac.py", "find": "    policy_optimizer.update(policy, grads)\n    return loss", "replace": "    policy_grads = grads\n    if policy_grads is None:\n        raise ValueError(\"no gradient\")\n    policy_optimizer.update(policy, policy_grads)\n    return loss"},
    # the gradient is computed in both arms of a branch, the update follows the branch
    {"id": "c05-b-dqn-grad-in-both-arms", "file": _A + "dqn.py", "find": "    value, grad = grad_fn(q, *args, **kwargs)", "replace": "    if kwargs:\n        value, grad = grad_fn(q, *args, **kwargs)\n    else:\n        value, grad = grad_fn(q, *args)"},
    # local variables of create_*_state renamed (the record fields, i.e. the parameters of the training routine, keep their names)
    {"id": "c05-b-ddpg-create-state-renamed-locals", "file": _A + "ddpg.py", "edits": [
        ("    policy = DeterministicTanhPolicy(policy_net, env.action_space)\n    policy_optimizer = nnx.Optimizer(\n        policy, optax.adam(learning_rate=policy_learning_rate), wrt=nnx.Param\n    )",
         "    pi = DeterministicTanhPolicy(policy_net, env.action_space)\n    pi_opt = nnx.Optimizer(\n        pi, optax.adam(learning_rate=policy_learning_rate), wrt=nnx.Param\n    )"),
        ("    )(policy, policy_optimizer, q, q_optimizer)", "    )(pi, pi_opt, q, q_optimizer)")]},
    # argnums as a module-level constant
    {"id": "c05-b-ddpg-argnums-constant", "file": _A + "ddpg.py", "edits": [
        ("from .dqn import train_step_with_loss\n", "from .dqn import train_step_with_loss\n\n_POLICY_ARGNUM = 2\n"),
        ("deterministic_policy_gradient_loss, argnums=2\n", "deterministic_policy_gradient_loss, argnums=_POLICY_ARGNUM\n")]},
    # update routine inlined into the training loop: judged as an optimizer / module pair of the loop
    {"id": "c05-b-ddpg-actor-update-inlined", "file": _A + "ddpg.py", "find": "                actor_loss_value = ddpg_update_actor(\n                    policy, policy_optimizer, q, batch.observation\n                )\n",
     "replace": "                actor_loss_value, actor_grads = nnx.value_and_grad(\n                    deterministic_policy_gradient_loss, argnums=2\n                )(q, batch.observation, policy)\n                policy_optimizer.update(policy, actor_grads)\n"},
    # loss closed over its other arguments (site read through the wrapper)
    {"id": "c05-b-sac-lambda-loss", "file": _A + "sac.py", "find": "    loss, grads = nnx.value_and_grad(sac_actor_loss, argnums=0)(\n        policy, q, alpha, action_key, observation\n    )",
     "replace": "    loss, grads = nnx.value_and_grad(\n        lambda p: sac_actor_loss(p, q, alpha, action_key, observation)\n    )(policy)"},
    # ---- near R7: the gradient passes a leaf-wise identity / is read for a statistic before it is applied
    {"id": "c05-b-sale-gradient-leafwise-identity", "file": "rl_blox/blox/embedding/sale.py", "find": "    embedding_optimizer.update(embedding, grads)",
     "replace": "    grads = jax.tree_util.tree_map(lambda x: x, grads)\n    embedding_optimizer.update(embedding, grads)"},
    {"id": "c05-b-sac-gradient-norm-read", "file": _A + "sac.py", "find": "    policy_optimizer.update(policy, grads)\n    return loss",
     "replace": "    grad_norm = optax.global_norm(grads)\n    del grad_norm\n    policy_optimizer.update(policy, grads)\n    return loss"},
    {"id": "c05-b-ddpg-where-with-equal-arms", "file": _A + "ddpg.py", "find": "    policy_optimizer.update(policy, grads)\n    return actor_loss_value",
     "replace": "    g_applied = jax.tree.map(lambda g: g if True else jnp.zeros_like(g), grads)\n    policy_optimizer.update(policy, g_applied)\n    return actor_loss_value"},
    # ---- near R8: copies (copy=True, mapped state, clone after handing the old object on) install nothing shared
    {"id": "c05-b-td7-fixed-encoder-merged-with-copy", "file": _A + "td7.py", "find": "        hard_target_net_update(embedding, policy.embedding)\n",
     "replace": "        policy.embedding = nnx.merge(\n            nnx.graphdef(embedding), nnx.state(embedding), copy=True\n        )\n"},
    {"id": "c05-b-td7-fixed-encoder-merged-from-copied-state", "file": _A + "td7.py", "find": "        hard_target_net_update(embedding, policy.embedding)\n",
     "replace": "        policy.embedding = nnx.merge(\n            nnx.graphdef(embedding), jax.tree.map(jnp.copy, nnx.state(embedding))\n        )\n"},
    {"id": "c05-b-td7-rotate-then-clone", "file": _A + "td7.py", "find": "        hard_target_net_update(policy.embedding, policy_target.embedding)\n        hard_target_net_update(embedding, policy.embedding)\n",
     "replace": "        policy_target.embedding = policy.embedding\n        policy.embedding = nnx.clone(embedding)\n"},
    # ---- gradient transform bound once at module level
    {"id": "c05-b-ddpg-module-level-transform", "file": _A + "ddpg.py", "edits": [
        ("from .dqn import train_step_with_loss\n", "from .dqn import train_step_with_loss\n\n_actor_loss_and_grad = nnx.value_and_grad(\n    deterministic_policy_gradient_loss, argnums=2\n)\n"),
        ("    actor_loss_value, grads = nnx.value_and_grad(\n        deterministic_policy_gradient_loss, argnums=2\n    )(q, observation, policy)\n    policy_optimizer.update(policy, grads)", "    actor_loss_value, grads = _actor_loss_and_grad(q, observation, policy)\n    policy_optimizer.update(policy, grads)")]},
    # ---- near R9: the same cut under a test of the remainder / spelled with the length that is kept / with the `or None` idiom
    {"id": "c05-b-ensemble-positive-remainder-guarded", "file": "rl_blox/blox/probabilistic_ensemble.py", "find": "        remaining = -(bootstrap_indices.shape[1] % batch_size)\n        if remaining:\n            shuffled_indices = shuffled_indices[:, :remaining]\n",
     "replace": "        n_incomplete = bootstrap_indices.shape[1] % batch_size\n        if n_incomplete != 0:\n            shuffled_indices = shuffled_indices[:, :-n_incomplete]\n"},
    {"id": "c05-b-ensemble-kept-length", "file": "rl_blox/blox/probabilistic_ensemble.py", "find": "        remaining = -(bootstrap_indices.shape[1] % batch_size)\n        if remaining:\n            shuffled_indices = shuffled_indices[:, :remaining]\n",
     "replace": "        n_kept = bootstrap_indices.shape[1] - bootstrap_indices.shape[1] % batch_size\n        shuffled_indices = shuffled_indices[:, :n_kept]\n"},
    {"id": "c05-b-ensemble-or-none-idiom", "file": "rl_blox/blox/probabilistic_ensemble.py", "find": "        remaining = -(bootstrap_indices.shape[1] % batch_size)\n        if remaining:\n            shuffled_indices = shuffled_indices[:, :remaining]\n",
     "replace": "        n_incomplete = bootstrap_indices.shape[1] % batch_size\n        shuffled_indices = shuffled_indices[:, : -n_incomplete or None]\n"},
    # the test of the remainder is a flag computed before the loop / a conditional expression
    {"id": "c05-b-ensemble-guard-is-a-flag", "file": "rl_blox/blox/probabilistic_ensemble.py", "edits": [
        ("    loss = jnp.inf\n    for t in range(1, n_epochs + 1):", "    n_left_over = bootstrap_indices.shape[1] % batch_size\n    has_left_over = n_left_over > 0\n    loss = jnp.inf\n    for t in range(1, n_epochs + 1):"),
        ("        remaining = -(bootstrap_indices.shape[1] % batch_size)\n        if remaining:\n            shuffled_indices = shuffled_indices[:, :remaining]\n", "        if has_left_over:\n            shuffled_indices = shuffled_indices[:, :-n_left_over]\n")]},
    {"id": "c05-b-ensemble-guard-is-a-conditional-expression", "file": "rl_blox/blox/probabilistic_ensemble.py", "find": "        remaining = -(bootstrap_indices.shape[1] % batch_size)\n        if remaining:\n            shuffled_indices = shuffled_indices[:, :remaining]\n",
     "replace": "        n_left_over = bootstrap_indices.shape[1] % batch_size\n        shuffled_indices = (\n            shuffled_indices[:, :-n_left_over] if n_left_over else shuffled_indices\n        )\n"},
    # a reference to a trained module kept in a record that is no component of anything trained
    {"id": "c05-b-td7-critic-reference-in-statistics-record", "file": _A + "td7.py", "find": "        replay_buffer.reset_max_priority()\n", "replace": "        replay_buffer.reset_max_priority()\n        value_clipping_state.last_synchronised = critic\n"},
    # (value, gradient) kept in one name and unpacked by the next statement
    {"id": "c05-b-ddpg-result-unpacked-later", "file": _A + "ddpg.py", "find": "    actor_loss_value, grads = nnx.value_and_grad(\n        deterministic_policy_gradient_loss, argnums=2\n    )(q, observation, policy)\n",
     "replace": "    value_and_gradient = nnx.value_and_grad(\n        deterministic_policy_gradient_loss, argnums=2\n    )(q, observation, policy)\n    actor_loss_value, grads = value_and_gradient\n"},
]
