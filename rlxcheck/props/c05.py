"""C05 - each update routine changes only the component it trains (effect / ownership analysis)."""
from __future__ import annotations

import ast

from ..cfg import CFG
from ..effects import Effects, expr_path
from ..identity import Ident, has_base, show
from ..loops import dotted
from ..repo import Repo, loc, short, AnalysisError, bind_call, positional_params, param_names
from ..resolve import Resolver

EXPLANATION = (
    "Write-effect summaries are computed bottom-up over the resolved call graph: a module-valued parameter is written only by "
    "<optimizer>.update(m, g), nnx.update(m, s) or by being passed at a written position of a callee (aliases through partial / "
    "jit / cached_partial / nnx.scan bodies are folded). R1 pairs every value_and_grad site with the optimizer update that "
    "consumes its gradient: the argument at `argnums` and the first argument of update() are the same object, also when the "
    "gradient is returned to a caller. R2 compares each routine's effect set with its documented trainee set and checks at every "
    "call site in a training loop that optimizer and module belong together (pairs created in create_*_state). R3 requires loss "
    "functions, policy-head methods and action samplers to have an empty effect set. R4 requires the update to be reached on "
    "every normal path (given its loop executes)."
)
TRUSTED = [
    "flax nnx: value_and_grad(f, argnums=k) differentiates w.r.t. the k-th positional argument; Optimizer.update(model, grads) changes exactly "
    "model and the optimizer state; nnx.update(m, s) changes exactly m; a module is changed in no other way (no raw .value stores - checked by a scan)",
    "distinct parameters denote distinct objects",
]
RULES = {
    "R1-grad-update-pairing": "at every value_and_grad/grad site the differentiated argument is the object passed as first argument to the update that consumes the gradient",
    "R2-effects": "write-effect set of every update routine == its documented trainee set (+ its optimizer); optimizer/module pairs at call sites agree with create_*_state",
    "R3-effect-free": "losses, policy-head methods, action samplers and greedy policies write no module",
    "R4-does-update": "the gradient of every site is consumed by an update on every normal path through the loop body",
    "R6-stateful-objects-in-lax-carry": "no nnx Module / Optimizer is placed in the carry of jax.lax.fori_loop / while_loop / scan / cond: these primitives treat the operand as a pytree, "
                                        "so the body trains a functional copy and the caller's object is never updated (nnx.fori_loop / nnx.scan propagate the state)",
    "R5-distinct-components": "the components a training routine returns (networks, targets, fixed copies, optimizers) are pairwise distinct objects, component-wise: "
                              "if two of them shared a sub-module, updating one would change the other",
}

# routine -> documented trainee paths (module, attr path); optimizers are paired automatically.  Confirmed from the docstrings.
TRAINEES = {
    "rl_blox.algorithm.dqn.train_step_with_loss": {("q", ())},
    "rl_blox.algorithm.ddpg.ddpg_update_actor": {("policy", ())},
    "rl_blox.algorithm.sac.sac_update_actor": {("policy", ())},
    "rl_blox.algorithm.sac._update_entropy_coefficient": {("log_alpha", ())},
    "rl_blox.algorithm.td7.td7_update_critic": {("critic", ())},
    "rl_blox.algorithm.td7.td7_update_actor": {("policy", ("actor",))},
    "rl_blox.algorithm.mrq.update_critic_and_policy": {("q", ()), ("policy", ())},
    "rl_blox.blox.embedding.sale.update_sale": {("embedding", ())},
    "rl_blox.blox.embedding.model_based_encoder.update_model_based_encoder": {("encoder", ())},
    "rl_blox.algorithm.ppo.update_ppo": {("actor", ()), ("critic", ())},
    "rl_blox.algorithm.reinforce.train_value_function": {("value_function", ())},
    "rl_blox.algorithm.reinforce.train_policy_reinforce": {("policy", ())},
    "rl_blox.algorithm.actor_critic.train_policy_actor_critic": {("policy", ())},
    "rl_blox.algorithm.a2c.train_policy_a2c": {("policy", ())},
    "rl_blox.blox.probabilistic_ensemble.train_epoch": {("model", ())},
}
# positions of the trainee parameters in the signatures the table above was confirmed against
# positional signatures of the update routines when the trainee table was recorded (a changed signature makes extra writes unjudgeable)
SIGNATURES = {
    'rl_blox.algorithm.a2c.train_policy_a2c': ('policy', 'policy_optimizer', 'policy_gradient_steps', 'observations', 'actions', 'advantages'),
    'rl_blox.algorithm.actor_critic.train_policy_actor_critic': ('policy', 'policy_optimizer', 'policy_gradient_steps', 'value_function', 'observations', 'actions', 'next_observations', 'rewards', 'gamma_discount', 'gamma'),
    'rl_blox.algorithm.ddpg.ddpg_update_actor': ('policy', 'policy_optimizer', 'q', 'observation'),
    'rl_blox.algorithm.dqn.train_step_with_loss': ('loss', 'optimizer', 'q'),
    'rl_blox.algorithm.mrq.update_critic_and_policy': ('q', 'q_target', 'q_optimizer', 'policy', 'policy_optimizer', 'encoder', 'encoder_target', 'gamma', 'activation_weight', 'next_action', 'batch', 'reward_scale', 'target_reward_scale'),
    'rl_blox.algorithm.ppo.update_ppo': ('actor', 'critic', 'optimizer_actor', 'optimizer_critic', 'observation', 'action', 'reward', 'terminated', 'next_value', 'epochs'),
    'rl_blox.algorithm.reinforce.train_policy_reinforce': ('policy', 'policy_optimizer', 'policy_gradient_steps', 'value_function', 'observations', 'actions', 'returns', 'gamma_discount'),
    'rl_blox.algorithm.reinforce.train_value_function': ('value_function', 'value_function_optimizer', 'value_gradient_steps', 'observations', 'returns'),
    'rl_blox.algorithm.sac._update_entropy_coefficient': ('optimizer', 'policy', 'target_entropy', 'action_key', 'observations', 'log_alpha'),
    'rl_blox.algorithm.sac.sac_update_actor': ('policy', 'policy_optimizer', 'q', 'action_key', 'observation', 'alpha'),
    'rl_blox.algorithm.td7.td7_update_actor': ('policy', 'actor_optimizer', 'critic', 'observation'),
    'rl_blox.algorithm.td7.td7_update_critic': ('fixed_embedding', 'fixed_embedding_target', 'critic', 'critic_target', 'critic_optimizer', 'gamma', 'observation', 'action', 'next_observation', 'next_action', 'reward', 'terminated', 'min_priority', 'q_min', 'q_max'),
    'rl_blox.blox.embedding.model_based_encoder.update_model_based_encoder': ('encoder', 'encoder_target', 'encoder_optimizer', 'the_bins', 'encoder_horizon', 'dynamics_weight', 'reward_weight', 'done_weight', 'target_delay', 'batch_size', 'normalize_targets', 'batches', 'environment_terminates'),
    'rl_blox.blox.embedding.sale.update_sale': ('embedding', 'embedding_optimizer', 'observations', 'actions', 'next_observations'),
    'rl_blox.blox.probabilistic_ensemble.train_epoch': ('model', 'optimizer', 'X', 'Y', 'indices'),
}

TRAINEE_POS = {
    "rl_blox.algorithm.a2c.train_policy_a2c": {(0, ())},
    "rl_blox.algorithm.actor_critic.train_policy_actor_critic": {(0, ())},
    "rl_blox.algorithm.ddpg.ddpg_update_actor": {(0, ())},
    "rl_blox.algorithm.dqn.train_step_with_loss": {(2, ())},
    "rl_blox.algorithm.mrq.update_critic_and_policy": {(3, ()), (0, ())},
    "rl_blox.algorithm.ppo.update_ppo": {(0, ()), (1, ())},
    "rl_blox.algorithm.reinforce.train_policy_reinforce": {(0, ())},
    "rl_blox.algorithm.reinforce.train_value_function": {(0, ())},
    "rl_blox.algorithm.sac._update_entropy_coefficient": {(5, ())},
    "rl_blox.algorithm.sac.sac_update_actor": {(0, ())},
    "rl_blox.algorithm.td7.td7_update_actor": {(0, ("actor",))},
    "rl_blox.algorithm.td7.td7_update_critic": {(2, ())},
    "rl_blox.blox.embedding.model_based_encoder.update_model_based_encoder": {(0, ())},
    "rl_blox.blox.embedding.sale.update_sale": {(0, ())},
    "rl_blox.blox.probabilistic_ensemble.train_epoch": {(0, ())},
}
GRAD_FUNCS = ("flax.nnx.value_and_grad", "flax.nnx.grad", "jax.grad", "jax.value_and_grad")
# (train function, create-state function whose optimizer/module pairs apply)
PAIR_SOURCES = {
    "rl_blox.algorithm.ddpg.train_ddpg": "rl_blox.algorithm.ddpg.create_ddpg_state",
    "rl_blox.algorithm.td3.train_td3": "rl_blox.algorithm.td3.create_td3_state",
    "rl_blox.algorithm.td3_lap.train_td3_lap": "rl_blox.algorithm.td3.create_td3_state",
    "rl_blox.algorithm.sac.train_sac": "rl_blox.algorithm.sac.create_sac_state",
    "rl_blox.algorithm.td7.train_td7": "rl_blox.algorithm.td7.create_td7_state",
    "rl_blox.algorithm.mrq.train_mrq": "rl_blox.algorithm.mrq.create_mrq_state",
    "rl_blox.algorithm.reinforce.train_reinforce": "rl_blox.algorithm.reinforce.create_policy_gradient_continuous_state",
    "rl_blox.algorithm.actor_critic.train_ac": "rl_blox.algorithm.reinforce.create_policy_gradient_continuous_state",
    "rl_blox.algorithm.a2c.train_a2c": "rl_blox.algorithm.reinforce.create_policy_gradient_continuous_state",
    "rl_blox.algorithm.pets.train_pets": "rl_blox.algorithm.pets.create_pets_state",
    # the DQN family receives a user-made optimizer for q_net (documented: "optimizer : Optimizer for q_net")
    "rl_blox.algorithm.dqn.train_dqn": None,
    "rl_blox.algorithm.nature_dqn.train_nature_dqn": None,
    "rl_blox.algorithm.ddqn.train_ddqn": None,
    "rl_blox.algorithm.per.train_ddqn_per": None,
    "rl_blox.algorithm.ppo.train_ppo": None,
}
DOCUMENTED_PAIRS = {  # for routines without a create_*_state function: parameter documentation
    "rl_blox.algorithm.dqn.train_dqn": {"optimizer": ("q_net", ())},
    "rl_blox.algorithm.nature_dqn.train_nature_dqn": {"optimizer": ("q_net", ())},
    "rl_blox.algorithm.ddqn.train_ddqn": {"optimizer": ("q_net", ())},
    "rl_blox.algorithm.per.train_ddqn_per": {"optimizer": ("q_net", ())},
    "rl_blox.algorithm.ppo.train_ppo": {"optimizer_actor": ("actor", ()), "optimizer_critic": ("critic", ())},
}
EFFECT_FREE_MODULES = ["rl_blox.blox.losses", "rl_blox.blox.q_policy", "rl_blox.blox.value_policy", "rl_blox.blox.gae", "rl_blox.blox.return_estimates",
                       "rl_blox.blox.function_approximator.policy_head", "rl_blox.blox.double_qnet", "rl_blox.blox.preprocessing"]
EFFECT_FREE_FUNCS = ["rl_blox.algorithm.ddpg.sample_actions", "rl_blox.algorithm.td3.sample_target_actions", "rl_blox.algorithm.sac.sac_actor_loss",
                     "rl_blox.algorithm.sac.sac_exploration_loss", "rl_blox.algorithm.ppo.ppo_loss", "rl_blox.algorithm.mrq.mrq_loss", "rl_blox.algorithm.mrq.mrq_policy_loss",
                     "rl_blox.algorithm.td7._sum_of_qnet_losses", "rl_blox.algorithm.td7.deterministic_policy_gradient_loss_sale",
                     "rl_blox.blox.embedding.sale.state_action_embedding_loss", "rl_blox.blox.embedding.model_based_encoder.model_based_encoder_loss",
                     "rl_blox.blox.probabilistic_ensemble.gaussian_ensemble_loss", "rl_blox.blox.probabilistic_ensemble.gaussian_nll",
                     "rl_blox.algorithm.pets.mpc_action", "rl_blox.algorithm.pets.evaluate_plans", "rl_blox.algorithm.pets.ts_inf",
                     "rl_blox.algorithm.reinforce.reinforce_gradient", "rl_blox.algorithm.actor_critic.actor_critic_policy_gradient", "rl_blox.algorithm.a2c.a2c_policy_gradient",
                     "rl_blox.algorithm.a2c.prepare_a2c_batch"]


# ------------------------------------------------------------------------------------------------------
def grad_sites(repo: Repo, fn, mi):
    """Yield dicts describing each application of a gradient transform inside ``fn`` (nested defs included)."""
    out = []
    # name -> (loss expr, argnums, has_aux) for `g = nnx.value_and_grad(loss, ...)`
    bound = {}
    for n in ast.walk(fn):
        if isinstance(n, ast.Assign) and isinstance(n.value, ast.Call) and isinstance(n.value.func, (ast.Name, ast.Attribute)) \
                and repo.resolve_expr(mi, n.value.func) in GRAD_FUNCS and len(n.targets) == 1 and isinstance(n.targets[0], ast.Name):
            bound[n.targets[0].id] = n.value
    for n in ast.walk(fn):
        if not isinstance(n, ast.Call):
            continue
        tcall = None
        if isinstance(n.func, ast.Call) and isinstance(n.func.func, (ast.Name, ast.Attribute)) and repo.resolve_expr(mi, n.func.func) in GRAD_FUNCS:
            tcall = n.func
        elif isinstance(n.func, ast.Name) and n.func.id in bound:
            tcall = bound[n.func.id]
        if tcall is None:
            continue
        kind = repo.resolve_expr(mi, tcall.func)
        kw = {k.arg: k.value for k in tcall.keywords}
        argnums = kw.get("argnums", tcall.args[1] if len(tcall.args) > 1 else ast.Constant(0))
        try:
            an = ast.literal_eval(argnums)
        except Exception:
            raise AnalysisError(f"{getattr(fn, '_qual', fn.name)}: non-literal argnums `{short(argnums)}` (unrecognised idiom)")
        nums = list(an) if isinstance(an, (tuple, list)) else [an]
        has_aux = bool(ast.literal_eval(kw["has_aux"])) if "has_aux" in kw else False
        loss = tcall.args[0] if tcall.args else kw.get("f")
        diff = []
        for k in nums:
            if any(isinstance(a, ast.Starred) for a in n.args[:k + 1]) or k >= len(n.args):
                diff.append(None)
            else:
                diff.append(n.args[k])
        site = {"app": n, "transform": tcall, "kind": kind, "argnums": nums, "tuple": isinstance(an, (tuple, list)), "has_aux": has_aux, "loss": loss, "diff": diff,
                "value_and": kind.endswith("value_and_grad")}
        out.append(_through_wrapper(repo, fn, mi, site))
    return out


def _through_wrapper(repo, fn, mi, site):
    """`def w(p): return L(a, b, p)` / `lambda p: L(a, b, p)` differentiated w.r.t. p is L differentiated w.r.t. the position p is
    passed at: the site is rewritten in terms of L (loss, argnums, application arguments in L's positional order)."""
    from ..expand import clone
    loss = site["loss"]
    W = None
    if isinstance(loss, ast.Lambda):
        W = (positional_params_l(loss), loss.body)
    elif isinstance(loss, ast.Name):
        cands = [x for x in ast.walk(fn) if isinstance(x, ast.FunctionDef) and x is not fn and x.name == loss.id]
        lams = [x.value for x in ast.walk(fn) if isinstance(x, ast.Assign) and len(x.targets) == 1 and isinstance(x.targets[0], ast.Name) and x.targets[0].id == loss.id and isinstance(x.value, ast.Lambda)]
        if len(cands) == 1 and not lams:
            body = [b for b in cands[0].body if not (isinstance(b, ast.Expr) and isinstance(b.value, ast.Constant))]
            if len(body) == 1 and isinstance(body[0], ast.Return) and body[0].value is not None:
                W = ([a.arg for a in cands[0].args.posonlyargs + cands[0].args.args], body[0].value)
        elif len(lams) == 1 and not cands:
            W = (positional_params_l(lams[0]), lams[0].body)
    if W is None:
        return site
    wp, ret = W
    if not (isinstance(ret, ast.Call) and isinstance(ret.func, (ast.Name, ast.Attribute))):
        return site
    lq = repo.resolve_expr(mi, ret.func)
    if not (lq and lq.startswith("rl_blox.") and repo.has(lq)):
        return site
    try:
        L = repo.func(lq)
    except Exception:
        return site
    Lp = positional_params(L)
    if any(isinstance(a, ast.Starred) for a in ret.args) or any(k.arg is None for k in ret.keywords):
        return site
    bound = {}
    for pn, a in zip(Lp, ret.args):
        bound[pn] = a
    for k in ret.keywords:
        bound[k.arg] = k.value
    app = site["app"]
    if any(isinstance(a, ast.Starred) for a in app.args):
        return site
    wmap = {wp[i]: a for i, a in enumerate(app.args) if i < len(wp)}
    for k in app.keywords:
        if k.arg:
            wmap[k.arg] = k.value
    new_args = []
    for pn in Lp:
        if pn not in bound:
            break
        e = bound[pn]
        new_args.append(wmap[e.id] if isinstance(e, ast.Name) and e.id in wmap else e)
    nums = []
    for k in site["argnums"]:
        if k >= len(wp):
            return site
        pos = [j for j, pn in enumerate(Lp) if pn in bound and isinstance(bound[pn], ast.Name) and bound[pn].id == wp[k]]
        if len(pos) != 1:
            return site
        nums.append(pos[0])
    syn = ast.copy_location(ast.Call(func=app.func, args=new_args, keywords=[]), app)
    syn._parent = getattr(app, "_parent", None)
    syn._original = app
    s2 = dict(site)
    s2.update({"app": syn, "loss": ret.func, "argnums": nums, "diff": [new_args[j] if j < len(new_args) else None for j in nums], "wrapper": loss})
    return s2


def positional_params_l(lam: ast.Lambda):
    return [a.arg for a in lam.args.posonlyargs + lam.args.args]


def _stmt_of(node):
    s = node
    while s is not None and not isinstance(s, ast.stmt):
        s = getattr(s, "_parent", None)
    return s


def _grad_targets(site, stmt):
    """Names that receive the gradient(s) when ``stmt`` consumes the application call; 'return' if returned."""
    app = site["app"]
    if isinstance(stmt, ast.Return) and stmt.value is app:
        return "return", None
    if isinstance(stmt, ast.Assign) and stmt.value is app and len(stmt.targets) == 1:
        t = stmt.targets[0]
        if site["value_and"]:
            if isinstance(t, ast.Tuple) and len(t.elts) == 2:
                g = t.elts[1]
            else:
                return None, None
        else:
            g = t
        if site["tuple"]:
            if isinstance(g, ast.Tuple) and len(g.elts) == len(site["argnums"]) and all(isinstance(x, ast.Name) for x in g.elts):
                return "names", [x.id for x in g.elts]
            return None, None
        if isinstance(g, ast.Name):
            return "names", [g.id]
    return None, None


def _enclosing_fn(node, top):
    p = getattr(node, "_parent", None)
    while p is not None and p is not top:
        if isinstance(p, (ast.FunctionDef, ast.AsyncFunctionDef)):
            return p
        p = getattr(p, "_parent", None)
    return top


def _updates_using(res, fn, gname, site_stmt):
    """`X.update(m, g)` calls whose gradient argument `g` is (by reaching definitions) the one assigned at site_stmt."""
    scope = _enclosing_fn(site_stmt, fn)
    cfg = res.cfg_of(scope)
    try:
        snode = cfg.node_of(site_stmt).id
    except KeyError:
        snode = None
    out = []
    for n in ast.walk(scope):
        if isinstance(n, ast.Call) and isinstance(n.func, ast.Attribute) and n.func.attr == "update" and len(n.args) == 2 and isinstance(n.args[1], ast.Name) and n.args[1].id == gname:
            if _enclosing_fn(n, fn) is not scope:
                continue
            try:
                un = cfg.node_of(n).id
            except KeyError:
                continue
            if snode is None or any(d.node == snode for d in cfg.defs_of(un, gname)):
                out.append(n)
    return out


def _same_obj(res, fn, a: ast.AST, a_at: ast.AST, b: ast.AST, b_at: ast.AST) -> bool:
    """Same attribute path on the same root variable with identical reaching definitions at both program points."""
    pa, pb = expr_path(a), expr_path(b)
    if pa is None or pa != pb:
        return False
    scope = _enclosing_fn(a_at, fn)
    if _enclosing_fn(b_at, fn) is not scope:
        return True
    cfg = res.cfg_of(scope)
    try:
        na, nb = cfg.node_of(a_at).id, cfg.node_of(b_at).id
    except KeyError:
        return True
    rd = cfg.reaching()
    return rd[na].get(pa[0]) == rd[nb].get(pa[0])


def _known():
    from ..expand import load_known
    return load_known()


def _unsummarised_calls(repo, fn, mi):
    """Calls of this routine into repository functions outside the frozen surface, or through scan / vmap / partial wrappers over such."""
    known = _known()
    out = []
    for c in ast.walk(fn):
        if isinstance(c, ast.Call) and isinstance(c.func, (ast.Name, ast.Attribute)):
            r = repo.resolve_expr(mi, c.func)
            if r and r.startswith(repo.PKG + ".") and repo.has(r) and r not in known:
                out.append(r.rsplit(".", 1)[1])
        if isinstance(c, ast.Call):
            for a in list(c.args) + [k.value for k in c.keywords]:
                if isinstance(a, (ast.Name, ast.Attribute)):
                    r = repo.resolve_expr(mi, a)
                    if r and r.startswith(repo.PKG + ".") and repo.has(r) and r not in known:
                        out.append(r.rsplit(".", 1)[1])
    return sorted(set(out))


def run(ck, repo: Repo, tier: str):
    res = Resolver(repo)
    eff = Effects(repo, res)
    idn = Ident(repo)
    g = res.call_graph()

    def _section_1():
        # ---------------- R1 / R4 -----------------------------------------------------------------------------
        n_sites = 0
        returned = {}  # function qual -> (site, param the gradient is w.r.t.)
        pending = []
        for qual, fn, mi in repo.all_functions():
            if "<locals>" in qual:
                continue  # nested defs are scanned with their parent (ast.walk)
            for site in grad_sites(repo, fn, mi):
                n_sites += 1
                stmt = _stmt_of(site["app"])
                where = loc(mi, site["app"])
                kind, names = _grad_targets(site, stmt)
                if kind is None:
                    raise AnalysisError(f"{qual}: gradient application `{short(site['app'], 60)}` is consumed in an unrecognised way")
                if any(d is None for d in site["diff"]):
                    raise AnalysisError(f"{qual}: differentiated argument of `{short(site['app'], 60)}` cannot be located (starred arguments)")
                if kind == "return":
                    pp = positional_params(fn)
                    d = site["diff"][0]
                    ck.need(isinstance(d, ast.Name) and d.id in pp, f"{qual}: returned gradient w.r.t. a non-parameter (unrecognised idiom)")
                    returned[qual] = (site, d.id)
                    continue
                for gname, d in zip(names, site["diff"]):
                    ups = _updates_using(res, fn, gname, stmt)
                    ck.ob("R4-does-update", qual, f"consumed:{short(d, 30)}", bool(ups), f"gradient `{gname}` of `{short(site['loss'], 40)}` w.r.t. `{short(d, 30)}`",
                          "" if ups else "the gradient is computed but never applied: the trained component does not change", where)
                    for u in ups:
                        ok = _same_obj(res, fn, u.args[0], u, d, site["app"])
                        ck.ob("R1-grad-update-pairing", qual, f"{short(d, 30)}<-{short(site['loss'], 40)}", ok,
                              f"grad wrt `{short(d, 40)}` (argnums={site['argnums']}) applied by `{short(u, 70)}`",
                              "" if ok else f"the gradient was taken with respect to `{short(d, 40)}` but is applied to `{short(u.args[0], 40)}`: a different component is changed", loc(mi, u))
                        # R4: update is not under a condition of its own (same control dependence as the gradient computation)
                        try:
                            cfg = res.cfg_of(fn) if not _in_nested(u, fn) else None
                        except Exception:
                            cfg = None
                        if cfg is not None:
                            try:
                                a, b = cfg.node_of(site["app"]).id, cfg.node_of(u).id
                                same = cfg.control_deps(a) == cfg.control_deps(b)
                                ck.ob("R4-does-update", qual, f"unconditional:{short(d, 30)}", same, f"`{short(u, 60)}` follows its gradient on every path",
                                      "" if same else "the update is skipped on some path after the gradient was computed", loc(mi, u))
                            except KeyError:
                                pass
        ck.floor("grad-sites", n_sites, 16)
        # gradients returned to callers
        for fq, (site, pname) in sorted(returned.items()):
            callers = [c for c in g.predecessors(fq)] if fq in g else []
            found = 0
            for cq in sorted(callers):
                try:
                    cfn = repo.func(cq)
                except Exception:
                    continue
                cmi = cfn._module
                fdef = repo.func(fq)
                for n in ast.walk(cfn):
                    if isinstance(n, ast.Assign) and isinstance(n.value, ast.Call) and isinstance(n.value.func, ast.Name) and repo.resolve_name(cmi, n.value.func.id) == fq:
                        t = n.targets[0]
                        if not (isinstance(t, ast.Tuple) and len(t.elts) == 2 and isinstance(t.elts[1], ast.Name)):
                            raise AnalysisError(f"{cq}: result of {fq} unpacked in an unrecognised way")
                        b = bind_call(fdef, n.value)
                        d = b.get(pname)
                        gname = t.elts[1].id
                        ups = _updates_using(res, cfn, gname, n)
                        found += 1
                        ck.ob("R4-does-update", cq, f"consumed:{short(d, 30)}", bool(ups), f"gradient `{gname}` returned by {fq.rsplit('.', 1)[1]}", "" if ups else "gradient never applied", loc(cmi, n))
                        for u in ups:
                            ok = d is not None and _same_obj(res, cfn, u.args[0], u, d, n)
                            ck.ob("R1-grad-update-pairing", cq, f"{short(d, 30)}<-{fq.rsplit('.', 1)[1]}", ok,
                                  f"{fq.rsplit('.', 1)[1]} differentiates its `{pname}` = `{short(d, 30)}`; applied by `{short(u, 60)}`",
                                  "" if ok else f"gradient w.r.t. `{short(d, 30)}` applied to `{short(u.args[0], 30)}`", loc(cmi, u))
            ck.need(found > 0, f"{fq}: returns a gradient but no caller consumes it (anchor vanished)")
    ck.guard(_section_1)

    def _section_2():
        # ---------------- R2 effect sets ---------------------------------------------------------------------------
        ck.floor("update-routines", len(TRAINEES), 15)
        for q, want0 in sorted(TRAINEES.items()):
            fn = repo.func(q)
            mi = fn._module
            # the documented trainee is a *position* of the routine's signature (frozen below); its current name is looked up, so that
            # renaming a parameter does not change the rule
            pp_ = positional_params(fn)
            want = {(pp_[i], a) for i, a in TRAINEE_POS[q] if i < len(pp_)}
            if len(want) != len(TRAINEE_POS[q]):
                raise AnalysisError(f"{q}: signature has fewer parameters than when the trainee set was recorded (anchor vanished)")
            got = eff.summary(q)
            opts = {op for k, c, p, op in eff.sites.get(q, []) if op is not None}
            # optimizer paths reached through callees
            mods = {p for p in got if p not in opts and not _looks_optimizer(p, fn)}
            extra = mods - want
            missing = want - mods
            ok = not extra and not missing
            why = ""
            if not ok:
                # evidence only when the written / missing component is a parameter path of this routine and every call it makes was
                # summarised; temporaries of expanded helpers, positions that moved in the signature and gradient steps that go through new
                # functions / wrappers are not attributable
                roots = {(_p(x).split(".")[0]) for x in extra | missing}
                sig_now = positional_params(fn)
                if any("__i" in r_ for r_ in roots) or any(r_ not in sig_now for r_ in roots):
                    ck.incomplete.append(f"{q}: write set {sorted(_p(x) for x in mods)} cannot be attributed to the signature positions of the documented trainees (unrecognised form)")
                    continue
                if missing and _unsummarised_calls(repo, fn, mi):
                    ck.incomplete.append(f"{q}: the documented trainee {sorted(_p(x) for x in missing)} is handed to code that is not summarised ({_unsummarised_calls(repo, fn, mi)[:2]}): cannot decide whether it is trained")
                    continue
                if extra and tuple(sig_now) != tuple(SIGNATURES.get(q, sig_now)):
                    ck.incomplete.append(f"{q}: the signature changed since the trainee table was recorded; the extra write {sorted(_p(x) for x in extra)} cannot be judged")
                    continue
            if extra:
                why = f"also writes {sorted(_p(x) for x in extra)}: a component it is not documented to train is changed"
            elif missing:
                why = f"does not write its documented trainee {sorted(_p(x) for x in missing)}"
            ck.ob("R2-effects", q, "effect-set", ok, f"writes {sorted(_p(x) for x in mods)} (optimizers {sorted(_p(x) for x in got - mods)})", why, loc(mi, fn))
    ck.guard(_section_2)
    def _section_3():
        # a gradient-updating function that is not in the table
        transparent = repo.transparent_helpers()
        for qual, fn, mi in repo.all_functions():
            if "<locals>" in qual or qual in TRAINEES or qual in transparent:
                continue
            direct = [s for s in (eff.summary(qual) and eff.sites.get(qual, [])) if s[0] == "optimizer.update"]
            if direct and qual not in _known():
                ck.incomplete.append(f"{qual}: a new function applies an optimizer update and is not expanded at its call sites (cannot attribute the update)")
                continue
            if direct:
                ck.ob("R2-effects", qual, "unregistered-update-routine", False, f"`{short(direct[0][1], 60)}`", "function applies an optimizer update but has no documented trainee set", loc(mi, direct[0][1]))
    ck.guard(_section_3)

    def _section_4():
        # ---------------- R2 call-site optimizer/module pairs ----------------------------------------------------------
        n_pairs = 0
        for tq, cq in sorted(PAIR_SOURCES.items()):
            tfn = repo.func(tq)
            tmi = tfn._module
            cfg = res.cfg_of(tfn)
            pairs = dict(DOCUMENTED_PAIRS.get(tq, {}))
            if cq:
                pairs.update(_created_pairs(repo, cq))
                ck.need(pairs, f"{cq}: no nnx.Optimizer(...) found (anchor vanished)")
            for node in cfg.nodes:
                if node.ast is None or node.kind != "stmt":
                    continue
                for c in ast.walk(node.ast):
                    if not isinstance(c, ast.Call):
                        continue
                    for (opt_e, mod_e, ctx_q, ctx_fn, ctx_cfg, ctx_node, callee) in _opt_mod_at_call(repo, res, eff, tq, tfn, cfg, node.id, c):
                        op = expr_path(opt_e)
                        if op is None:
                            continue
                        oname = op[1][-1] if op[1] else op[0]
                        if oname not in pairs:
                            continue
                        n_pairs += 1
                        want_mod = pairs[oname]
                        got_id = idn.of(mod_e, ctx_fn._module, ctx_cfg, ctx_node, ctx_q)
                        want_e = _path_expr(want_mod, tfn, pairs, oname)
                        want_id = idn.of(want_e, tmi, cfg, node.id, tq)
                        ok = got_id == want_id
                        ck.ob("R2-effects", tq, f"pair:{oname}@{callee.rsplit('.', 1)[1]}", ok, f"`{short(c, 50)}`: {oname} updates {show(got_id)}",
                              "" if ok else f"`{oname}` was created for `{_p(want_mod)}` but is used to update {show(got_id)}: optimizer state and parameters of different components are mixed",
                              loc(tmi, c))
        ck.floor("optimizer-module-pairs", n_pairs, 20)
    ck.guard(_section_4)

    def _section_5():
        # ---------------- R5 returned components are distinct objects ---------------------------------------------------
        n_res = 0
        for qual, fn, mi in repo.all_functions():
            if "<locals>" in qual or not fn.name.startswith("train_"):
                continue
            for n in ast.walk(fn):
                if isinstance(n, ast.Return) and isinstance(n.value, ast.Call) and isinstance(n.value.func, ast.Call) and dotted(n.value.func.func) == "namedtuple":
                    nt = n.value.func
                    if not (len(nt.args) == 2 and isinstance(nt.args[1], (ast.List, ast.Tuple))):
                        continue
                    fields = [e.value for e in nt.args[1].elts if isinstance(e, ast.Constant)]
                    cfg = res.cfg_of(fn)
                    at = cfg.node_of(n).id
                    seen = {}
                    n_res += 1
                    for fld, val in zip(fields, n.value.args):
                        alts = [val.body, val.orelse] if isinstance(val, ast.IfExp) else [val]
                        for a in alts:
                            if expr_path(a) is None:
                                continue
                            ident = idn.of(a, mi, cfg, at, qual)
                            if ident[0] in ("global", "expr", "value", "call", "aug", "for", "unpack", "phi"):
                                continue  # counters, buffers built elsewhere: not module identities
                            for leaf in idn.leaves(ident, mi, cfg, qual):
                                for other_leaf, other_fld in list(seen.items()):
                                    if other_fld != fld and (has_base(leaf, other_leaf) or has_base(other_leaf, leaf)):
                                        ck.ob("R5-distinct-components", qual, f"{min(fld, other_fld)}~{max(fld, other_fld)}", False, f"result fields `{fld}` and `{other_fld}`",
                                              f"both denote {show(leaf)}: the two components share storage, so updating one changes the other", loc(mi, n))
                                seen.setdefault(leaf, fld)
                    ck.ob("R5-distinct-components", qual, "result-tuple", True, f"{len(fields)} fields, {len(seen)} distinct module identities", "", loc(mi, n))
        ck.floor("result-tuples", n_res, 10)
    ck.guard(_section_5)

    def _section_6():
        # ---------------- R3 effect-free evaluation -------------------------------------------------------------------
        n_free = 0
        targets = list(EFFECT_FREE_FUNCS)
        for m in EFFECT_FREE_MODULES:
            for name_, node_, mi_ in repo.module_members(m):
                holder = ast.Module(body=[node_], type_ignores=[])
                for qual, fn, mi2 in repo._walk_funcs(mi_, holder, m):
                    if "<locals>" not in qual and not fn.name.startswith("__init__"):
                        targets.append(qual)
        for q in sorted(set(targets)):
            fn = repo.func(q)
            got = eff.summary(q)
            n_free += 1
            ck.ob("R3-effect-free", q, "no-module-write", not got, f"effect set {sorted(_p(x) for x in got)}", "" if not got else f"evaluating / acting writes {sorted(_p(x) for x in got)}", loc(fn._module, fn))
            # raw parameter stores `x.value = ...` / `x[...] = ...` on module attributes
            for n in ast.walk(fn):
                if isinstance(n, (ast.Assign, ast.AugAssign)):
                    tg = n.targets[0] if isinstance(n, ast.Assign) else n.target
                    if isinstance(tg, ast.Attribute) and tg.attr == "value":
                        ck.ob("R3-effect-free", q, "raw-value-store", False, short(n, 60), "direct store into a parameter's .value", loc(fn._module, n))
        ck.floor("effect-free-functions", n_free, 40)
    ck.guard(_section_6)
    ck.guard(stateful_objects_in_lax_carry, ck, repo)


LAX_CARRY = {"jax.lax.fori_loop": (3, "init_val"), "jax.lax.while_loop": (2, "init_val"), "jax.lax.scan": (1, "init"), "jax.lax.cond": (3, None), "jax.lax.switch": (2, None)}
NNX_OBJECT_TYPES = ("flax.nnx.Module", "flax.nnx.Optimizer", "flax.nnx.ModelAndOptimizer", "flax.nnx.optimizer.Optimizer", "flax.nnx.module.Module")


def _is_nnx_annotation(repo, mi, ann) -> bool:
    if ann is None:
        return False
    for n in ast.walk(ann):
        if isinstance(n, (ast.Name, ast.Attribute)):
            try:
                r = repo.resolve_expr(mi, n)
            except Exception:
                r = None
            if r in NNX_OBJECT_TYPES:
                return True
            if r and r.startswith(repo.PKG + ".") and repo.has(r):
                try:
                    node = repo.lookup(r)[1]
                except Exception:
                    node = None
                if isinstance(node, ast.ClassDef):
                    for c in repo.mro(r):
                        try:
                            cn = repo.cls(c)
                        except Exception:
                            continue
                        if any(repo.resolve_expr(cn._module, b) in NNX_OBJECT_TYPES for b in cn.bases if isinstance(b, (ast.Name, ast.Attribute))):
                            return True
    return False


def _stateful_param(repo, q, fn, mi, name, depth=0):
    """Why the parameter ``name`` of ``fn`` holds an nnx Module / Optimizer (text), or None when there is no evidence."""
    for a in fn.args.posonlyargs + fn.args.args + fn.args.kwonlyargs:
        if a.arg == name and _is_nnx_annotation(repo, mi, a.annotation):
            return f"parameter `{name}: {ast.unparse(a.annotation)}`"
    pp = positional_params(fn)
    if q in TRAINEE_POS and name in pp and any(pp.index(name) == i for i, _a in TRAINEE_POS[q]):
        return f"`{name}` is the documented trainee of {q.rsplit('.', 1)[1]}"
    if depth < 2 and name in param_names(fn):
        # what do the callers inside the package pass?
        for q2, f2, mi2 in repo.all_functions():
            if "<locals>" in q2:
                continue
            for c in ast.walk(f2):
                if isinstance(c, ast.Call) and isinstance(c.func, (ast.Name, ast.Attribute)):
                    try:
                        r = repo.resolve_expr(mi2, c.func)
                    except Exception:
                        r = None
                    if r == q:
                        b = bind_call(fn, c)
                        v = b.get(name)
                        if isinstance(v, ast.Name) and v.id in param_names(f2):
                            w = _stateful_param(repo, q2, f2, mi2, v.id, depth + 1)
                            if w:
                                return f"{w}, passed as `{name}` by {q2.rsplit('.', 1)[1]}"
    return None


def stateful_objects_in_lax_carry(ck, repo):
    n_sites = 0
    for q, fn, mi in repo.all_functions():
        if "<locals>" in q:
            continue
        for c in ast.walk(fn):
            if not (isinstance(c, ast.Call) and isinstance(c.func, (ast.Name, ast.Attribute))):
                continue
            try:
                r = repo.resolve_expr(mi, c.func)
            except Exception:
                r = None
            if r not in LAX_CARRY:
                continue
            n_sites += 1
            idx, kw = LAX_CARRY[r]
            ops = list(c.args[idx:]) if r in ("jax.lax.cond", "jax.lax.switch") else ([c.args[idx]] if len(c.args) > idx else [k.value for k in c.keywords if k.arg == kw])
            names = []
            for o in ops:
                for x in ([o] if isinstance(o, ast.Name) else list(o.elts) if isinstance(o, (ast.Tuple, ast.List)) else [v_ for v_ in o.values] if isinstance(o, ast.Dict) else []):
                    if isinstance(x, ast.Name):
                        names.append(x)
            bad = []
            for x in names:
                # the innermost function that has the name as a parameter
                owner = x
                why = None
                while owner is not None:
                    owner = getattr(owner, "_parent", None)
                    if isinstance(owner, ast.FunctionDef) and x.id in param_names(owner):
                        oq = q if owner is fn else None
                        why = _stateful_param(repo, oq or q + ".<locals>." + owner.name, owner, mi, x.id) if oq else (
                            next((f"parameter `{x.id}: {ast.unparse(a.annotation)}`" for a in owner.args.args if a.arg == x.id and _is_nnx_annotation(repo, mi, a.annotation)), None))
                        break
                if why:
                    bad.append((x.id, why))
            if bad:
                # the final carry could be written back by hand: only a carry whose stateful positions are dropped is a definite loss
                par = getattr(c, "_parent", None)
                dropped = isinstance(par, ast.Expr)
                if isinstance(par, ast.Assign) and len(par.targets) == 1 and isinstance(par.targets[0], (ast.Tuple, ast.List)) and len(ops) == 1 and isinstance(ops[0], (ast.Tuple, ast.List)) \
                        and len(par.targets[0].elts) == len(ops[0].elts) and r != "jax.lax.scan":
                    scope_fn = c
                    while scope_fn is not None and not isinstance(scope_fn, ast.FunctionDef):
                        scope_fn = getattr(scope_fn, "_parent", None)
                    loads = {n_.id for n_ in ast.walk(scope_fn or fn) if isinstance(n_, ast.Name) and isinstance(n_.ctx, ast.Load)}
                    pos = [i for i, e_ in enumerate(ops[0].elts) if isinstance(e_, ast.Name) and e_.id in {b_[0] for b_ in bad}]
                    tg = par.targets[0].elts
                    dropped = all(isinstance(tg[i], ast.Name) and (tg[i].id == "_" or tg[i].id not in loads) for i in pos)
                if not dropped:
                    ck.incomplete.append(f"{q}: `{short(c, 60)}` carries {[b_[0] for b_ in bad]} through {r}; the final carry is kept, whether it is written back to the caller's objects is not decided")
                    continue
            ck.ob("R6-stateful-objects-in-lax-carry", q, f"carry:{r.rsplit('.', 1)[1]}:{getattr(c, 'lineno', 0) - getattr(fn, 'lineno', 0)}", not bad,
                  f"`{short(c, 70)}` carries {[x.id for x in names]}", "" if not bad else
                  f"{'; '.join(f'`{n_}` ({w_})' for n_, w_ in bad)} is handed to {r} as a loop operand: the primitive works on a pytree copy, so the updates made in the body never reach the caller's object - the component is not trained although the returned loss decreases", loc(mi, c))
    ck.floor("jax.lax-control-flow-sites", n_sites, 1)


def _in_nested(node, fn):
    p = getattr(node, "_parent", None)
    while p is not None and p is not fn:
        if isinstance(p, (ast.FunctionDef, ast.AsyncFunctionDef, ast.Lambda)):
            return True
        p = getattr(p, "_parent", None)
    return False


def _looks_optimizer(path, fn):
    root, attrs = path
    name = attrs[-1] if attrs else root
    return "optimizer" in name


def _p(path):
    root, attrs = path
    return ".".join((root,) + tuple(attrs))


def _created_pairs(repo, cq):
    """optimizer variable -> module path from `x_optimizer = nnx.Optimizer(<module expr>, ...)` in a create_*_state function."""
    fn = repo.func(cq)
    mi = fn._module
    out = {}
    for n in ast.walk(fn):
        if isinstance(n, ast.Assign) and isinstance(n.value, ast.Call) and isinstance(n.value.func, (ast.Name, ast.Attribute)) and repo.resolve_expr(mi, n.value.func) == "flax.nnx.Optimizer":
            if isinstance(n.targets[0], ast.Name) and n.value.args:
                p = expr_path(n.value.args[0])
                if p:
                    out[n.targets[0].id] = p
        # keyword form: EnsembleTrainState(model=model, optimizer=nnx.Optimizer(model, ...))
        if isinstance(n, ast.keyword) and isinstance(n.value, ast.Call) and isinstance(n.value.func, (ast.Name, ast.Attribute)) and repo.resolve_expr(mi, n.value.func) == "flax.nnx.Optimizer":
            p = expr_path(n.value.args[0]) if n.value.args else None
            if p and n.arg:
                out[n.arg] = p
    return out


def _path_expr(path, tfn, pairs, oname):
    root, attrs = path
    # PETS: the train state object holds both (`dynamics_model.model`, `dynamics_model.optimizer`)
    if root not in param_names(tfn) and oname == "optimizer" and "dynamics_model" in param_names(tfn):
        root, attrs = "dynamics_model", (root,) + tuple(attrs)
    e = ast.Name(id=root, ctx=ast.Load())
    for a in attrs:
        e = ast.Attribute(value=e, attr=a, ctx=ast.Load())
    return e


def _opt_mod_at_call(repo, res, eff, tq, tfn, cfg, nid, call, depth=0):
    """(optimizer expr, module expr, context...) pairs that a call in a train function establishes, following callees."""
    out = []
    t = res.resolve(call.func, tfn._module, cfg, nid)
    callee = t.qual if t else None
    if callee is None and isinstance(call.func, ast.Attribute) and call.func.attr == "update" and isinstance(call.func.value, ast.Name) and call.func.value.id == "entropy_control":
        return out
    if callee is None or callee == tq:
        return out
    eff.summary(callee)
    try:
        cfn = repo.func(callee)
    except Exception:
        return out
    b = bind_call(cfn, call, list(t.prefix))
    for k, v in t.kwargs.items():
        b.setdefault(k, v)

    def subst(path):
        root, attrs = path
        a = b.get(root)
        if a is None or isinstance(a, list):
            return None
        e = a
        for x in attrs:
            e = ast.Attribute(value=e, attr=x, ctx=ast.Load())
        return e

    for kind, c2, p, op in eff.sites.get(callee, []):
        if kind == "optimizer.update" and op is not None:
            oe, me = subst(op), subst(p)
            if oe is not None and me is not None:
                out.append((oe, me, tq, tfn, cfg, nid, callee))
        elif kind.startswith("call ") and depth < 3:
            sub = kind.split(" ", 1)[1]
            # pairs established deeper: recurse in the callee's own context, then map its parameters back
            ccfg = res.cfg_of(cfn)
            try:
                n2 = ccfg.node_of(c2).id
            except KeyError:
                continue
            for (oe, me, q2, f2, cfg2, node2, cal2) in _opt_mod_at_call(repo, res, eff, callee, cfn, ccfg, n2, c2, depth + 1):
                po, pm = expr_path(oe), expr_path(me)
                if po is None or pm is None:
                    continue
                o2, m2 = subst(po), subst(pm)
                if o2 is not None and m2 is not None:
                    out.append((o2, m2, tq, tfn, cfg, nid, cal2))
    # de-duplicate
    seen, res_ = set(), []
    for x in out:
        k = (ast.unparse(x[0]), ast.unparse(x[1]), x[6])
        if k not in seen:
            seen.add(k)
            res_.append(x)
    return res_


# ---- self-validation variants -------------------------------------------------------------------------------
_A = "rl_blox/algorithm/"
MUTANTS = [
    {"id": "c05-lax-loop-copies-module", "file": "rl_blox/algorithm/reinforce.py", "rule": "R6", "find": "    v_loss = 0.0\n    for _ in range(value_gradient_steps):\n        v_loss, v_grad = nnx.value_and_grad(mse_value_loss, argnums=2)(\n            observations, returns, value_function\n        )\n        value_function_optimizer.update(value_function, v_grad)\n    return v_loss",
     "replace": "    def body(_, carry):\n        vf, opt, _ = carry\n        v_loss, v_grad = nnx.value_and_grad(mse_value_loss, argnums=2)(\n            observations, returns, vf\n        )\n        opt.update(vf, v_grad)\n        return vf, opt, v_loss\n\n    _, _, v_loss = jax.lax.fori_loop(\n        0, value_gradient_steps, body, (value_function, value_function_optimizer, 0.0)\n    )\n    return v_loss"},
    {"id": "c05-dqn-argnums", "file": _A + "dqn.py", "rule": "R", "find": "    grad_fn = nnx.value_and_grad(loss, argnums=0, has_aux=True)\n    value, grad = grad_fn(q, *args, **kwargs)", "replace": "    grad_fn = nnx.value_and_grad(loss, argnums=0, has_aux=True)\n    value, grad = grad_fn(q, *args, **kwargs)\n    q = args[0]"},
    {"id": "c05-ddpg-actor-updates-q", "file": _A + "ddpg.py", "rule": "R1", "find": "    policy_optimizer.update(policy, grads)\n    return actor_loss_value", "replace": "    policy_optimizer.update(q, grads)\n    return actor_loss_value"},
    {"id": "c05-ddpg-argnums-shift", "file": _A + "ddpg.py", "rule": "R1", "find": "deterministic_policy_gradient_loss, argnums=2\n    )(q, observation, policy)", "replace": "deterministic_policy_gradient_loss, argnums=0\n    )(q, observation, policy)"},
    {"id": "c05-sac-alpha-updates-policy", "file": _A + "sac.py", "rule": "R1", "find": "        sac_exploration_loss, argnums=4\n", "replace": "        sac_exploration_loss, argnums=0\n"},
    {"id": "c05-td7-actor-whole-policy", "file": _A + "td7.py", "rule": "R", "find": "    actor_optimizer.update(policy.actor, grads)", "replace": "    actor_optimizer.update(policy.embedding, grads)"},
    {"id": "c05-td7-critic-target-updated", "file": _A + "td7.py", "rule": "R", "find": "    critic_optimizer.update(critic, grads)", "replace": "    critic_optimizer.update(critic_target, grads)"},
    {"id": "c05-mrq-policy-grad-to-q", "file": _A + "mrq.py", "rule": "R1", "find": "    policy_optimizer.update(policy, grads)", "replace": "    policy_optimizer.update(q, grads)"},
    {"id": "c05-mrq-swapped-optimizers", "file": _A + "mrq.py", "rule": "R2", "find": "        update_critic_and_policy,\n        q,\n        q_target,\n        q_optimizer,\n        policy_with_encoder.policy,\n        policy_optimizer,", "replace": "        update_critic_and_policy,\n        q,\n        q_target,\n        policy_optimizer,\n        policy_with_encoder.policy,\n        q_optimizer,"},
    {"id": "c05-mrq-encoder-also-updates-policy", "file": "rl_blox/blox/embedding/model_based_encoder.py", "rule": "R2", "find": "        encoder_optimizer.update(encoder, grads)\n", "replace": "        encoder_optimizer.update(encoder, grads)\n        nnx.update(encoder_target, nnx.state(encoder))\n"},
    {"id": "c05-td3-wrong-optimizer", "file": _A + "td3.py", "rule": "R2", "find": "                    policy_loss_value = ddpg_update_actor(\n                        policy, policy_optimizer, q, batch.observation", "replace": "                    policy_loss_value = ddpg_update_actor(\n                        policy, q_optimizer, q, batch.observation"},
    {"id": "c05-td3-trains-target", "file": _A + "td3.py", "rule": "R2", "find": "                    q_optimizer,\n                    q,\n                    q_target,\n                    next_actions,", "replace": "                    q_optimizer,\n                    q_target,\n                    q,\n                    next_actions,"},
    {"id": "c05-ppo-grads-swapped", "file": _A + "ppo.py", "rule": "R1", "find": "        (loss_val), (grad_actor, grad_critic) = loss_grad_fn(", "replace": "        (loss_val), (grad_critic, grad_actor) = loss_grad_fn("},
    {"id": "c05-ppo-critic-not-updated", "file": _A + "ppo.py", "rule": "R", "find": "        optimizer_critic.update(critic, grad_critic)\n", "replace": ""},
    {"id": "c05-reinforce-updates-value-fn", "file": _A + "reinforce.py", "rule": "R1", "find": "        policy_optimizer.update(policy, p_grad)", "replace": "        policy_optimizer.update(value_function, p_grad)"},
    {"id": "c05-reinforce-grad-wrt-wrong-arg", "file": _A + "reinforce.py", "rule": "R", "find": "        stochastic_policy_gradient_pseudo_loss, argnums=3\n    )(observations, actions, weights, policy)", "replace": "        stochastic_policy_gradient_pseudo_loss, argnums=2\n    )(observations, actions, weights, policy)", "accept_error": True},
    {"id": "c05-loss-with-side-effect", "file": "rl_blox/blox/losses.py", "rule": "R3", "find": "    q_next = jax.lax.stop_gradient(q_target(next_obs_act).squeeze())\n    q_target_value = reward + (1 - terminated) * gamma * q_next\n    return _mse_clipped_double_q_loss(q_target_value, q, action, observation)\n\n\ndef _mse",
     "replace": "    q_next = jax.lax.stop_gradient(q_target(next_obs_act).squeeze())\n    nnx.update(q_target, nnx.state(q))\n    q_target_value = reward + (1 - terminated) * gamma * q_next\n    return _mse_clipped_double_q_loss(q_target_value, q, action, observation)\n\n\ndef _mse"},
    {"id": "c05-sale-conditional-update", "file": "rl_blox/blox/embedding/sale.py", "rule": "R4", "find": "    embedding_optimizer.update(embedding, grads)", "replace": "    if actions.shape[0] > 1:\n        embedding_optimizer.update(embedding, grads)"},
    {"id": "c05-ensemble-updates-other", "file": "rl_blox/blox/probabilistic_ensemble.py", "rule": "R4", "find": "        optimizer.update(model, grads)\n        return (model, optimizer), loss", "replace": "        return (model, optimizer), loss"},
]
BENIGN = [
    {"id": "c05-b-dqn-inline-gradfn", "file": _A + "dqn.py", "find": "    grad_fn = nnx.value_and_grad(loss, argnums=0, has_aux=True)\n    value, grad = grad_fn(q, *args, **kwargs)", "replace": "    value, grad = nnx.value_and_grad(loss, argnums=0, has_aux=True)(\n        q, *args, **kwargs\n    )"},
    {"id": "c05-b-ddpg-rename-grads", "file": _A + "ddpg.py", "find": "    actor_loss_value, grads = nnx.value_and_grad(\n        deterministic_policy_gradient_loss, argnums=2\n    )(q, observation, policy)\n    policy_optimizer.update(policy, grads)", "replace": "    actor_loss_value, g_policy = nnx.value_and_grad(\n        deterministic_policy_gradient_loss, argnums=2\n    )(q, observation, policy)\n    policy_optimizer.update(policy, g_policy)"},
    {"id": "c05-b-sac-local-fn", "file": _A + "sac.py", "find": "    loss, grads = nnx.value_and_grad(sac_actor_loss, argnums=0)(\n        policy, q, alpha, action_key, observation\n    )", "replace": "    loss_and_grad = nnx.value_and_grad(sac_actor_loss, argnums=0)\n    loss, grads = loss_and_grad(policy, q, alpha, action_key, observation)"},
    {"id": "c05-b-td3-kwargs", "file": _A + "td3.py", "find": "                    policy_loss_value = ddpg_update_actor(\n                        policy, policy_optimizer, q, batch.observation\n                    )", "replace": "                    policy_loss_value = ddpg_update_actor(\n                        policy=policy,\n                        policy_optimizer=policy_optimizer,\n                        q=q,\n                        observation=batch.observation,\n                    )"},
    {"id": "c05-b-losses-logging-dict", "file": "rl_blox/blox/losses.py", "find": "    observation, action, reward, next_observation, terminated = batch\n    next_obs_act = jnp.concatenate((next_observation, next_action), axis=-1)\n    q_next = jax.lax.stop_gradient(q_target(next_obs_act).squeeze())\n    q_target_value = reward + (1 - terminated) * gamma * q_next\n    return _mse",
     "replace": "    observation, action, reward, next_observation, terminated = batch\n    info = {}\n    info.update({\"n\": len(reward)})\n    next_obs_act = jnp.concatenate((next_observation, next_action), axis=-1)\n    q_next = jax.lax.stop_gradient(q_target(next_obs_act).squeeze())\n    q_target_value = reward + (1 - terminated) * gamma * q_next\n    return _mse"},
]
